"""C05 — requests resolve to a documented status; refused requests change nothing."""
from __future__ import annotations

import json
from typing import Any, Dict, List, Tuple

from harness.extract import request_callers as x_callers
from harness.extract import request_core as x_core
from harness.lib import scen
from harness.lib.core import VERIF, Ctx, Rng, lean_lock, run_driver
from harness.rigs import request as rig
from harness.rigs import request_contract as rcon
from harness.rigs import request_edits as redits
from harness.rigs import request_state as rstate

MANIFEST = {
    "text": "Lean 4 proof, for every request tree, validator valuation, handler semantics, state and request, that the model of "
            "RequestManager.__call__ (i) leaves the state untouched and answers unreachable/failure (never success) unless a handler is "
            "reached, (ii) changes state only through the reached handler, (iii) never answers unreachable when the path names existing "
            "components down to a handler, (iv) reports as failure only a permission rule lying on the request's own path at the reported "
            "depth, all earlier rules holding, (v) reaches the handler iff the target exists and every rule on the path holds, and (vi) is "
            "total on every request (empty, over-long, elements of any Python type; depth bounded by the length). Static part, over "
            "tables regenerated from the source: every registered action's template resolves through the schematic request tree for every "
            "node / software class it can address; on every live tree that is an instance (Inst) of the schema the rules met are exactly "
            "the hand-written contract (expectedGuards), every component class carries its component gates on every edge of its root "
            "manager (C05_component_gates: all node routes power-gated, incl. keys added by subclasses), and a false gate refuses the "
            "request at that edge (C05_gate_refuses). Permission rules: every RequestPermissionValidator.__call__ (and get_folder / "
            "get_file) is translated from the source and PROVED equal to its specification over a small model state; a failure names a "
            "rule of the request's own route whose translated predicate is false on its own component. Dynamic part: the tree edits of "
            "install / uninstall / connect / disconnect / create / restore / add / remove (addKey / removeKey at the dynamic manager under "
            "a literal key of the owner's root manager) keep Inst for the edited inventory, are local, and leave no route through a "
            "removed key; the regenerated schema meets the side conditions at every dynamic site, and every dynamic add site has a remove "
            "site except the folder / file levels, whose stale keys are guarded by the exists / not-deleted rules. 'Every "
            "request is answered' is FULL since the repair of F-C05-2 (C05_FullAnswered: for every tree, rules, handlers - including "
            "handlers that read options the request does not carry - state and request; a reached handler that reads a missing option "
            "is answered failure by one central mechanism, pinned by C05_gen_missing_options_answered; C05_repair_answers_what_raised); "
            "that a handler raises nothing ELSE is not a theorem - it is searched by the live families incl. R-boundary (boundary "
            "values of every option of every action type and raw request). "
            "Dynamic sites: the guards of every add_request / remove_request site are regenerated and proved free of power / operating-state "
            "tests, with only presence / type guards beyond the registry statement (C05_gen_sites_unconditional); on the construction-order "
            "model routes = registry for every operation sequence (C05_exists_iff_route, C05_guarded_site_counterexample). No handler copies "
            "or slices its options before reading them (C05_gen_no_options_view_bypass). Callers: the package's five call sites of "
            "apply_request / _request_manager and what becomes of the response are regenerated and pinned (C05_gen_request_call_sites: "
            "returned, stored-and-returned, or handed to the one process_action_response, which only appends the history item — "
            "C05_gen_response_only_recorded), and no function of game/ that reads a recorded response has an attribute path into the "
            "simulation (C05_gen_callers_do_not_touch_simulation_on_refusal); rig R-callers: a step in which the agent's action is refused "
            "leaves the simulation, then and two steps later, as the same step with do-nothing does. Rig R-boundary: every numeric / "
            "enumerated / name option of every action type at its boundary values (ACL position around max_acl_rules, NIC / port numbers "
            "around the count, ports 0 / 65535 / 65536, empty and 300-character names), schema-refused values re-sent raw, real handlers: "
            "an exception out of apply_request or an undocumented status is a violation with the request as replay. "
            "Ties: Gen/RequestCore (shape of __call__/check_valid, unhashable-key guard), Gen/RequestSchema, Gen/ActionTemplates, "
            "Gen/RequestValidators, Gen/RequestCallers; rigs R-req (live trees at perturbed states incl. powered-off network devices: status, depth, handler, "
            "#args vs the model; route mutations incl. unhashable / None / float / bool elements, empty and over-long requests; every "
            "registered action x existing/missing components), the CONTRACT oracle and search (hand-written contract read from Lean, "
            "evaluated on the object graph; one instance of every route-owning class driven into every gate-falsifying state; every "
            "route raw + every action; suspects confirmed with the real handlers), deep state fingerprint (object-graph walk, logs "
            "excluded) before/after every refused live request, R-schema, R-guards (real validator objects vs translated predicates), "
            "R-edits (real tree edits vs addKey/removeKey), raw routes with the real handlers.",
    "note": "C05-specific: handlers are opaque state transformers in the model (what a reached handler does is covered by C12-C17); "
            "that no code other than handlers mutates state on a refused request is carried by the rigs' before/after comparison "
            "(describe_state and the deep fingerprint). C05_deep_edit_keeps_inst lifts a local edit to any ancestor manager under an "
            "executable path condition (pathOKB), discharged for the regenerated schema at one concrete path, not for all paths at once. "
            "The contract tables (expectedGuards, gate) are hand-written; the rigs validate Inst, the translation's input abstraction "
            "and the edit sites against the running code, they do not prove them.",
    "technique": "Lean 4 theorems over models of request dispatch, the schematic request tree, permission rules and tree edits; "
                 "regenerated tables and translated predicates; differential rigs and a contract search on live request trees",
    "design_ref": "5/C05",
}
MODULES = ["PrimaiteModel.Props.C05", "PrimaiteModel.Props.C05Callers"]   # the static part (harness/props/c05x.py) adds C05Schema, C05Guards, C05Inst
EXE = "drv_c05"
QUICK_SCEN = ["data_manipulation", "basic_firewall", "basic_switched_network"]


def scenarios(ctx: Ctx) -> Dict[str, Any]:
    allsc = scen.shipped()
    if not ctx.thorough:
        return {k: allsc[k] for k in QUICK_SCEN if k in allsc}
    skip = {"bad_primaite_session", "no_nodes_links_agents_network"}
    return {k: v for k, v in allsc.items() if k not in skip}


def registry():
    import primaite.game.game  # noqa: F401  (registers every action)
    from primaite.game.agent.actions.abstract import AbstractAction
    return dict(AbstractAction._registry)


def norm_model(line: str) -> Tuple[str, str, str]:
    out, valid, exists = [x.strip() for x in line.split("|")]
    parts = out.split()
    if parts[0] == "failure":
        out = f"failure {parts[1]}"
    return out, valid.split("=")[1], exists.split("=")[1]


def explore(ctx: Ctx, want_live: bool = True, structure: bool = True, contract=None, only=None, round_only=None) -> List[dict]:
    """Runs R-req and returns one record per request: scenario, path, impl outcome, model outcome, impl/model mask, flags.
    With a `contract` (rigs/request_contract.Contract) every request is also judged against the hand-written contract.
    `only` restricts the run to the named scenarios (one shard); every scenario has its own random streams (one for the
    perturbation, one per round for the request families), so the result does not depend on how the work is distributed over
    processes.  `round_only=r` (thorough shards) evaluates round r alone: the state is the initial state plus r perturbation
    batches (the live requests of earlier rounds, which in a sequential run are part of the path, are then not)."""
    reg = registry()
    records: List[dict] = []
    lines: List[str] = []
    for name, path in scenarios(ctx).items():
        if only is not None and name not in only:
            continue
        prng = ctx.rng.fork("req:" + name + ":perturb")
        try:
            cfg = scen.load_cfg(path)
            game = scen.make_game(cfg)
        except Exception as e:
            ctx.notes.append(f"scenario {name} not buildable as a game: {type(e).__name__}: {str(e)[:120]}")
            continue
        sim = game.simulation
        rounds = ctx.scale(2, 4)
        history: List[Any] = []
        for rnd in range(rounds):
            rng = ctx.rng.fork(f"req:{name}:{rnd}")
            vocab = rig._vocab(sim)
            if rnd:
                history += rig.perturb(prng, sim, reg, vocab, steps=ctx.scale(10, 25))
                vocab = rig._vocab(sim)
            if round_only is not None and rnd != round_only:
                continue
            rm = sim._request_manager
            restored = {(q[2], q[6], q[7]) for q in history if len(q) >= 8 and q[3:6] == ["file_system", "restore", "file"]}
            for mm in (rig.structure_mismatches(sim) if structure else []):
                sig = {"kind": "request-tree-disagrees-with-object-graph", "what": mm["kind"], "level": mm.get("level")}
                if mm.get("level") == "file":
                    node_folder = mm["where"].split(":")
                    sig["after_restore_of_that_file"] = (node_folder[0], node_folder[1], mm["key"]) in restored
                ctx.violation(sig, f"{name} round {rnd}: {mm}", {"scenario": name, "round": rnd, "mismatch": mm, "history": history})
            ctx.count("structure-oracle-runs")
            snap = rig.Snap(rm)
            lines.append("tree " + " ".join(snap.tokens))
            records.append({"kind": "tree", "scenario": name, "round": rnd, "edges": snap.n_edges})
            routes = rm.get_request_types_recursively()
            fam: List[Tuple[str, List[Any], bool]] = []
            cap = ctx.scale(400, 2500)
            pick = routes if len(routes) <= cap else [rng.choice(routes) for _ in range(cap)]
            for r in pick:
                fam.append(("route", r, True))
                for m in rig.mutations(rng, r, k=ctx.scale(1, 3)):
                    fam.append(("mutant", m, False))
            for _ in range(ctx.scale(300, 1500)):
                ident, opts, exists = rig.gen_action(rng, sim, vocab, reg)
                try:
                    req = reg[ident].form_request(reg[ident].ConfigSchema(type=ident, **opts))
                except Exception as e:
                    ctx.count("action-config-rejected")
                    continue
                fam.append(("action:" + ident, req, rig.target_exists(sim, req)))
            roots = rcon.Roots(sim) if contract is not None else None
            if contract is not None:
                contract.fill(roots.keys_seen())
            with rig.Probe(sim, snap, stub=True) as probe:
                for kind, req, exists in fam:
                    vals, vexc = rig.valuation(rm, req, snap)
                    out, resp = probe.call(req)
                    cbad = None
                    if contract is not None and not out.startswith("raised"):
                        rules, on_tree = rcon.route_contract(sim, roots, contract, req)
                        ident = kind.split(":", 1)[1] if kind.startswith("action:") else None
                        cbad = rcon.judge_request(rules, bool(exists) and on_tree, out, contract.guards.get(ident) if ident else None)
                        ctx.count("contract-oracle:" + ("rule-false" if any(r[2] is False for r in rules) else "rules-hold"))
                    try:
                        mask = bool(rm.check_valid(list(req), {}))
                        mask_s = "1" if mask else "0"
                    except Exception as e:
                        mask_s = "raised " + type(e).__name__
                    lines.append(rig.model_line(req, vals))
                    records.append({"kind": kind, "scenario": name, "round": rnd, "req": req, "impl": out, "impl_mask": mask_s,
                                    "exists": exists, "validator_raised": vexc, "contract_bad": cbad,
                                    "history": list(history) if cbad else None})
            if want_live:
                live = [f for f in fam if f[0].startswith("action:")]
                live = live[: ctx.scale(60, 300)]
                deep_left = ctx.scale(60, 30)   # deep fingerprints cost 10-20 ms each: every live request in quick, a prefix in thorough
                for kind, req, exists in live:
                    ds = sim.describe_state()
                    before = json.dumps(ds, sort_keys=True, default=str)
                    deep_left -= 1
                    fp_before = rstate.fingerprint(sim) if deep_left >= 0 else None
                    with rig.Probe(sim, rig.Snap(sim._request_manager), stub=False) as probe:  # the tree changes as handlers run
                        out, resp = probe.call(req)
                    history.append(list(req))  # live requests change the state too: they are part of the path to later states
                    if True:
                        after = json.dumps(sim.describe_state(), sort_keys=True, default=str)
                        deep = None
                        if not out.startswith("reached") and fp_before is not None:   # refused: NOTHING below the simulation may differ
                            deep = rstate.diff(fp_before, rstate.fingerprint(sim))
                            ctx.count("live:refused-deep-fingerprint-compared")
                            ctx.cov["deep_fingerprint_entries_max"] = max(ctx.cov.get("deep_fingerprint_entries_max", 0), len(fp_before))
                            ctx.cov["describe_state_leaves_max"] = max(ctx.cov.get("describe_state_leaves_max", 0),
                                                                       rstate.leaf_count_describe_state(ds))
                        records.append({"kind": "live:" + kind, "scenario": name, "round": rnd, "req": req, "impl": out,
                                        "where": getattr(probe, "last_where", None) if out.startswith("raised") else None,
                                        "msg": getattr(probe, "last_msg", None) if out.startswith("raised") else None,
                                        "history": list(history[:-1]),
                                        "status": getattr(resp, "status", None) if not isinstance(resp, Exception) else "raised",
                                        "resp_type": type(resp).__name__, "unchanged": before == after, "exists": exists,
                                        "deep_diff": deep})
    model = run_driver(EXE, lines)
    # align: every record except live ones consumed one model line
    mi = 0
    for r in records:
        if r["kind"].startswith("live:"):
            continue
        r["model_raw"] = model[mi]
        mi += 1
        if r["kind"] != "tree":
            if r["model_raw"] == "bad-op":
                raise RuntimeError(f"driver rejected a line for {r['req']}")
            r["model"], r["model_mask"], r["model_exists"] = norm_model(r["model_raw"])
        elif r["model_raw"] != "ok":
            raise RuntimeError("driver rejected a tree snapshot")
    return records


DOCUMENTED = {"pending", "success", "failure", "unreachable"}


def judge(ctx: Ctx, records: List[dict], oblige: bool = True):
    agree = total = 0
    for r in records:
        k = r["kind"]
        if k == "tree":
            continue
        if k.startswith("live:"):
            ctx.count("live:" + (r["status"] or "None"))
            ctx.case({"k": k, "req": r["req"], "scenario": r["scenario"], "round": r["round"]}, r["impl"].split()[0] != "reached" or True)
            if r["status"] == "raised":
                ctx.violation({"kind": "request-raises", "exc": r["impl"].split()[1], "action": k.split(":", 2)[2], "phase": "handler"},
                              f"request {r['req']} raised {r['impl']} instead of answering ({r.get('msg')}) at {r.get('where')}",
                              {"scenario": r["scenario"], "req": r["req"], "observed": r["impl"], "where": r.get("where"), "msg": r.get("msg"),
                               "history": r.get("history")})
            elif r["status"] not in DOCUMENTED:
                ctx.violation({"kind": "undocumented-status", "action": k.split(":", 2)[2], "status": str(r["status"])},
                              f"request {r['req']} answered {r['resp_type']} / status {r['status']!r}", {"scenario": r["scenario"], "req": r["req"]})
            elif not r["impl"].startswith("reached") and not r["unchanged"]:
                ctx.violation({"kind": "refused-request-changed-state", "action": k.split(":", 2)[2]},
                              f"refused request {r['req']} ({r['impl']}) changed describe_state()", {"scenario": r["scenario"], "req": r["req"]})
            elif not r["impl"].startswith("reached") and r.get("deep_diff"):
                where = r["deep_diff"][0].split(":")[0].rsplit("/", 1)[-1]
                ctx.violation({"kind": "refused-request-changed-state(deep)", "action": k.split(":", 2)[2], "where": where},
                              f"refused request {r['req']} ({r['impl']}) left describe_state() unchanged but changed the object graph: "
                              f"{r['deep_diff'][:4]}", {"scenario": r["scenario"], "req": r["req"], "history": r.get("history"),
                                                        "deep_diff": r["deep_diff"]})
            elif r["exists"] is False and r["status"] == "success":
                ctx.violation({"kind": "success-on-missing-component", "action": k.split(":", 2)[2]},
                              f"request {r['req']} addresses a component that does not exist but was answered success",
                              {"scenario": r["scenario"], "req": r["req"]})
            elif not r["impl"].startswith("reached") and r["status"] == "success":
                ctx.violation({"kind": "refused-but-success", "action": k.split(":", 2)[2]}, f"{r['req']} refused yet success", {"req": r["req"]})
            continue
        total += 1
        ctx.count("family:" + k.split(":")[0])
        ctx.count("outcome:" + r["model"].split()[0])
        ctx.case({"req": r["req"], "scenario": r["scenario"], "round": r["round"]}, r["model"].split()[0] != "reached")
        ctx.cov["traces_validated_against_impl"] += 1
        if r["impl"].startswith("raised"):
            ctx.violation({"kind": "request-raises", "exc": r["impl"].split()[1], "family": k.split(":")[0],
                           "phase": "validator" if r["validator_raised"] else "dispatch"},
                          f"request {r['req']} raised {r['impl']} instead of answering (stubbed handlers)",
                          {"scenario": r["scenario"], "round": r["round"], "req": r["req"], "observed": r["impl"]})
            continue
        if r.get("contract_bad"):
            b = r["contract_bad"]
            ctx.violation({"kind": b["kind"], "rule": b.get("rule"), "component": b.get("component"), "class": b.get("class"),
                           "via": k if k.startswith("action:") else "raw-route", "answered": "stubbed"},
                          f"{r['scenario']} round {r['round']}: request {r['req']} disagrees with the contract ({b}); outcome with stubbed "
                          f"handlers {r['impl']!r}", {"scenario": r["scenario"], "round": r["round"], "req": r["req"], "history": r.get("history"),
                                                     "impl": r["impl"], "model": "failure" if b["kind"] == "contract-rule-not-enforced" else "reached"})
        if r["impl"] == r["model"]:
            agree += 1
        else:
            ctx.violation({"kind": "dispatch-differs-from-model", "family": k.split(":")[0], "model": r["model"].split()[0], "impl": r["impl"].split()[0]},
                          f"dispatch of {r['req']}: impl {r['impl']!r} vs proved model {r['model']!r}",
                          {"scenario": r["scenario"], "round": r["round"], "req": r["req"], "impl": r["impl"], "model": r["model"]})
        # property oracle on the implementation: existing target never unreachable
        if k.startswith("action:") and r["exists"] and r["impl"].startswith("unreachable"):
            ctx.violation({"kind": "action-on-existing-component-unreachable", "action": k.split(":", 1)[1]},
                          f"action request {r['req']} names existing components but is unreachable",
                          {"scenario": r["scenario"], "round": r["round"], "req": r["req"]})
    if oblige:
        ctx.oblige("rig:R-req dispatch agrees with the model on every request", "correspondence", agree == total, f"{total - agree} of {total} differ")
    for r in records:
        if r["kind"] not in ("tree",) and not r["kind"].startswith("live:"):
            ctx.sample({"scenario": r["scenario"], "req": r["req"], "impl": r["impl"], "model": r["model_raw"]}, cap=5)
    return agree, total


# ---------------------------------------------------------------------------------------------- shards (thorough tier)
_SHARD: Dict[str, Any] = {}


def _shard_unit(unit: tuple) -> dict:
    """one unit of work in a forked worker, on a private Ctx; returns what has to be merged.
    ("req", scenario, round) | ("contract", kind, key...) | ("edits",)"""
    import time
    t0 = time.time()
    sub = Ctx(_SHARD["prop"], _SHARD["tier"], _SHARD["seed"])
    agree = total = 0
    err = None
    try:
        if unit[0] == "req":
            try:
                contract = rcon.Contract(sorted(registry()))
            except Exception:
                contract = None
            agree, total = judge(sub, explore(sub, contract=contract, only=[unit[1]], round_only=unit[2]), oblige=False)
        elif unit[0] == "contract":
            paths = scenarios(sub)
            if unit[1] == "zoo":
                rcon.search(sub, registry(), {}, zoo_seeds=[unit[2]], gen_families=[])
            elif unit[1] == "scenario":
                rcon.search(sub, registry(), {unit[2]: paths[unit[2]]}, zoo_seeds=[], gen_families=[])
            else:
                rcon.search(sub, registry(), {}, zoo_seeds=[], gen_families=[(unit[2], unit[3])])
        elif unit[0] == "edits":
            edits(sub)
    except Exception as e:   # a shard that dies must not pass silently
        import traceback
        err = f"{type(e).__name__}: {e}\n{traceback.format_exc()[-1500:]}"
    return {"unit": unit, "hist": sub.hist, "violations": sub.violations, "notes": sub.notes, "distinct": sub._distinct,
            "evaluations": sub.cov["evaluations"], "traces": sub.cov["traces_validated_against_impl"], "samples": sub.cov["samples"],
            "deep": sub.cov.get("deep_fingerprint_entries_max", 0), "leaves": sub.cov.get("describe_state_leaves_max", 0),
            "obligations": sub.obligations, "agree": agree, "total": total, "wall": round(time.time() - t0, 1), "error": err}


def run_sharded(ctx: Ctx) -> None:
    """thorough tier: R-req (one unit per scenario and round), the contract search (one unit per game) and R-edits over forked
    worker processes; the merge is in unit order, so the evidence does not depend on the scheduling"""
    import multiprocessing as mp
    import os
    registry()                       # import primaite (and register every action) BEFORE forking
    paths = scenarios(ctx)
    rounds = ctx.scale(2, 4)
    units: List[tuple] = [("req", k, r) for k in paths for r in range(rounds)]
    units += [("contract", "zoo", z) for z in (7, 8, 9)] + [("contract", "scenario", k) for k in paths]
    units += [("contract", "gen", f, z) for f, z in (("lan", 3), ("routed", 4), ("dmz", 5))] + [("edits",)]
    n = int(os.environ.get("C05_WORKERS", "0") or 0) or 8
    n = max(1, min(n, len(units), os.cpu_count() or 2))
    _SHARD.update({"prop": ctx.prop, "tier": ctx.tier, "seed": ctx.seed})

    def weight(u):
        w = os.path.getsize(paths[u[1]]) if u[0] == "req" else (os.path.getsize(paths[u[2]]) // 3 if u[:2] == ("contract", "scenario") else 10 ** 6)
        return -w
    order = sorted(range(len(units)), key=lambda i: weight(units[i]))
    if n == 1:
        got = [_shard_unit(units[i]) for i in order]
    else:
        with mp.get_context("fork").Pool(n, maxtasksperchild=6) as pool:
            got = pool.map(_shard_unit, [units[i] for i in order], chunksize=1)
    res: List[Any] = [None] * len(units)
    for i, g in zip(order, got):
        res[i] = g
    agree = total = 0
    errors = []
    merged_obl: Dict[str, dict] = {}
    for g in res:
        for key, v in g["hist"].items():
            ctx.count(key, v)
        ctx.violations.extend(g["violations"])
        for note in g["notes"]:
            if note not in ctx.notes:
                ctx.notes.append(note)
        ctx._distinct |= g["distinct"]
        ctx.cov["evaluations"] += g["evaluations"]
        ctx.cov["traces_validated_against_impl"] += g["traces"]
        for smp in g["samples"]:
            ctx.sample(smp, cap=5)
        ctx.cov["deep_fingerprint_entries_max"] = max(ctx.cov.get("deep_fingerprint_entries_max", 0), g["deep"])
        ctx.cov["describe_state_leaves_max"] = max(ctx.cov.get("describe_state_leaves_max", 0), g["leaves"])
        for o in g["obligations"]:      # the same obligation from several units: it holds iff it holds in every unit
            m = merged_obl.setdefault(o["name"], {"name": o["name"], "kind": o["kind"], "ok": True, "detail": ""})
            m["ok"] = m["ok"] and o["ok"]
            if not o["ok"]:
                m["detail"] = (m["detail"] + "; " + o["detail"])[-3000:]
        agree += g["agree"]
        total += g["total"]
        if g["error"]:
            errors.append(f"{g['unit']}: {g['error'][:300]}")
    for m in merged_obl.values():
        ctx.oblige(m["name"], m["kind"], m["ok"], m["detail"])
    ctx.cov["shards"] = {"worker_processes": n, "units": len(units),
                         "slowest_units_s": {str(g["unit"]): g["wall"] for g in sorted(res, key=lambda g: -g["wall"])[:6]},
                         "cpu_s": round(sum(g["wall"] for g in res), 1)}
    ctx.oblige("rig: every shard finished", "correspondence", not errors, "; ".join(errors[:3]))
    ctx.oblige("rig:R-req dispatch agrees with the model on every request", "correspondence", agree == total, f"{total - agree} of {total} differ")


def replay(rec: dict) -> bool:
    """Re-run one recorded request on a fresh build of its scenario (round 0 state) with stubbed and live handlers."""
    rp = rec["replay"]
    if rp.get("mode") == "refused-noop":
        from harness.rigs import request_callers as rcall
        return rcall.replay(rp)
    if "ops" in rp and ("zoo_seed" in rp or "gen_family" in rp or "scenario" in rp) and "req" in rp and "state" in rp:
        return rcon.replay(rp, registry())   # a contract-search replay
    if "setup_ops" in rp:                    # recorded by the static part's rigs (R-schema / R-guards)
        from harness.props import c05x
        return c05x.replay(rec)
    cfg = scen.load_cfg(scen.shipped()[rp["scenario"]])
    game = scen.make_game(cfg)
    sim = game.simulation
    t = 1
    for q in rp.get("history") or []:  # the perturbation that led to the state (API-level steps are tagged "api:…")
        try:
            if q and q[0] == "api:uninstall":
                next(n for n in sim.network.nodes.values() if n.config.hostname == q[1]).software_manager.uninstall(q[2])
            elif q and q[0] == "tick":
                sim.pre_timestep(t); sim.apply_timestep(t); t += 1
            else:
                sim.apply_request(q)
        except Exception:
            pass
    snap = rig.Snap(sim._request_manager)
    with rig.Probe(sim, snap, stub=False) as probe:
        out, resp = probe.call(rp["req"])
    if out.startswith("raised"):
        return False
    if rp.get("impl") and rp.get("model"):
        return out.split()[0] == rp["model"].split()[0]
    return getattr(resp, "status", None) in DOCUMENTED


def corpus(ctx: Ctx):
    """Minimised past failures, replayed first with the real handlers on a fresh build of their scenario."""
    games = {}
    for f in sorted((VERIF / "corpus" / "C05").glob("*.json")):
        w = json.loads(f.read_text())
        if w.get("pre"):  # witnesses that need a prepared state get a game of their own
            g = scen.make_game(scen.load_cfg(scen.shipped()[w["scenario"]]))
            rcon.apply_ops(g.simulation, w["pre"])   # requests, ticks, tagged API steps ("api:uninstall", node, software)
            sim = g.simulation
        else:
            if w["scenario"] not in games:
                games[w["scenario"]] = scen.make_game(scen.load_cfg(scen.shipped()[w["scenario"]]))
            sim = games[w["scenario"]].simulation
        with rig.Probe(sim, rig.Snap(sim._request_manager), stub=False) as probe:
            out, resp = probe.call(w["req"])
        ctx.count("corpus")
        st = getattr(resp, "status", None)
        ctx.case({"corpus": f.name}, True)
        if w.get("open_finding_sig"):   # witness of an OPEN finding: reported under the finding's own signature (KNOWN-FINDING)
            if out.startswith("raised") or st not in DOCUMENTED:
                ctx.violation(dict(w["open_finding_sig"]), f"corpus witness {f.name} ({w['note']}): {out}",
                              {"scenario": w["scenario"], "req": w["req"], "observed": out})
            else:
                ctx.notes.append(f"open finding witness {f.name} no longer fails ({out} / {st}): the finding may be closed")
            continue
        if out.startswith("raised") or st not in DOCUMENTED or (w.get("expect_not_unreachable") and st == "unreachable"):
            ctx.violation({"kind": "corpus-witness-fails-again", "witness": f.name},
                          f"corpus witness {f.name} ({w['note']}) fails again: {out} / status {st!r}",
                          {"scenario": w["scenario"], "req": w["req"], "observed": out})


def edits(ctx: Ctx):
    """R-edits: real install / uninstall / connect / disconnect / create / delete / restore / add / remove against addKey / removeKey"""
    rng = ctx.rng.fork("edits")
    bad: List[str] = []
    games = [("zoo#7", lambda: rcon.zoo_game(7)[0])]
    for name, path in scenarios(ctx).items():
        games.append((name, lambda path=path: scen.make_game(scen.load_cfg(path))))
    for label, make in games:
        try:
            sim = make().simulation
        except Exception:
            continue
        bad += redits.exercise(ctx, label, sim, rng.fork(label))
        for f in redits.construction_orders(ctx, label, sim, rng.fork(label + ":orders")):
            mm = f["mismatch"]
            ctx.violation({"kind": "component-exists-without-its-route", "what": mm["kind"], "level": mm.get("level"),
                           "state_when_added": f["state_at_edit"]},
                          f"{label}: a {f['node_class']} built while {f['state_at_edit']} ({f['order']}): after {f['ops']} the object graph and "
                          f"the request tree disagree: {mm}", {"scenario": label, "construction": f})
    ctx.oblige("rig:R-edits every real tree edit is local, leads to the component's own manager / leaves no route, and orders keys like "
               "addKey / removeKey", "correspondence", not bad, "; ".join(bad[:6]))
    for b in bad[:1]:
        ctx.violation({"kind": "tree-edit-differs-from-model", "edit": b.split(": ")[1] if ": " in b else "?"},
                      "a real request-tree edit differs from the model's addKey/removeKey (Props/C05Inst.lean): " + b, {"detail": bad[:6]})


def _stage(ctx: Ctx, name: str, t0: float):
    import time
    ctx.cov.setdefault("stage_seconds", {})[name] = round(time.time() - t0, 1)


def run(ctx: Ctx):
    import time
    t0 = time.time()
    with lean_lock():
        ctx.extract("RequestCore", x_core.emit)
        ctx.extract(x_callers.GEN_NAME, x_callers.emit)   # Props/C05Callers: who calls the request layer, what becomes of a refusal
        ctx.prove(MODULES, exes=[EXE], leanchecker=ctx.thorough)
    ctx.cov["rule"] = ("requests = every route of the live tree (sampled in quick), route mutations (delete/misspell/truncate/append/swap), and "
                       "requests formed from every registered action type with parameters naming existing or missing components, at the "
                       "initial state and at random perturbed states (nodes off/booting, services stopped/disabled, files deleted, software "
                       "uninstalled) of shipped scenarios; non-trivial = not simply reaching its handler; distinct by (scenario, round, request)")
    _stage(ctx, "lean:C05", t0)
    t0 = time.time()
    corpus(ctx)
    try:
        contract = rcon.Contract(sorted(registry()))
    except Exception as e:
        contract = None
        ctx.notes.append(f"contract tables not readable from drv_c05: {type(e).__name__}: {e}")
    ctx.cov["rule_contract"] = ("R-contract: one instance of every node / NIC / service / application class, a folder and a file per node "
                                "class, of a zoo game (every registered node type, every registered software class), of the shipped "
                                "scenarios and of generated families, driven into every state that falsifies a component gate; every route "
                                "below the component raw (stubbed) + every action naming it; suspects and a sample of refused requests "
                                "re-sent with the real handlers and compared by deep state fingerprint")
    if ctx.thorough:
        # ~60 scenarios x 4 rounds of R-req, the contract search over ~70 games and R-edits: units over worker processes
        run_sharded(ctx)
        _stage(ctx, "sharded: R-req + contract search + raw-live + R-edits", t0)
    else:
        judge(ctx, explore(ctx, contract=contract))
        _stage(ctx, "R-req+contract-oracle+live", t0)
        t0 = time.time()
        # contract search: every route-owning class driven into every gate-falsifying state, judged against the hand-written contract
        rcon.search(ctx, registry(), scenarios(ctx), zoo_seeds=[7], gen_families=[])
        _stage(ctx, "contract-search+raw-live", t0)
        t0 = time.time()
        edits(ctx)
        _stage(ctx, "R-edits", t0)
    t0 = time.time()
    # R-callers: a refused agent action is a do-nothing step for the simulation (what the callers do with a non-success response)
    from harness.rigs import request_callers as rcall
    try:
        rcall.refused_step_is_noop(ctx)
    except Exception as e:
        ctx.notes.append(f"R-callers not run: {type(e).__name__}: {str(e)[:120]}")
    _stage(ctx, "R-callers", t0)
    t0 = time.time()
    # R-boundary: every numeric / enumerated / name option of every action type at its boundary values, real handlers, nodes ON
    from harness.rigs import request_boundary as rbound
    try:
        rbound.run(ctx, scenarios(ctx), registry())
    except Exception as e:
        ctx.notes.append(f"R-boundary not run: {type(e).__name__}: {str(e)[:120]}")
    _stage(ctx, "R-boundary", t0)
    t0 = time.time()
    # static part: schematic request tree (E4) x action templates (E5): C05_action_templates_resolve & co (Props/C05Schema.lean)
    from harness.props import c05x
    c05x.extra(ctx)
    _stage(ctx, "static part (lean + R-schema + R-guards)", t0)
