"""R-route: drive the real RouteTable (direct API and Router.from_config) and the Lean model (Drivers/C08.lean, rt-* ops)
with the same tables and queries; diff every answer.  Random tables over a covering set of prefixes / metrics (with
non-canonical network addresses, equal prefixes, metric ties, hostmask spellings, invalid masks) plus a
bounded-exhaustive family (every table of <= 3 routes over a small universe, every query of a covering set)."""
from __future__ import annotations

import itertools
from typing import List, Optional, Tuple

from harness.lib.core import Rng

# addresses deliberately include non-canonical "network" addresses (host bits set)
ADDRS = ["10.0.0.0", "10.1.0.0", "10.1.2.0", "10.1.2.3", "10.1.2.128", "10.1.3.7", "192.168.1.0", "192.168.1.77", "0.0.0.0",
         "255.255.255.255", "172.16.5.4", "10.255.255.255"]
MASKS = ["255.0.0.0", "255.255.0.0", "255.255.255.0", "255.255.255.128", "255.255.255.252", "255.255.255.255", "0.0.0.0",
         "255.254.0.0", "128.0.0.0"]
HOSTMASKS = ["0.0.0.255", "0.0.255.255", "0.255.255.255", "0.0.0.3", "127.255.255.255"]
BADMASKS = ["255.0.255.0", "0.255.0.0", "255.255.255.1", "1.2.3.4"]
METRICS = [0, 0, 1, 1, 2, 5, -1, 100, 0.5, 1.5, -0.5]  # halves are exact floats; the model sees 2*metric (order preserved)
HOPS = ["1.1.1.1", "1.1.1.2", "1.1.1.3", "2.2.2.2"]
QUERIES = ["10.1.2.3", "10.1.2.200", "10.1.3.9", "10.2.0.1", "192.168.1.5", "172.16.5.4", "8.8.8.8", "0.0.0.0", "255.255.255.255",
           "10.1.2.129", "11.0.0.1", "127.0.0.1"]


def gen_route(rng: Rng) -> dict:
    k = rng.below(40)
    mask = rng.choice(BADMASKS) if k == 0 else (rng.choice(HOSTMASKS) if k < 8 else rng.choice(MASKS))
    return {"addr": rng.choice(ADDRS), "mask": mask, "nh": rng.choice(HOPS), "metric": rng.choice(METRICS)}


def gen_case(rng: Rng, max_routes: int = 8) -> dict:
    n = rng.range(0, max_routes)
    routes = [gen_route(rng) for _ in range(n)]
    if routes and rng.chance(1, 3):  # force ties: duplicate a route with another next hop / metric
        r = dict(rng.choice(routes))
        r["nh"] = rng.choice(HOPS)
        if rng.chance(1, 2):
            r["metric"] = rng.choice(METRICS)
        routes.insert(rng.below(len(routes) + 1), r)
    ops: List[dict] = []
    surface = rng.choice(["api", "api", "config"])
    default = rng.choice(HOPS) if rng.chance(1, 2) else None
    # interleave: some queries before the table is complete (api surface only)
    pending = list(routes)
    if surface == "api":
        while pending:
            ops.append({"op": "add", "route": pending.pop(0)})
            if rng.chance(1, 4):
                ops.append({"op": "find", "dst": rng.choice(QUERIES)})
        if default:
            ops.append({"op": "default", "nh": default})
        pre = []
    else:
        pre = routes
    asked: List[str] = [o["dst"] for o in ops if o["op"] == "find"]
    for _ in range(rng.range(2, 6)):
        if routes and rng.chance(1, 2):
            ops.append({"op": "find", "dst": rng.choice(routes)["addr"]})
        else:
            ops.append({"op": "find", "dst": rng.choice(QUERIES)})
        asked.append(ops[-1]["dst"])
    # second phase (both surfaces): the table CHANGES between look-ups — a later route, a first or a replaced default route — and the
    # destinations asked before are asked again: find_best_route must be a function of the table as it is now, not of its history
    if rng.chance(2, 3):
        for _ in range(rng.range(1, 4)):
            k = rng.below(4)
            if k == 0:
                ops.append({"op": "default", "nh": rng.choice(HOPS)})
            elif k == 1 and asked:
                # a route made for a destination that was already looked up (more specific than anything in MASKS but /32)
                ops.append({"op": "add", "route": {"addr": rng.choice(asked), "mask": rng.choice(["255.255.255.255", "255.255.255.252", "255.255.0.0"]),
                                                   "nh": rng.choice(HOPS), "metric": rng.choice(METRICS)}})
            else:
                ops.append({"op": "add", "route": gen_route(rng)})
            for q in rng.shuffle(list(dict.fromkeys(asked)))[:3]:
                ops.append({"op": "find", "dst": q})
            ops.append({"op": "find", "dst": rng.choice(QUERIES)})
            asked.append(ops[-1]["dst"])
    return {"surface": surface, "routes": pre, "default": default if surface == "config" else None, "ops": ops}


UNIVERSE = [
    {"addr": "10.1.2.3", "mask": "255.255.255.0", "nh": "1.1.1.1", "metric": 1},
    {"addr": "10.1.2.0", "mask": "255.255.255.0", "nh": "1.1.1.2", "metric": 1},
    {"addr": "10.1.2.0", "mask": "255.255.255.0", "nh": "1.1.1.3", "metric": 0},
    {"addr": "10.1.0.0", "mask": "255.255.0.0", "nh": "1.1.1.1", "metric": 0},
    {"addr": "10.1.9.9", "mask": "0.0.255.255", "nh": "1.1.1.2", "metric": 0},
    {"addr": "10.1.2.128", "mask": "255.255.255.128", "nh": "1.1.1.3", "metric": 7},
    {"addr": "0.0.0.0", "mask": "0.0.0.0", "nh": "2.2.2.2", "metric": 3},
    {"addr": "10.1.2.3", "mask": "255.255.255.255", "nh": "2.2.2.2", "metric": 9},
    {"addr": "10.2.0.0", "mask": "255.0.255.0", "nh": "2.2.2.2", "metric": 0},
]
EX_QUERIES = ["10.1.2.3", "10.1.2.200", "10.1.77.1", "10.2.0.1", "99.0.0.1"]


def exhaustive_cases(max_len: int) -> List[dict]:
    out = []
    for n in range(0, max_len + 1):
        for combo in itertools.product(range(len(UNIVERSE)), repeat=n):
            for default in (None, "9.9.9.9"):
                ops = [{"op": "add", "route": UNIVERSE[i]} for i in combo]
                if default:
                    ops.append({"op": "default", "nh": default})
                ops += [{"op": "find", "dst": q} for q in EX_QUERIES]
                out.append({"surface": "api", "routes": [], "default": None, "ops": ops})
            # the same tables built WITH look-ups in between: every query before the last route, again after it, again after the
            # default route appears, again after the default route is replaced (history must not matter)
            finds = [{"op": "find", "dst": q} for q in EX_QUERIES]
            ops = [{"op": "add", "route": UNIVERSE[i]} for i in combo[:-1]] + finds
            if combo:
                ops += [{"op": "add", "route": UNIVERSE[combo[-1]]}] + finds
            ops += [{"op": "default", "nh": "9.9.9.9"}] + finds + [{"op": "default", "nh": "9.9.9.8"}] + finds
            out.append({"surface": "api", "routes": [], "default": None, "ops": ops})
    return out


# ------------------------------------------------------------------------------------------ float metrics: inf / -inf / nan
FMETRICS = [0, 1, 1, 2.5, -1, "inf", "inf", "-inf", "nan", "nan"]


def gen_float_case(rng: Rng) -> dict:
    """tables whose metrics include inf / -inf / nan, heavy on equal prefixes (that is where the metric decides); built through
    the Python API, through Router.from_config, or from YAML text (`.nan`, `.inf`)"""
    base = rng.choice(["10.1.2.0", "10.1.0.0", "192.168.1.0"])
    routes = []
    for _ in range(rng.range(1, 6)):
        same = rng.chance(3, 4)
        routes.append({"addr": base if same else rng.choice(ADDRS), "mask": rng.choice(["255.255.255.0", "255.255.0.0"]) if same else rng.choice(MASKS),
                       "nh": rng.choice(HOPS), "metric": rng.choice(FMETRICS)})
    ops = [{"op": "add", "route": r} for r in routes]
    ops += [{"op": "find", "dst": q} for q in ["10.1.2.3", "10.1.77.1", "192.168.1.5", rng.choice(QUERIES)]]
    return {"surface": rng.choice(["api-float", "api-float", "config-float", "yaml-float"]), "routes": [], "default": None, "ops": ops}


def fmetric(x) -> float:
    return float(x)


def float_model_lines(case: dict) -> List[str]:
    lines = ["reset", "rtm-new"]
    for op in case["ops"]:
        if op["op"] == "add":
            r = op["route"]
            me = r["metric"] if isinstance(r["metric"], str) else str(m2(r["metric"]))
            lines.append(f"rtm-add {r['addr']} {r['mask']} {r['nh']} {me}")
        else:
            lines.append(f"rtm-find {op['dst']}")
    return lines


def _yaml_metric(x) -> str:
    return {"inf": ".inf", "-inf": "-.inf", "nan": ".nan"}.get(x, repr(x)) if isinstance(x, str) else repr(float(x))


def run_impl_float(case: dict) -> List[str]:
    """`refused` for an entry the implementation rejects with a clear error naming the metric (a NaN metric, through whichever
    surface the case uses: RouteTable.add_route, Router.from_config with the route in the list, the same from YAML text)."""
    from pydantic import ValidationError
    from primaite.simulator.network.hardware.nodes.network.router import RouteTable, Router
    from primaite.simulator.system.core.sys_log import SysLog
    surface = case.get("surface", "api-float")
    rt = RouteTable(sys_log=SysLog("verif"))
    out = ["ok", "ok"]
    for op in case["ops"]:
        if op["op"] == "add":
            r = op["route"]
            try:
                if surface == "api-float":
                    rt.add_route(address=r["addr"], subnet_mask=r["mask"], next_hop_ip_address=r["nh"], metric=fmetric(r["metric"]))
                else:
                    if surface == "yaml-float":
                        import yaml
                        text = ("type: router\nhostname: r_f\nnum_ports: 2\nroutes:\n"
                                f"  - address: {r['addr']}\n    subnet_mask: {r['mask']}\n    next_hop_ip_address: {r['nh']}\n"
                                f"    metric: {_yaml_metric(r['metric'])}\n")
                        cfg = yaml.safe_load(text)
                    else:
                        cfg = {"type": "router", "hostname": "r_f", "num_ports": 2,
                               "routes": [{"address": r["addr"], "subnet_mask": r["mask"], "next_hop_ip_address": r["nh"], "metric": fmetric(r["metric"])}]}
                    built = Router.from_config(cfg).route_table.routes
                    rt.routes.append(built[0])  # the entry as the configuration loader constructed it
                out.append("ok")
            except ValidationError as e:
                out.append("refused" if ("metric" in str(e) and "NaN" in str(e)) else f"refused-unclear:{str(e)[:60]}")
        else:
            try:
                best = rt.find_best_route(op["dst"])
            except ValueError:
                out.append("raised")
                continue
            if best is None:
                out.append("none")
            else:
                idx = [i for i, x in enumerate(rt.routes) if x is best]
                out.append(f"route {idx[0]} {best.next_hop_ip_address}")
    return out


def float_oracle(case: dict, answers: List[str]) -> Optional[str]:
    """the tie-break clause on the implementation's answers, for what is comparable: the selected entry of a prefix must not be
    more expensive than a covering FINITE / infinite entry of the same prefix (violated only through nan: F-C08-r4-1)"""
    import ipaddress
    import math
    routes: List[dict] = []
    k = 2
    for op in case["ops"]:
        a = answers[k]
        k += 1
        if op["op"] == "add":
            if a == "ok":
                routes.append(op["route"])
            continue
        if not a.startswith("route"):
            continue
        i = int(a.split()[1])
        dst = ipaddress.IPv4Address(op["dst"])
        nets = [ipaddress.IPv4Network(f"{r['addr']}/{r['mask']}", strict=False) for r in routes]
        mi = fmetric(routes[i]["metric"])
        for j, (r, n) in enumerate(zip(routes, nets)):
            mj = fmetric(r["metric"])
            if dst in n and n.prefixlen == nets[i].prefixlen and not math.isnan(mj) and (math.isnan(mi) or mj < mi):
                return (f"find_best_route({op['dst']}) selected entry {i} (metric {routes[i]['metric']}) although entry {j} of the same prefix "
                        f"has metric {r['metric']}")
    return None


# ------------------------------------------------------------------------------------------ model side
def m2(x) -> int:
    """the model's integer metric: twice the float metric (all generated metrics are multiples of 0.5)"""
    v = x * 2
    assert float(v).is_integer()
    return int(v)


def route_line(r: dict) -> str:
    return f"rt-add {r['addr']} {r['mask']} {r['nh']} {m2(r['metric'])}"


def model_lines(case: dict) -> List[str]:
    lines = ["reset", "rt-new"]
    for r in case["routes"]:
        lines.append(route_line(r))
    if case["default"]:
        lines.append(f"rt-default {case['default']}")
    for op in case["ops"]:
        if op["op"] == "add":
            lines.append(route_line(op["route"]))
        elif op["op"] == "default":
            lines.append(f"rt-default {op['nh']}")
        else:
            lines.append(f"rt-find {op['dst']}")
    return lines


# ------------------------------------------------------------------------------------------ implementation side
def run_impl(case: dict) -> List[str]:
    from ipaddress import IPv4Address
    from primaite.simulator.network.hardware.nodes.network.router import RouteTable, Router
    from primaite.simulator.system.core.sys_log import SysLog
    out = ["ok", "ok"]
    if case["surface"] == "config":
        cfg = {"type": "router", "hostname": "r_rt", "num_ports": 2,
               "routes": [{"address": r["addr"], "subnet_mask": r["mask"], "next_hop_ip_address": r["nh"], "metric": r["metric"]}
                          for r in case["routes"]]}
        if case["default"]:
            cfg["default_route"] = {"next_hop_ip_address": case["default"]}
        rt = Router.from_config(cfg).route_table
        out += ["ok"] * (len(case["routes"]) + (1 if case["default"] else 0))
    else:
        rt = RouteTable(sys_log=SysLog("verif"))
    for op in case["ops"]:
        if op["op"] == "add":
            r = op["route"]
            rt.add_route(address=r["addr"], subnet_mask=r["mask"], next_hop_ip_address=r["nh"], metric=float(r["metric"]))
            out.append("ok")
        elif op["op"] == "default":
            rt.set_default_route_next_hop_ip_address(IPv4Address(op["nh"]))
            out.append("ok")
        else:
            try:
                best = rt.find_best_route(op["dst"] if len(out) % 2 else IPv4Address(op["dst"]))
            except ValueError:  # ipaddress.NetmaskValueError is a ValueError
                out.append("raised")
                continue
            if best is None:
                out.append("none")
            elif best is rt.default_route:
                out.append(f"default {best.next_hop_ip_address}")
            else:
                idx = [i for i, x in enumerate(rt.routes) if x is best]
                out.append(f"route {idx[0] if len(idx) == 1 else idx} {best.address} {best.subnet_mask} {best.next_hop_ip_address} "
                           f"{m2(best.metric)}")
    return out


def oracle(case: dict, answers: List[str]) -> Optional[str]:
    """Independent statement of the property for route selection, evaluated on the IMPLEMENTATION's answers:
    longest prefix, then lowest metric, then earliest entry; default as last resort; None otherwise.
    Returns a description of the first failure or None."""
    import ipaddress
    routes: List[dict] = list(case["routes"])
    default = case["default"]
    k = 2 + len(routes) + (1 if default else 0)
    for op in case["ops"]:
        a = answers[k]
        k += 1
        if op["op"] == "add":
            routes.append(op["route"])
        elif op["op"] == "default":
            default = op["nh"]
        else:
            dst = ipaddress.IPv4Address(op["dst"])
            try:
                nets = [ipaddress.IPv4Network(f"{r['addr']}/{r['mask']}", strict=False) for r in routes]
            except ValueError:
                want = "raised"
            else:
                cands = [(-(n.prefixlen), r["metric"], i) for i, (r, n) in enumerate(zip(routes, nets)) if dst in n]
                if cands:
                    _, _, i = min(cands)
                    r = routes[i]
                    want = f"route {i} {r['addr']} {r['mask']} {r['nh']} {m2(r['metric'])}"
                elif default:
                    want = f"default {default}"
                else:
                    want = "none"
            if a != want:
                return f"find_best_route({op['dst']}) over {routes} default={default}: got {a!r}, the property requires {want!r}"
    return None
