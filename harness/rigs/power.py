"""R-node: drive real nodes (requests through Simulation.apply_request, ticks through Simulation.pre_timestep/apply_timestep,
pings through Node.ping) and the Lean model (Drivers/C12.lean) with the same operation sequences; diff every answer, every
assignment to `operating_state` (micro-trace), and the whole modelled state after every operation.

Independently of the model, implementation-side oracles of the property are evaluated on every trace:
  * an interface that passes a frame (receive_frame/send_frame reaching past its `enabled` test) while its node is not ON;
  * after every operation: node not ON with an enabled interface; node OFF with a RUNNING service / application;
  * a request other than `startup` answered with anything but failure/unreachable by a node that is not ON.
"""
from __future__ import annotations

import itertools
from typing import Dict, List, Optional, Tuple

from harness.lib.core import Rng

SVC_CODE = {"RUNNING": "R", "STOPPED": "S", "PAUSED": "P", "DISABLED": "D", "INSTALLING": "I", "RESTARTING": "T"}
APP_CODE = {"RUNNING": "R", "CLOSED": "C", "INSTALLING": "I"}
HOST_SVCS = ["dns-client", "ntp-client", "ftp-client"]       # services the rig plays with (never arp/icmp: pings need them)
SVC_VERBS = ["stop", "start", "pause", "resume", "restart", "disable", "enable"]
ACL_ADD = ["add_rule", "PERMIT", "ALL", "ALL", "NONE", "ALL", "ALL", "NONE", "ALL"]

# ------------------------------------------------------------------------------------------------ topologies
PAIR_IPS = ["192.168.1.2", "192.168.1.3"]


def pair_case(up0: int, down0: int, up1: int, down1: int, ops: List[dict], cls: Tuple[str, str] = ("computer", "computer")) -> dict:
    nodes = []
    for i, (c, u, d) in enumerate(zip(cls, (up0, up1), (down0, down1))):
        nodes.append({"cls": c, "name": f"n{i}", "up": u, "down": d, "ip": PAIR_IPS[i]})
    return {"kind": "pair", "nodes": nodes, "links": [[0, 1, 1, 1]], "ops": ops}


def scenario_case(durs: List[Tuple[int, int]], ops: List[dict]) -> dict:
    """computer, server, switch, router, firewall, wireless router: c-sw, s-sw, sw-rt, rt-fw; wr stands alone on the air."""
    cls = ["computer", "server", "switch", "router", "firewall", "wireless-router"]
    nodes = [{"cls": c, "name": f"m{i}", "up": durs[i][0], "down": durs[i][1]} for i, c in enumerate(cls)]
    # links as [node_a, port_a, node_b, port_b]
    return {"kind": "scenario", "nodes": nodes, "links": [[0, 1, 2, 1], [1, 1, 2, 2], [2, 3, 3, 1], [3, 2, 4, 1]], "ops": ops}


# ------------------------------------------------------------------------------------------------ generation
def power_ops_for(node: int) -> List[dict]:
    return [{"op": "req", "node": node, "key": k} for k in ("shutdown", "startup", "reset")]


ALPHABET_PAIR = (
    [{"op": "req", "node": 0, "key": "shutdown"}, {"op": "req", "node": 0, "key": "startup"}, {"op": "req", "node": 0, "key": "reset"},
     {"op": "tick"}, {"op": "ping", "src": 1, "dst": 0}, {"op": "ping", "src": 0, "dst": 1},
     {"op": "req", "node": 0, "key": "service", "svc": "dns-client", "verb": "stop"}]
)


def other_request(rng: Rng, node: int, cls: str, uniq: List[int]) -> dict:
    """a request that is not a power request, with the answer the lower layers give when it gets through"""
    kinds = ["scan", "os", "logon", "logoff", "process", "file_system", "software_manager", "nic", "nic", "bogus"]
    if cls in ("computer", "server", "printer"):
        kinds += ["service", "service", "service", "application"]
    if cls in ("router", "firewall", "wireless-router"):
        kinds += ["acl", "acl"]
    if cls == "firewall":
        kinds += ["fwacl", "fwacl"]
    k = rng.choice(kinds)
    if k == "software_manager" and cls == "switch":
        k = "os"  # a switch has no nmap: the install request would really install it
    if k == "scan":
        return {"op": "req", "node": node, "key": "scan", "path": [], "expect": "success"}
    if k == "os":
        return {"op": "req", "node": node, "key": "os", "path": ["scan"], "expect": "success"}
    if k in ("logon", "logoff"):
        return {"op": "req", "node": node, "key": k, "path": [], "expect": "failure"}
    if k == "process":
        return {"op": "req", "node": node, "key": "process", "path": ["p"], "expect": "unreachable"}
    if k == "bogus":
        return {"op": "req", "node": node, "key": rng.choice(["start_up", "power_on", "acl" if cls in ("computer", "server", "switch") else "dmzz"]),
                "path": [], "expect": "unreachable"}
    if k == "file_system":
        uniq[0] += 1
        return {"op": "req", "node": node, "key": "file_system", "path": ["create", "folder", f"v{uniq[0]}"], "expect": "success"}
    if k == "software_manager":
        return {"op": "req", "node": node, "key": "software_manager", "path": ["application", "install", "nmap"], "expect": "success"}
    if k == "nic":
        if cls == "wireless-router":
            # port 1 is the wireless access point, whose enable()/disable() answer None -> from_bool(None) raises (F-2, C05/C16)
            return {"op": "req", "node": node, "key": "network_interface", "nic": rng.choice([2, 2, 9]),
                    "verb": rng.choice(["enable", "disable"])}
        return {"op": "req", "node": node, "key": "network_interface", "nic": rng.choice([1, 1, 1, 2, 3, 9]),
                "verb": rng.choice(["enable", "disable"])}
    if k == "service":
        return {"op": "req", "node": node, "key": "service", "svc": rng.choice(HOST_SVCS + ["no-such-service"]), "verb": rng.choice(SVC_VERBS)}
    if k == "application":
        return {"op": "req", "node": node, "key": "application", "app": rng.choice(["web-browser", "web-browser", "web-browser", "no-such-app"])}  # not nmap: no `close` route (F-12, C05)
    if k == "acl":
        uniq[0] += 1
        return {"op": "req", "node": node, "key": "acl", "path": ACL_ADD + [3 + uniq[0] % 18], "expect": "success"}
    if k == "fwacl":
        uniq[0] += 1
        return {"op": "req", "node": node, "key": rng.choice(["internal", "dmz", "external"]),
                "path": [rng.choice(["inbound", "outbound"]), "acl"] + ACL_ADD + [3 + uniq[0] % 18], "expect": "success"}
    raise AssertionError(k)


def gen_random_pair(rng: Rng, max_ops: int) -> dict:
    durs = [rng.choice([0, 0, 1, 2, 3, 5]) for _ in range(4)]
    cls = (rng.choice(["computer", "server"]), rng.choice(["computer", "server"]))
    ops, uniq = [], [0]
    n = rng.range(4, max_ops)
    for _ in range(n):
        r = rng.below(20)
        node = rng.below(2)
        if r < 5:
            ops.append({"op": "tick"})
        elif r < 8:
            ops.append({"op": "req", "node": node, "key": "shutdown"})
        elif r < 11:
            ops.append({"op": "req", "node": node, "key": "startup"})
        elif r < 13:
            ops.append({"op": "req", "node": node, "key": "reset"})
        elif r < 16:
            ops.append({"op": "ping", "src": node, "dst": 1 - node})
        elif r < 17:
            ops.append({"op": "appinstall", "node": node, "app": "web-browser"})
        else:
            ops.append(other_request(rng, node, cls[node], uniq))
    case = pair_case(durs[0], durs[1], durs[2], durs[3], ops, cls)
    if rng.chance(1, 3):  # declared initial state other than ON
        spec = case["nodes"][rng.below(2)]
        spec["init"] = rng.choice(["OFF", "OFF", "BOOTING", "SHUTTING_DOWN"])
        if spec["init"] == "BOOTING":
            spec["up_cd"] = rng.choice([0, 1, 2])
        if spec["init"] == "SHUTTING_DOWN":
            spec["down_cd"] = rng.choice([0, 1, 2])
            spec["resetting"] = rng.chance(1, 2)
    return case


def gen_random_scenario(rng: Rng, max_ops: int) -> dict:
    durs = [(rng.choice([0, 1, 2, 3]), rng.choice([0, 1, 2, 3])) for _ in range(6)]
    case = scenario_case(durs, [])
    ops, uniq = [], [0]
    n = rng.range(6, max_ops)
    focus = rng.below(6)
    for _ in range(n):
        r = rng.below(20)
        node = focus if rng.chance(1, 2) else rng.below(6)
        cls = case["nodes"][node]["cls"]
        if r < 5:
            ops.append({"op": "tick"})
        elif r < 8:
            ops.append({"op": "req", "node": node, "key": "shutdown"})
        elif r < 11:
            ops.append({"op": "req", "node": node, "key": "startup"})
        elif r < 13:
            ops.append({"op": "req", "node": node, "key": "reset"})
        elif r < 15:
            ops.append({"op": "traffic", "src": rng.below(2), "dst": rng.choice(["192.168.1.2", "192.168.1.3", "192.168.1.1", "10.0.0.1", "10.0.0.2"])})
        elif r < 16:
            ops.append({"op": "inject", "node": node, "nic": rng.choice([1, 2, 3])})
        else:
            ops.append(other_request(rng, node, cls, uniq))
    case["ops"] = ops
    return case


def exhaustive_pair(depth: int, durs: Tuple[int, int, int, int]):
    """every sequence of length `depth` over the 7-letter alphabet of DESIGN §5/C12, node 0 being the one under test"""
    for seq in itertools.product(range(len(ALPHABET_PAIR)), repeat=depth):
        yield pair_case(durs[0], durs[1], durs[2], durs[3], [dict(ALPHABET_PAIR[i]) for i in seq])


# ------------------------------------------------------------------------------------------------ implementation side
class Probe:
    """in-process wrappers: assignments to operating_state, frames passing an interface of a node that is not ON"""

    def __init__(self):
        self.state_log: List[Tuple[int, str]] = []
        self.frame_events: Dict[str, int] = {}
        self.bad_frames: List[str] = []
        self._undo = []

    def install(self):
        from primaite.simulator.network.airspace import WirelessNetworkInterface
        from primaite.simulator.network.hardware.base import Node, WiredNetworkInterface
        from primaite.simulator.network.hardware.node_operating_state import NodeOperatingState
        from primaite.simulator.network.hardware.nodes.host.host_node import NIC
        from primaite.simulator.network.hardware.nodes.network.router import RouterInterface
        from primaite.simulator.network.hardware.nodes.network.switch import SwitchPort
        from primaite.simulator.network.hardware.nodes.network.wireless_router import WirelessAccessPoint
        probe = self
        orig_set = Node.__setattr__

        def set_attr(self_, name, value):
            if name == "operating_state":
                probe.state_log.append((id(self_), value.name))
            return orig_set(self_, name, value)
        Node.__setattr__ = set_attr
        self._undo.append(lambda: setattr(Node, "__setattr__", orig_set))

        def wrap(cls, meth, direction):
            orig = cls.__dict__[meth]

            def w(self_, frame, *a, **k):
                node = self_._connected_node
                before_on = node is not None and node.operating_state == NodeOperatingState.ON
                was_enabled = self_.enabled
                res = orig(self_, frame, *a, **k)
                key = f"{direction}:{'on' if before_on else 'not-on'}:{'enabled' if was_enabled else 'disabled'}"
                probe.frame_events[key] = probe.frame_events.get(key, 0) + 1
                if node is not None and not before_on and (was_enabled or res):
                    probe.bad_frames.append(f"{cls.__name__}.{meth} on {node.config.hostname} ({node.operating_state.name}): "
                                            f"enabled={was_enabled} returned={res}")
                return res
            setattr(cls, meth, w)
            self._undo.append(lambda: setattr(cls, meth, orig))
        wrap(NIC, "receive_frame", "in")
        wrap(RouterInterface, "receive_frame", "in")
        wrap(SwitchPort, "receive_frame", "in")
        wrap(SwitchPort, "send_frame", "out")
        wrap(WiredNetworkInterface, "send_frame", "out")
        wrap(WirelessNetworkInterface, "send_frame", "out")
        wrap(WirelessAccessPoint, "receive_frame", "in")

    def remove(self):
        for u in reversed(self._undo):
            u()
        self._undo = []


def build(case: dict):
    from primaite.simulator.network.hardware.nodes.host.computer import Computer
    from primaite.simulator.network.hardware.nodes.host.server import Printer, Server
    from primaite.simulator.network.hardware.nodes.network.firewall import Firewall
    from primaite.simulator.network.hardware.nodes.network.router import Router
    from primaite.simulator.network.hardware.nodes.network.switch import Switch
    from primaite.simulator.network.hardware.nodes.network.wireless_router import WirelessRouter
    from primaite.simulator.sim_container import Simulation
    sim = Simulation()
    net = sim.network
    nodes = []
    host_ips = {"computer": "192.168.1.2", "server": "192.168.1.3", "printer": "192.168.1.4"}
    for spec in case["nodes"]:
        d = {"hostname": spec["name"], "start_up_duration": spec["up"], "shut_down_duration": spec["down"]}
        c = spec["cls"]
        if c in ("computer", "server", "printer"):
            k = {"computer": Computer, "server": Server, "printer": Printer}[c]
            cfg = {"type": c, "ip_address": spec.get("ip", host_ips[c]), "subnet_mask": "255.255.255.0", **d}
            if spec.get("init"):  # a node that the scenario file declares not ON, possibly in mid-transition
                cfg["operating_state"] = spec["init"]
                cfg["start_up_countdown"] = spec.get("up_cd", 0)
                cfg["shut_down_countdown"] = spec.get("down_cd", 0)
                cfg["is_resetting"] = bool(spec.get("resetting", False))
            if case["kind"] == "scenario":
                cfg["default_gateway"] = "192.168.1.1"
            n = k.from_config(cfg)
        elif c == "switch":
            n = Switch.from_config({"type": "switch", "num_ports": 4, **d})
        elif c == "router":
            n = Router.from_config({"type": "router", "num_ports": 3, "ports": {
                1: {"ip_address": "192.168.1.1", "subnet_mask": "255.255.255.0"},
                2: {"ip_address": "10.0.0.1", "subnet_mask": "255.255.255.0"}}, **d})
        elif c == "firewall":
            n = Firewall.from_config({"type": "firewall", "ports": {
                "external_port": {"ip_address": "10.0.0.2", "subnet_mask": "255.255.255.0"},
                "internal_port": {"ip_address": "10.0.1.1", "subnet_mask": "255.255.255.0"}}, **d})
        elif c == "wireless-router":
            n = WirelessRouter.from_config({"type": "wireless-router", "router_interface": {"ip_address": "10.0.2.1", "subnet_mask": "255.255.255.0"},
                                            "wireless_access_point": {"ip_address": "10.0.3.1", "subnet_mask": "255.255.255.0", "frequency": "WIFI_2_4"},
                                            **d}, airspace=net.airspace)
        else:
            raise ValueError(c)
        net.add_node(n)
        nodes.append(n)
    for a, pa, b, pb in case["links"]:
        net.connect(nodes[a].network_interface[pa], nodes[b].network_interface[pb])
    for n in nodes:  # short software timers so that restarts/installs complete inside short sequences
        for s in n.services.values():
            s.restart_duration = 2
        for a in n.applications.values():  # as Network.setup_for_episode does: applications of an ON node are opened
            a.run()
    return sim, nodes


def snapshot(n) -> str:
    from primaite.simulator.network.airspace import WirelessNetworkInterface
    nics = []
    for port in sorted(n.network_interface):
        ni = n.network_interface[port]
        linked = True if isinstance(ni, WirelessNetworkInterface) else bool(getattr(ni, "_connected_link", None))
        nics.append(("1" if ni.enabled else "0") + ("1" if linked else "0"))
    svcs = []
    for s in n.services.values():
        st = SVC_CODE[s.operating_state.name]
        svcs.append(f"T:{s.restart_countdown}" if st == "T" else st)
    apps = []
    for a in n.applications.values():
        st = APP_CODE[a.operating_state.name]
        apps.append(f"I:{a.install_countdown}" if st == "I" else st)

    def j(xs):
        return ",".join(xs) if xs else "-"
    c = n.config
    return (f"st={n.operating_state.name} up={c.start_up_countdown} down={c.shut_down_countdown} rs={'1' if c.is_resetting else '0'} "
            f"nics={j(nics)} svcs={j(svcs)} apps={j(apps)}")


def node_line(spec: dict, n) -> str:
    """the `node ...` line that loads the implementation's initial state into the model"""
    from primaite.simulator.network.airspace import WirelessNetworkInterface
    nics = []
    for port in sorted(n.network_interface):
        ni = n.network_interface[port]
        linked = True if isinstance(ni, WirelessNetworkInterface) else bool(getattr(ni, "_connected_link", None))
        nics.append(("1" if ni.enabled else "0") + ("1" if linked else "0"))
    svcs = [f"{SVC_CODE[s.operating_state.name]}:{s.restart_countdown or 0}:{s.restart_duration}" for s in n.services.values()]
    apps = [f"{APP_CODE[a.operating_state.name]}:{a.install_countdown or 0}:{a.install_duration}" for a in n.applications.values()]

    def j(xs):
        return ",".join(xs) if xs else "-"
    c = n.config
    return (f"node {spec['cls']} {n.operating_state.name} {c.start_up_duration} {c.shut_down_duration} {c.start_up_countdown} "
            f"{c.shut_down_countdown} {'1' if c.is_resetting else '0'} {j(nics)} {j(svcs)} {j(apps)}")


def _svc_index(n, name: str) -> int:
    names = [s.name for s in n.services.values()]
    return names.index(name) if name in names else 99


def _app_index(n, name: str) -> int:
    names = [a.name for a in n.applications.values()]
    return names.index(name) if name in names else 99


def run_case(case: dict) -> Tuple[List[str], List[str], List[str], Dict[str, int]]:
    """Returns (model_lines, impl_lines aligned with them, oracle failures, frame-event histogram)."""
    from primaite.simulator.network.hardware.node_operating_state import NodeOperatingState
    probe = Probe()
    probe.install()
    try:
        sim, nodes = build(case)
        ids = {id(n): i for i, n in enumerate(nodes)}
        lines: List[str] = ["reset"]
        impl: List[str] = ["ok"]
        oracle: List[str] = []
        for i, (spec, n) in enumerate(zip(case["nodes"], nodes)):
            lines.append(node_line(spec, n))
            impl.append(f"ok {i}")
        probe.state_log.clear()
        t = 0

        def traces() -> Dict[int, str]:
            per: Dict[int, List[str]] = {}
            for nid, name in probe.state_log:
                if nid in ids:
                    per.setdefault(ids[nid], []).append(name)
            probe.state_log.clear()
            return {k: ">".join(v) for k, v in per.items()}

        def invariants(tag: str):
            for i, n in enumerate(nodes):
                if n.operating_state != NodeOperatingState.ON:
                    for port, ni in n.network_interface.items():
                        if ni.enabled:
                            oracle.append(f"nic-enabled-while-{n.operating_state.name}|{case['nodes'][i]['cls']}|after {tag}")
                if n.operating_state == NodeOperatingState.OFF:
                    for s in n.services.values():
                        if s.operating_state.name == "RUNNING":
                            oracle.append(f"service-running-while-OFF|{case['nodes'][i]['cls']}|{s.name} after {tag}")
                    for a in n.applications.values():
                        if a.operating_state.name == "RUNNING":
                            oracle.append(f"application-running-while-OFF|{case['nodes'][i]['cls']}|{a.name} after {tag}")

        for k, op in enumerate(case["ops"]):
            nb = len(probe.bad_frames)
            kind = op["op"]
            if kind == "tick":
                sim.pre_timestep(t)
                sim.apply_timestep(t)
                t += 1
                tr = traces()
                for i, n in enumerate(nodes):
                    lines.append(f"tick {i}")
                    impl.append(f"done h={tr.get(i, '-')} {snapshot(n)}")
            elif kind == "req":
                i = op["node"]
                n = nodes[i]
                key = op["key"]
                was_on = n.operating_state == NodeOperatingState.ON
                if key in ("shutdown", "startup", "reset"):
                    path, sub = [key], "opaque success"
                elif key == "service":
                    path, sub = [key, op["svc"], op["verb"]], f"svc {_svc_index(n, op['svc'])} {op['verb']}"
                elif key == "application":
                    path, sub = [key, op["app"], "close"], f"app {_app_index(n, op['app'])}"
                elif key == "network_interface":
                    path, sub = [key, op["nic"], op["verb"]], f"nic {op['nic'] - 1} {op['verb']}"
                else:
                    path, sub = [key, *op["path"]], f"opaque {op['expect']}"
                try:
                    resp = sim.apply_request(["network", "node", n.config.hostname, *path], {})
                    status = resp.status
                except Exception as e:  # a request must answer, not raise
                    status = f"raised:{type(e).__name__}"
                    oracle.append(f"request-raised|{case['nodes'][i]['cls']}|{key} {type(e).__name__}: {e}")
                if not was_on and key != "startup" and status not in ("failure", "unreachable"):
                    oracle.append(f"request-accepted-while-not-on|{case['nodes'][i]['cls']}|{key} -> {status}")
                tr = traces()
                lines.append(f"req {i} {key} {sub}")
                impl.append(f"{status} h={tr.get(i, '-')} {snapshot(n)}")
                for j, m in enumerate(nodes):  # nothing may happen to the other nodes' power state
                    if j != i and j in tr:
                        oracle.append(f"foreign-state-change|{case['nodes'][j]['cls']}|{tr[j]} during request to node {i}")
            elif kind == "ping":
                src, dst = nodes[op["src"]], nodes[op["dst"]]
                dst_ip = dst.network_interface[1].ip_address
                dst_on = dst.operating_state == NodeOperatingState.ON
                src_on = src.operating_state == NodeOperatingState.ON
                # ICMPPacket treats identifier 0 as "unset" and draws a new one (protocols/icmp.py), so one ping in 65536 loses its
                # reply although both nodes are up (not a C12 matter; noted for C08). A ping has no effect on the modelled state,
                # so a failed ping is tried once more; a power-gating failure is deterministic and fails both times.
                ok = bool(src.ping(dst_ip, pings=1)) or bool(src.ping(dst_ip, pings=1))
                if ok and not (dst_on and src_on):
                    oracle.append(f"ping-succeeded-with-node-not-on|{case['nodes'][op['dst']]['cls']}|src_on={src_on} dst_on={dst_on}")
                lines.append(f"ping {op['src']} {op['dst']}")
                impl.append("1" if ok else "0")
                traces()
            elif kind == "traffic":  # scenario scale: ping an address somewhere in the network; only the oracles look at it
                try:
                    nodes[op["src"]].ping(op["dst"], pings=1)
                except Exception as e:
                    oracle.append(f"traffic-raised|{case['nodes'][op['src']]['cls']}|{type(e).__name__}: {e}")
                traces()
            elif kind == "inject":  # hand a frame straight to an interface
                n = nodes[op["node"]]
                ni = n.network_interface.get(op["nic"])
                if ni is not None:
                    ok = _inject(ni)
                    lines.append(f"in {op['node']} {op['nic'] - 1}")
                    impl.append("1" if ok else "0")
                traces()
            elif kind == "appinstall":
                n = nodes[op["node"]]
                j = _app_index(n, op["app"])
                if j != 99:
                    list(n.applications.values())[j].install()
                    lines.append(f"appinstall {op['node']} {j}")
                    impl.append(f"done h=- {snapshot(n)}")
            else:
                raise ValueError(kind)
            for b in probe.bad_frames[nb:]:
                oracle.append(f"frame-passed-interface-of-node-not-on|{b.split(' on ')[0]}|{b} during op {k} {op}")
            invariants(f"op {k} {op}")
        return lines, impl, oracle, dict(probe.frame_events)
    finally:
        probe.remove()


def _inject(ni) -> bool:
    """a unicast UDP frame to a closed port, addressed to the interface (switch ports take anything)"""
    from ipaddress import IPv4Address
    from primaite.simulator.network.transmission.data_link_layer import EthernetHeader, Frame
    from primaite.simulator.network.transmission.network_layer import IPPacket
    from primaite.simulator.network.transmission.transport_layer import UDPHeader
    dst_ip = getattr(ni, "ip_address", IPv4Address("192.168.1.77"))
    f = Frame(ethernet=EthernetHeader(src_mac_addr="aa:bb:cc:dd:ee:01", dst_mac_addr=ni.mac_address),
              ip=IPPacket(src_ip_address=IPv4Address("192.168.1.99"), dst_ip_address=dst_ip, protocol="udp"),
              udp=UDPHeader(src_port=4444, dst_port=4444))
    return bool(ni.receive_frame(f))


def route_tables() -> Dict[str, List[Tuple[str, str]]]:
    """run-time cross-check of Gen.Power.classTables: keys and validator classes of live nodes' request managers"""
    case = scenario_case([(0, 0)] * 6, [])
    case["nodes"].append({"cls": "printer", "name": "m6", "up": 0, "down": 0})
    _, nodes = build(case)
    out = {}
    names = {"_NodeIsOnValidator": ".nodeOn", "_NodeIsOffValidator": ".nodeOff", "AllowAllValidator": ".none"}
    for spec, n in zip(case["nodes"], nodes):
        out[spec["cls"]] = [(k, names.get(type(rt.validator).__name__, "?" + type(rt.validator).__name__))
                            for k, rt in n._request_manager.request_types.items()]
    return out
