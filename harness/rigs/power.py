"""R-node: drive real nodes (requests through Simulation.apply_request, ticks through Simulation.pre_timestep/apply_timestep,
pings through Node.ping) and the Lean model (Drivers/C12.lean) with the same operation sequences; diff every answer, every
assignment to `operating_state` (micro-trace), and the whole modelled state after every operation.

Families: two linked hosts (bounded-exhaustive + random), the six-class network, `cls` = one node of EVERY node class under
test between peers (pings to and through it, every interface kind), `load` = scenario dictionaries with every declared
operating_state / duration / countdown handed to PrimaiteGame.from_config and then to setup_for_episode, with direct API calls,
run-time duration changes, negative and huge durations.  Every tick also reports which sub-component `pre_timestep` /
`apply_timestep` calls the node made (wrappers on Software / FileSystem / NetworkInterface), compared with the model's
statement program.

Independently of the model, implementation-side oracles of the property are evaluated on every trace:
  * an interface that passes a frame (receive_frame/send_frame reaching past its `enabled` test) while its node is not ON;
  * after every operation: node not ON with an enabled interface; node OFF with a RUNNING service / application;
  * a request other than `startup` answered with anything but failure/unreachable by a node that is not ON.
"""
from __future__ import annotations

import itertools
from typing import Dict, List, Optional, Tuple

from harness.lib.core import Rng

SVC_CODE = {"RUNNING": "R", "STOPPED": "S", "PAUSED": "P", "DISABLED": "D", "INSTALLING": "I", "RESTARTING": "T"}
APP_CODE = {"RUNNING": "R", "CLOSED": "C", "INSTALLING": "I"}
HOST_SVCS = ["dns-client", "ntp-client", "ftp-client"]       # services the rig plays with (never arp/icmp: pings need them)
SVC_VERBS = ["stop", "start", "pause", "resume", "restart", "disable", "enable"]
ACL_ADD = ["add_rule", "PERMIT", "ALL", "ALL", "NONE", "ALL", "ALL", "NONE", "ALL"]

# ------------------------------------------------------------------------------------------------ topologies
PAIR_IPS = ["192.168.1.2", "192.168.1.3"]


def pair_case(up0: int, down0: int, up1: int, down1: int, ops: List[dict], cls: Tuple[str, str] = ("computer", "computer")) -> dict:
    nodes = []
    for i, (c, u, d) in enumerate(zip(cls, (up0, up1), (down0, down1))):
        nodes.append({"cls": c, "name": f"n{i}", "up": u, "down": d, "ip": PAIR_IPS[i]})
    return {"kind": "pair", "nodes": nodes, "links": [[0, 1, 1, 1]], "ops": ops}


def scenario_case(durs: List[Tuple[int, int]], ops: List[dict]) -> dict:
    """computer, server, switch, router, firewall, wireless router: c-sw, s-sw, sw-rt, rt-fw; wr stands alone on the air."""
    cls = ["computer", "server", "switch", "router", "firewall", "wireless-router"]
    nodes = [{"cls": c, "name": f"m{i}", "up": durs[i][0], "down": durs[i][1]} for i, c in enumerate(cls)]
    # links as [node_a, port_a, node_b, port_b]
    return {"kind": "scenario", "nodes": nodes, "links": [[0, 1, 2, 1], [1, 1, 2, 2], [2, 3, 3, 1], [3, 2, 4, 1]], "ops": ops}


HOST_CLASSES = ("host-node", "computer", "server", "printer")
ALL_CLASSES = ("host-node", "computer", "printer", "server", "router", "switch", "firewall", "wireless-router")
NIC_KIND = {"NIC": "i", "RouterInterface": "i", "SwitchPort": "s", "WirelessAccessPoint": "w"}


N_PORTS = {"switch": 4, "router": 3, "firewall": 3}
FW_PORT_NAME = {1: "external_port", 2: "internal_port", 3: "dmz_port"}


def layouts(cls: str) -> List[Tuple[int, int]]:
    """round 7: every way to put the two peers A and B on two different ports of the node under test (ordered pairs), so that
    interfaces that cannot come up (nothing plugged in) sit before, between and behind the linked ones in port order"""
    if cls not in N_PORTS:
        return [(1, 2)]
    k = N_PORTS[cls]
    return [(a, b) for a in range(1, k + 1) for b in range(1, k + 1) if a != b]


def cls_case(cls: str, up: int, down: int, ops: List[dict], layout: Optional[Tuple[int, int]] = None) -> dict:
    """node 0 = the node under test (class `cls`), node 1 = computer A, node 2 = the far peer (computer B behind a switch /
    router / firewall, a second wireless router on the same frequency for a wireless router; none for a host).
    `pings` lists, by name, (source node, target address, the interfaces a reply-and-request must cross).
    `layout` = (port of A, port of B) on a switch / router / firewall (default: ports 1 and 2)."""
    x = {"cls": cls, "name": "x", "up": up, "down": down}
    a = {"cls": "computer", "name": "a", "up": 1, "down": 1, "ip": "192.168.1.2", "gw": "192.168.1.1"}
    if cls in HOST_CLASSES:
        x["ip"] = "192.168.1.3"
        nodes, links = [x, a], [[0, 1, 1, 1]]
        pings = {"to": [1, "192.168.1.3", [[1, 0], [0, 0]]], "from": [0, "192.168.1.2", [[0, 0], [1, 0]]]}
        if layout == (0, 0):   # nothing plugged into the host's only interface: it can never come up
            links, pings = [], {}
    elif cls == "wireless-router":
        w = {"cls": "wireless-router", "name": "w", "up": 1, "down": 1, "wr_ips": ("10.0.4.1", "10.0.3.2")}
        x["wr_ips"] = ("192.168.1.1", "10.0.3.1")  # (wired port 2, access point port 1)
        nodes, links = [x, a, w], [[0, 2, 1, 1]]
        pings = {"to": [1, "192.168.1.1", [[1, 0], [0, 1]]], "air": [2, "10.0.3.1", [[2, 0], [0, 0]]],
                 "from": [0, "10.0.3.2", [[0, 0], [2, 0]]]}
        if layout == (0, 0):   # the wired port stays unplugged: only the access point can come up
            links = []
            del pings["to"]
    else:
        pa, pb = layout or (1, 2)
        b = {"cls": "computer", "name": "b", "up": 1, "down": 1, "ip": "10.0.0.2", "gw": "10.0.0.1"}
        if cls == "switch":
            b["ip"], b["gw"] = "192.168.1.4", "192.168.1.1"
        else:
            x["port_ips"] = {pa: "192.168.1.1", pb: "10.0.0.1"}
        nodes, links = [x, a, b], [[0, pa, 1, 1], [0, pb, 2, 1]]
        through = [[1, 0], [0, pa - 1], [0, pb - 1], [2, 0]]
        pings = {"through": [1, b["ip"], through], "back": [2, "192.168.1.2", [[2, 0], [0, pb - 1], [0, pa - 1], [1, 0]]]}
        if cls != "switch":
            pings["to"] = [1, "192.168.1.1", [[1, 0], [0, pa - 1]]]
    return {"kind": "cls", "nodes": nodes, "links": links, "pings": pings, "ops": ops}


def layout_cycle_cases(clss=("switch", "router", "firewall"), durs=((0, 0), (2, 1), (0, 2), (1, 0))) -> List[dict]:
    """round 7 (seeded C12-g): a whole power cycle (shutdown + start-up, or a reset) of a node with several interfaces, for
    EVERY placement of the two links on its ports, optionally after one interface was disabled by request (first linked port,
    an unlinked port). Afterwards exactly the interfaces that can come up must be up (oracle `interface-down-after-return-to-on`
    and the model's state) and pings must cross the node in both directions."""
    out = []
    for cls in tuple(clss) + tuple(HOST_CLASSES) + ("wireless-router",):
        if cls in N_PORTS:
            lays = layouts(cls)
        else:
            lays = [(1, 2), (0, 0)]      # plugged in / nothing plugged in
        for lay in lays:
            if cls in N_PORTS:
                pres = (None, lay[0], [q for q in range(1, N_PORTS[cls] + 1) if q not in lay][0])
            elif cls == "wireless-router":
                pres = (None, 2)         # the wired port (requests to the access point raise: F-2, C05/C16)
            else:
                pres = (None, 1)
            for (up, down) in durs:
                for mode in ("cycle", "reset"):
                    for pre in pres:
                        ops: List[dict] = []
                        if pre is not None:
                            ops.append({"op": "req", "node": 0, "key": "network_interface", "nic": pre, "verb": "disable"})
                        if mode == "reset":
                            ops.append({"op": "req", "node": 0, "key": "reset"})
                            ops += [{"op": "tick"}] * (max(down, 0) + max(up, 0) + 2)
                        else:
                            ops.append({"op": "req", "node": 0, "key": "shutdown"})
                            ops += [{"op": "tick"}] * (max(down, 0) + 1)
                            ops.append({"op": "req", "node": 0, "key": "startup"})
                            ops += [{"op": "tick"}] * (max(up, 0) + 1)
                        case = cls_case(cls, up, down, ops, layout=lay)
                        case["ops"] += [{"op": "pingpath", "name": nm} for nm in case["pings"]]
                        out.append(case)
    return out


def cls_other_request(cls: str) -> dict:
    """the class-specific seventh letter of the bounded-exhaustive alphabet: a request that touches what the class adds"""
    if cls in HOST_CLASSES:
        return {"op": "req", "node": 0, "key": "service", "svc": "dns-client", "verb": "stop"}
    if cls == "switch":
        return {"op": "req", "node": 0, "key": "network_interface", "nic": 1, "verb": "disable"}
    if cls == "router":
        return {"op": "req", "node": 0, "key": "acl", "path": ACL_ADD + [5], "expect": "success"}
    if cls == "firewall":
        return {"op": "req", "node": 0, "key": "external", "path": ["inbound", "acl"] + ACL_ADD + [5], "expect": "success"}
    if cls == "wireless-router":
        return {"op": "req", "node": 0, "key": "network_interface", "nic": 1, "verb": "disable"}
    raise ValueError(cls)


def cls_alphabet(cls: str) -> List[dict]:
    names = list(cls_case(cls, 0, 0, [])["pings"])
    p1, p2 = names[0], names[-1]
    return [{"op": "req", "node": 0, "key": "shutdown"}, {"op": "req", "node": 0, "key": "startup"}, {"op": "req", "node": 0, "key": "reset"},
            {"op": "tick"}, {"op": "pingpath", "name": p1}, {"op": "pingpath", "name": p2}, cls_other_request(cls)]


def cls_tail(cls: str) -> List[dict]:
    names = list(cls_case(cls, 0, 0, [])["pings"])
    return ([{"op": "tick"}, {"op": "pingpath", "name": names[0]}] + [{"op": "tick"}] * 4 +
            [{"op": "pingpath", "name": n} for n in names])


def exhaustive_cls(cls: str, depth: int, up: int, down: int):
    alpha = cls_alphabet(cls)
    tail = cls_tail(cls)
    for seq in itertools.product(range(len(alpha)), repeat=depth):
        yield cls_case(cls, up, down, [dict(alpha[i]) for i in seq] + [dict(o) for o in tail])


DUR_POOL = [0, 0, 1, 2, 3, 5, -1, -4, 10 ** 12]


def api_op(rng: Rng, node: int, cls: str) -> dict:
    """a direct call of the Python API on the node (no request, no validator)"""
    k = rng.choice(["poweron", "poweroff", "reset", "nicenable", "nicdisable", "svc", "apprun", "appclose", "poweron", "poweroff"])
    if cls not in HOST_CLASSES and k in ("svc", "apprun", "appclose"):
        k = rng.choice(["poweron", "poweroff", "nicenable"])
    op = {"op": "api", "node": node, "call": k}
    if k in ("nicenable", "nicdisable"):
        op["nic"] = rng.choice([1, 1, 2])
    if k == "svc":
        op["svc"] = rng.choice(HOST_SVCS)
        op["verb"] = rng.choice(SVC_VERBS)
    if k in ("apprun", "appclose"):
        op["app"] = "web-browser"
    return op


def gen_random_cls(rng: Rng, max_ops: int, cls: Optional[str] = None, api: bool = False) -> dict:
    """random sequence on the class topology; with `api`, direct API calls and run-time duration changes are mixed in (then the
    legal-moves claim no longer applies — the invariants and the model agreement still do)"""
    cls = cls or rng.choice(list(ALL_CLASSES))
    case = cls_case(cls, rng.choice(DUR_POOL), rng.choice(DUR_POOL), [], layout=rng.choice(layouts(cls)))
    names = list(case["pings"])
    ops, uniq = [], [0]
    for _ in range(rng.range(5, max_ops)):
        r = rng.below(24)
        node = 0 if rng.chance(3, 4) else rng.below(len(case["nodes"]))
        ncls = case["nodes"][node]["cls"]
        if r < 6:
            ops.append({"op": "tick"})
        elif r < 9:
            ops.append({"op": "req", "node": node, "key": "shutdown"})
        elif r < 12:
            ops.append({"op": "req", "node": node, "key": "startup"})
        elif r < 14:
            ops.append({"op": "req", "node": node, "key": "reset"})
        elif r < 17:
            ops.append({"op": "pingpath", "name": rng.choice(names)})
        elif r < 18:
            ops.append({"op": "inject", "node": 0, "nic": rng.choice([1, 2, 3])})
        elif r < 20 and api:
            ops.append(api_op(rng, node, ncls))
        elif r < 21 and api:
            ops.append({"op": "setdur", "node": node, "up": rng.choice(DUR_POOL), "down": rng.choice(DUR_POOL)})
        else:
            ops.append(other_request(rng, node, ncls, uniq))
    case["ops"] = ops
    return case


def gen_cycle(rng: Rng) -> dict:
    """item 4: put the software of a host into assorted states, run a whole power cycle (or a reset), watch what comes back"""
    cls = rng.choice(list(HOST_CLASSES))
    up, down = rng.choice([0, 1, 2]), rng.choice([0, 1, 2])
    ops = []
    for svc in HOST_SVCS:
        v = rng.choice(["stop", "pause", "disable", "restart", None, None])
        if v:
            ops.append({"op": "req", "node": 0, "key": "service", "svc": svc, "verb": v})
    a = rng.choice(["close", "install", None])
    if a == "close":
        ops.append({"op": "req", "node": 0, "key": "application", "app": "web-browser"})
    elif a == "install":
        ops += [{"op": "req", "node": 0, "key": "application", "app": "web-browser"}, {"op": "api", "node": 0, "call": "appinstall", "app": "web-browser"}]
    if rng.chance(1, 3):
        ops.append({"op": "req", "node": 0, "key": "network_interface", "nic": 1, "verb": "disable"})
    if rng.chance(1, 3):
        ops.append({"op": "req", "node": 0, "key": "os", "path": ["scan"]})
    if rng.chance(1, 2):
        ops.append({"op": "req", "node": 0, "key": "reset"})
        ops += [{"op": "tick"}] * (down + up + 3)
    else:
        ops.append({"op": "req", "node": 0, "key": "shutdown"})
        ops += [{"op": "tick"}] * (down + 1 + rng.below(3))
        ops.append({"op": "req", "node": 0, "key": "startup"})
        ops += [{"op": "tick"}] * (up + 2)
    ops += [{"op": "pingpath", "name": "to"}, {"op": "pingpath", "name": "from"}]
    return cls_case(cls, up, down, ops)


def entry_cases() -> List[dict]:
    """round 6, dynamic cross-check of the (lexical) entry-point table: for EVERY node class and EVERY interface it carries,
    frames of three kinds are handed straight to the interface while the node is ON (control: they must reach the node's
    receive_frame through an enabled, linked interface), SHUTTING_DOWN, OFF and BOOTING (they must stop at the interface)"""
    out = []
    for cls in ALL_CLASSES:
        base = cls_case(cls, 3, 3, [])
        ports = {"switch": [1, 2, 3], "router": [1, 2, 3], "firewall": [1, 2, 3], "wireless-router": [1, 2]}.get(cls, [1])
        probe_all = [{"op": "inject", "node": 0, "nic": p, "frame": f} for p in ports for f in ("udp", "icmp", "bcast")]
        ops = list(probe_all)                                   # ON
        ops += [{"op": "req", "node": 0, "key": "shutdown"}] + probe_all + [{"op": "tick"}] + probe_all   # SHUTTING_DOWN
        ops += [{"op": "tick"}] * 3 + probe_all                 # OFF
        ops += [{"op": "req", "node": 0, "key": "startup"}] + probe_all + [{"op": "tick"}] + probe_all    # BOOTING
        ops += [{"op": "tick"}] * 3 + probe_all                 # ON again
        base["ops"] = ops
        out.append(base)
    return out


def gen_sessions(rng: Rng) -> dict:
    """item 2, the one piece of per-tick work that continues while a node is not ON: `UserSessionManager.pre_timestep` times
    idle sessions out whatever the power state.  Log users in (locally, and remotely from the peer), switch the node off and on
    around it, tick past the time-out; the rig's own reference (time-out at last_active + timeout, power never consulted)
    must predict what the implementation does, and the notification a remote time-out sends must stop at the interface."""
    case = pair_case(rng.choice([0, 1, 2]), rng.choice([0, 1, 3]), 1, 1, [], (rng.choice(["computer", "server"]), "computer"))
    case["session_timeout"] = rng.choice([2, 3, 5])
    ops = []
    for _ in range(rng.range(8, 22)):
        r = rng.below(12)
        if r < 5:
            ops.append({"op": "tick"})
        elif r < 7:
            ops.append({"op": "login", "node": 0, "remote": rng.chance(1, 2)})
        elif r < 9:
            ops.append({"op": "req", "node": 0, "key": "shutdown"})
        elif r < 10:
            ops.append({"op": "req", "node": 0, "key": "startup"})
        elif r < 11:
            ops.append({"op": "req", "node": 0, "key": "reset"})
        else:
            ops.append({"op": "ping", "src": 1, "dst": 0})
    case["ops"] = ops + [{"op": "tick"}] * (case["session_timeout"] + 2)
    return case


# ------------------------------------------------------------------------------------------------ the loader family
def load_case(rng: Rng, max_ops: int) -> dict:
    """a scenario dictionary with one node of every class, each with a declared operating_state / durations / countdowns /
    reset flag, wired computer-server-printer-host -> switch -> router -> firewall -> wireless router"""
    decl = []
    for cls in ALL_CLASSES:
        d = {"cls": cls, "up": rng.choice([0, 0, 1, 2, 3, -2]), "down": rng.choice([0, 0, 1, 2, 3, -2])}
        st = rng.choice([None, None, "ON", "OFF", "OFF", "BOOTING", "SHUTTING_DOWN"])
        if st:
            d["init"] = st
        if rng.chance(1, 2):
            d["up_cd"] = rng.choice([0, 1, 2])
            d["down_cd"] = rng.choice([0, 1, 2])
            d["resetting"] = rng.chance(1, 3)
        decl.append(d)
    defaults = None
    if rng.chance(1, 2):   # a `defaults:` section; a node that gives no duration of its own takes it from there, else 3
        defaults = {}
        if rng.chance(3, 4):
            defaults["up"] = rng.choice([0, 1, 2, 4])
        if rng.chance(3, 4):
            defaults["down"] = rng.choice([0, 1, 2, 4])
        defaults["quoted"] = rng.chance(1, 3)
    for d in decl:
        if rng.chance(1, 3):
            d["up"] = None
        if rng.chance(1, 3):
            d["down"] = None
    ops = []
    if rng.chance(2, 3):
        ops.append({"op": "setup"})
    for _ in range(rng.range(3, max_ops)):
        r = rng.below(20)
        node = rng.below(len(ALL_CLASSES))
        if r < 7:
            ops.append({"op": "tick"})
        elif r < 10:
            ops.append({"op": "req", "node": node, "key": "startup"})
        elif r < 12:
            ops.append({"op": "req", "node": node, "key": "shutdown"})
        elif r < 13:
            ops.append({"op": "req", "node": node, "key": "reset"})
        elif r < 14:
            ops.append({"op": "setup"})
        elif r < 16:
            ops.append({"op": "inject", "node": node, "nic": rng.choice([1, 2])})
        elif r < 18:
            ops.append(api_op(rng, node, ALL_CLASSES[node]))
        else:
            ops.append({"op": "req", "node": node, "key": "os", "path": ["scan"]})
    case = {"kind": "load", "nodes": decl, "ops": ops}
    if defaults is not None:
        case["defaults"] = defaults
    return case


def load_cfg(case: dict) -> dict:
    from harness.lib.scen import QUIET_IO
    nodes = []
    fw_rule = {22: {"action": "PERMIT", "src_port": "ARP", "dst_port": "ARP"}, 23: {"action": "PERMIT", "protocol": "ICMP"}}
    host_ip = {"host-node": "192.168.1.5", "computer": "192.168.1.2", "printer": "192.168.1.4", "server": "192.168.1.3"}
    for i, d in enumerate(case["nodes"]):
        c = d["cls"]
        n = {"hostname": f"l{i}", "type": c}
        if d.get("up") is not None:
            n["start_up_duration"] = d["up"]
        if d.get("down") is not None:
            n["shut_down_duration"] = d["down"]
        if "init" in d:
            n["operating_state"] = d["init"]
        if "up_cd" in d:
            n["start_up_countdown"], n["shut_down_countdown"], n["is_resetting"] = d["up_cd"], d["down_cd"], bool(d["resetting"])
        if c in HOST_CLASSES:
            n.update(ip_address=host_ip[c], subnet_mask="255.255.255.0", default_gateway="192.168.1.1")
            if c == "computer":
                n["applications"] = [{"type": "database-client", "options": {}}]
                n["services"] = [{"type": "ftp-server"}, {"type": "dns-client"}]
        elif c == "switch":
            n["num_ports"] = 6
        elif c == "router":
            n.update(num_ports=3, ports={1: {"ip_address": "192.168.1.1", "subnet_mask": "255.255.255.0"},
                                         2: {"ip_address": "10.0.0.1", "subnet_mask": "255.255.255.0"}})
        elif c == "firewall":
            n.update(ports={"external_port": {"ip_address": "10.0.0.2", "subnet_mask": "255.255.255.0"},
                            "internal_port": {"ip_address": "10.0.1.1", "subnet_mask": "255.255.255.0"}},
                     acl={k: dict(fw_rule) for k in ("internal_inbound_acl", "internal_outbound_acl", "dmz_inbound_acl",
                                                     "dmz_outbound_acl", "external_inbound_acl", "external_outbound_acl")})
        elif c == "wireless-router":
            n.update(router_interface={"ip_address": "10.0.1.2", "subnet_mask": "255.255.255.0"},
                     wireless_access_point={"ip_address": "10.0.3.1", "subnet_mask": "255.255.255.0", "frequency": "WIFI_2_4"})
        nodes.append(n)
    idx = {d["cls"]: i for i, d in enumerate(case["nodes"])}
    L = lambda a, pa, b, pb: {"endpoint_a_hostname": f"l{idx[a]}", "endpoint_a_port": pa, "endpoint_b_hostname": f"l{idx[b]}", "endpoint_b_port": pb}  # noqa: E731
    links = [L("host-node", 1, "switch", 1), L("computer", 1, "switch", 2), L("printer", 1, "switch", 3), L("server", 1, "switch", 4),
             L("switch", 5, "router", 1), L("router", 2, "firewall", 1), L("firewall", 2, "wireless-router", 2)]
    cfg = {"io_settings": dict(QUIET_IO), "game": {"max_episode_length": 64, "ports": [], "protocols": []}, "agents": [],
           "simulation": {"network": {"nodes": nodes, "links": links}}}
    dflt = case.get("defaults")
    if dflt is not None:
        q = (lambda v: str(v)) if dflt.get("quoted") else (lambda v: v)
        cfg["defaults"] = {}
        if "up" in dflt:
            cfg["defaults"]["node_start_up_duration"] = q(dflt["up"])
        if "down" in dflt:
            cfg["defaults"]["node_shut_down_duration"] = q(dflt["down"])
    return cfg


# ------------------------------------------------------------------------------------------------ generation
def power_ops_for(node: int) -> List[dict]:
    return [{"op": "req", "node": node, "key": k} for k in ("shutdown", "startup", "reset")]


ALPHABET_PAIR = (
    [{"op": "req", "node": 0, "key": "shutdown"}, {"op": "req", "node": 0, "key": "startup"}, {"op": "req", "node": 0, "key": "reset"},
     {"op": "tick"}, {"op": "ping", "src": 1, "dst": 0}, {"op": "ping", "src": 0, "dst": 1},
     {"op": "req", "node": 0, "key": "service", "svc": "dns-client", "verb": "stop"}]
)


def other_request(rng: Rng, node: int, cls: str, uniq: List[int]) -> dict:
    """a request that is not a power request, with the answer the lower layers give when it gets through"""
    kinds = ["scan", "os", "logon", "logoff", "process", "file_system", "software_manager", "nic", "nic", "bogus"]
    if cls in ("computer", "server", "printer"):
        kinds += ["service", "service", "service", "application"]
    if cls in ("router", "firewall", "wireless-router"):
        kinds += ["acl", "acl"]
    if cls == "firewall":
        kinds += ["fwacl", "fwacl"]
    k = rng.choice(kinds)
    if k == "software_manager" and cls == "switch":
        k = "os"  # a switch has no nmap: the install request would really install it
    if k == "scan":
        return {"op": "req", "node": node, "key": "scan", "path": [], "expect": "success"}
    if k == "os":
        return {"op": "req", "node": node, "key": "os", "path": ["scan"]}
    if k in ("logon", "logoff"):
        return {"op": "req", "node": node, "key": k, "path": [], "expect": "failure"}
    if k == "process":
        return {"op": "req", "node": node, "key": "process", "path": ["p"], "expect": "unreachable"}
    if k == "bogus":
        return {"op": "req", "node": node, "key": rng.choice(["start_up", "power_on", "acl" if cls in ("computer", "server", "switch") else "dmzz"]),
                "path": [], "expect": "unreachable"}
    if k == "file_system":
        uniq[0] += 1
        return {"op": "req", "node": node, "key": "file_system", "path": ["create", "folder", f"v{uniq[0]}"], "expect": "success"}
    if k == "software_manager":
        return {"op": "req", "node": node, "key": "software_manager", "path": ["application", "install", "nmap"], "expect": "success"}
    if k == "nic":
        if cls == "wireless-router":  # port 1 is the wireless access point, port 2 the wired interface
            return {"op": "req", "node": node, "key": "network_interface", "nic": rng.choice([1, 1, 2, 2, 9]),
                    "verb": rng.choice(["enable", "disable"])}
        return {"op": "req", "node": node, "key": "network_interface", "nic": rng.choice([1, 1, 1, 2, 3, 4, 9]),
                "verb": rng.choice(["enable", "disable"])}
    if k == "service":
        return {"op": "req", "node": node, "key": "service", "svc": rng.choice(HOST_SVCS + ["no-such-service"]), "verb": rng.choice(SVC_VERBS)}
    if k == "application":
        return {"op": "req", "node": node, "key": "application", "app": rng.choice(["web-browser", "web-browser", "web-browser", "no-such-app"])}  # not nmap: no `close` route (F-12, C05)
    if k == "acl":
        uniq[0] += 1
        return {"op": "req", "node": node, "key": "acl", "path": ACL_ADD + [3 + uniq[0] % 18], "expect": "success"}
    if k == "fwacl":
        uniq[0] += 1
        return {"op": "req", "node": node, "key": rng.choice(["internal", "dmz", "external"]),
                "path": [rng.choice(["inbound", "outbound"]), "acl"] + ACL_ADD + [3 + uniq[0] % 18], "expect": "success"}
    raise AssertionError(k)


def gen_random_pair(rng: Rng, max_ops: int) -> dict:
    durs = [rng.choice([0, 0, 1, 2, 3, 5]) for _ in range(4)]
    cls = (rng.choice(["computer", "server"]), rng.choice(["computer", "server"]))
    ops, uniq = [], [0]
    n = rng.range(4, max_ops)
    for _ in range(n):
        r = rng.below(20)
        node = rng.below(2)
        if r < 5:
            ops.append({"op": "tick"})
        elif r < 8:
            ops.append({"op": "req", "node": node, "key": "shutdown"})
        elif r < 11:
            ops.append({"op": "req", "node": node, "key": "startup"})
        elif r < 13:
            ops.append({"op": "req", "node": node, "key": "reset"})
        elif r < 16:
            ops.append({"op": "ping", "src": node, "dst": 1 - node})
        elif r < 17:
            ops.append({"op": "appinstall", "node": node, "app": "web-browser"})
        else:
            ops.append(other_request(rng, node, cls[node], uniq))
    case = pair_case(durs[0], durs[1], durs[2], durs[3], ops, cls)
    if rng.chance(1, 3):  # declared initial state other than ON
        spec = case["nodes"][rng.below(2)]
        spec["init"] = rng.choice(["OFF", "OFF", "BOOTING", "SHUTTING_DOWN"])
        if spec["init"] == "BOOTING":
            spec["up_cd"] = rng.choice([0, 1, 2])
        if spec["init"] == "SHUTTING_DOWN":
            spec["down_cd"] = rng.choice([0, 1, 2])
            spec["resetting"] = rng.chance(1, 2)
    return case


def gen_random_scenario(rng: Rng, max_ops: int) -> dict:
    durs = [(rng.choice([0, 1, 2, 3]), rng.choice([0, 1, 2, 3])) for _ in range(6)]
    case = scenario_case(durs, [])
    ops, uniq = [], [0]
    n = rng.range(6, max_ops)
    focus = rng.below(6)
    for _ in range(n):
        r = rng.below(20)
        node = focus if rng.chance(1, 2) else rng.below(6)
        cls = case["nodes"][node]["cls"]
        if r < 5:
            ops.append({"op": "tick"})
        elif r < 8:
            ops.append({"op": "req", "node": node, "key": "shutdown"})
        elif r < 11:
            ops.append({"op": "req", "node": node, "key": "startup"})
        elif r < 13:
            ops.append({"op": "req", "node": node, "key": "reset"})
        elif r < 15:
            ops.append({"op": "traffic", "src": rng.below(2), "dst": rng.choice(["192.168.1.2", "192.168.1.3", "192.168.1.1", "10.0.0.1", "10.0.0.2"])})
        elif r < 16:
            ops.append({"op": "inject", "node": node, "nic": rng.choice([1, 2, 3])})
        else:
            ops.append(other_request(rng, node, cls, uniq))
    case["ops"] = ops
    return case


def exhaustive_pair(depth: int, durs: Tuple[int, int, int, int]):
    """every sequence of length `depth` over the 7-letter alphabet of DESIGN §5/C12, node 0 being the one under test"""
    for seq in itertools.product(range(len(ALPHABET_PAIR)), repeat=depth):
        yield pair_case(durs[0], durs[1], durs[2], durs[3], [dict(ALPHABET_PAIR[i]) for i in seq])


# ------------------------------------------------------------------------------------------------ implementation side
class Probe:
    """in-process wrappers: assignments to operating_state, frames passing an interface of a node that is not ON, and the
    sub-component pre_timestep / apply_timestep calls a node makes in a tick"""

    def __init__(self):
        self.state_log: List[Tuple[int, str]] = []
        self.frame_events: Dict[str, int] = {}
        self.bad_frames: List[str] = []
        self.work_log: List[Tuple[str, int]] = []   # (tag, id of the owning component: software / file system / interface)
        self.bad_upper: List[str] = []  # a layer above the interface (node / session manager / software manager / software) entered on a non-ON node
        self.upper_events: Dict[str, int] = {}
        self._undo = []

    def install(self):
        from primaite.simulator.file_system.file_system import FileSystem
        from primaite.simulator.network.airspace import WirelessNetworkInterface
        from primaite.simulator.network.hardware.base import NetworkInterface, Node, WiredNetworkInterface
        from primaite.simulator.network.hardware.node_operating_state import NodeOperatingState
        from primaite.simulator.network.hardware.nodes.host.host_node import NIC
        from primaite.simulator.network.hardware.nodes.network.router import RouterInterface
        from primaite.simulator.network.hardware.nodes.network.switch import SwitchPort
        from primaite.simulator.network.hardware.nodes.network.wireless_router import WirelessAccessPoint
        from primaite.simulator.system.applications.application import Application
        from primaite.simulator.system.services.service import Service
        from primaite.simulator.system.software import Software
        probe = self
        orig_set = Node.__setattr__

        def set_attr(self_, name, value):
            if name == "operating_state":
                probe.state_log.append((id(self_), value.name))
            return orig_set(self_, name, value)
        Node.__setattr__ = set_attr
        self._undo.append(lambda: setattr(Node, "__setattr__", orig_set))

        def wrap(cls, meth, direction):
            orig = cls.__dict__[meth]

            def w(self_, frame, *a, **k):
                node = self_._connected_node
                before_on = node is not None and node.operating_state == NodeOperatingState.ON
                was_enabled = self_.enabled
                res = orig(self_, frame, *a, **k)
                key = f"{direction}:{'on' if before_on else 'not-on'}:{'enabled' if was_enabled else 'disabled'}"
                probe.frame_events[key] = probe.frame_events.get(key, 0) + 1
                if node is not None and not before_on and (was_enabled or res):
                    probe.bad_frames.append(f"{cls.__name__}.{meth} on {node.config.hostname} ({node.operating_state.name}): "
                                            f"enabled={was_enabled} returned={res}")
                return res
            setattr(cls, meth, w)
            self._undo.append(lambda: setattr(cls, meth, orig))
        wrap(NIC, "receive_frame", "in")
        wrap(RouterInterface, "receive_frame", "in")
        wrap(SwitchPort, "receive_frame", "in")
        wrap(SwitchPort, "send_frame", "out")
        wrap(WiredNetworkInterface, "send_frame", "out")
        wrap(WirelessNetworkInterface, "send_frame", "out")
        wrap(WirelessAccessPoint, "receive_frame", "in")

        active: set = set()

        def count(root, meth, tagger):
            """wrap `meth` wherever it is defined at or below `root`; an object's outermost call is counted once (an override may
            or may not call super(): UserSessionManager.pre_timestep does not)"""
            todo, seen = [root], set()
            while todo:
                cls = todo.pop()
                if cls in seen:
                    continue
                seen.add(cls)
                todo += cls.__subclasses__()
                if meth not in cls.__dict__:
                    continue
                orig = cls.__dict__[meth]

                def w(self_, *a, _orig=orig, **k):
                    key = (id(self_), meth)
                    if key in active:
                        return _orig(self_, *a, **k)
                    tag = tagger(self_)
                    if tag:
                        probe.work_log.append((tag, id(self_)))
                    active.add(key)
                    try:
                        return _orig(self_, *a, **k)
                    finally:
                        active.discard(key)
                setattr(cls, meth, w)
                self._undo.append(lambda cls=cls, orig=orig: setattr(cls, meth, orig))

        def upper(root, meth, layer, node_of):
            """oracle for "it does not process traffic": the layers above the interface of a node that is not ON are never entered"""
            todo, seen = [root], set()
            while todo:
                cls = todo.pop()
                if cls in seen:
                    continue
                seen.add(cls)
                todo += cls.__subclasses__()
                if meth not in cls.__dict__:
                    continue
                orig = cls.__dict__[meth]

                def w(self_, *a, _orig=orig, _cls=cls, **k):
                    key = (id(self_), "upper:" + meth)
                    if key not in active:
                        try:
                            node = node_of(self_)
                        except Exception:
                            node = None
                        if node is not None:
                            on = node.operating_state == NodeOperatingState.ON
                            ev = f"{layer}:{'on' if on else 'not-on'}"
                            probe.upper_events[ev] = probe.upper_events.get(ev, 0) + 1
                            if not on:
                                probe.bad_upper.append(f"{layer}|{type(self_).__name__}.{meth} on {node.config.hostname} "
                                                       f"({node.operating_state.name})")
                        active.add(key)
                        try:
                            return _orig(self_, *a, **k)
                        finally:
                            active.discard(key)
                    return _orig(self_, *a, **k)
                setattr(cls, meth, w)
                self._undo.append(lambda cls=cls, orig=orig: setattr(cls, meth, orig))
        from primaite.simulator.system.core.session_manager import SessionManager
        from primaite.simulator.system.core.software_manager import SoftwareManager
        upper(Node, "receive_frame", "node", lambda o: o)
        upper(SessionManager, "receive_frame", "sess", lambda o: o.node)
        upper(SoftwareManager, "receive_payload_from_session_manager", "swmgr", lambda o: o.node)
        upper(Software, "receive", "software", lambda o: o.software_manager.node if o.software_manager else None)

        def sw(prefix):
            return lambda o: prefix + ("s" if isinstance(o, Service) else "a" if isinstance(o, Application) else "")
        count(Software, "apply_timestep", sw("t"))
        count(Software, "pre_timestep", sw("p"))
        count(FileSystem, "apply_timestep", lambda o: "tf")
        count(FileSystem, "pre_timestep", lambda o: "pf")
        count(NetworkInterface, "apply_timestep", lambda o: "tn")
        count(NetworkInterface, "pre_timestep", lambda o: "pn")

    def remove(self):
        for u in reversed(self._undo):
            u()
        self._undo = []


def _host(k, spec, d, kind):
    c = spec["cls"]
    host_ips = {"computer": "192.168.1.2", "server": "192.168.1.3", "printer": "192.168.1.4", "host-node": "192.168.1.5"}
    cfg = {"type": c, "ip_address": spec.get("ip", host_ips[c]), "subnet_mask": "255.255.255.0", **d}
    if spec.get("init"):  # a node that the scenario file declares not ON, possibly in mid-transition
        cfg["operating_state"] = spec["init"]
        cfg["start_up_countdown"] = spec.get("up_cd", 0)
        cfg["shut_down_countdown"] = spec.get("down_cd", 0)
        cfg["is_resetting"] = bool(spec.get("resetting", False))
    if spec.get("gw"):
        cfg["default_gateway"] = spec["gw"]
    elif kind == "scenario":
        cfg["default_gateway"] = "192.168.1.1"
    return k.from_config(cfg)


def build(case: dict):
    from primaite.simulator.network.hardware.nodes.host.computer import Computer
    from primaite.simulator.network.hardware.nodes.host.host_node import HostNode
    from primaite.simulator.network.hardware.nodes.host.server import Printer, Server
    from primaite.simulator.network.hardware.nodes.network.firewall import Firewall
    from primaite.simulator.network.hardware.nodes.network.router import Router
    from primaite.simulator.network.hardware.nodes.network.switch import Switch
    from primaite.simulator.network.hardware.nodes.network.wireless_router import WirelessRouter
    from primaite.simulator.sim_container import Simulation
    if case["kind"] == "load":
        from primaite.game.game import PrimaiteGame
        game = PrimaiteGame.from_config(load_cfg(case))
        sim = game.simulation
        by_name = {n.config.hostname: n for n in sim.network.nodes.values()}
        return sim, [by_name[f"l{i}"] for i in range(len(case["nodes"]))], game
    sim = Simulation()
    net = sim.network
    nodes = []
    fw_rule = {22: {"action": "PERMIT", "src_port": "ARP", "dst_port": "ARP"}, 23: {"action": "PERMIT", "protocol": "ICMP"}}
    for spec in case["nodes"]:
        d = {"hostname": spec["name"], "start_up_duration": spec["up"], "shut_down_duration": spec["down"]}
        c = spec["cls"]
        if c in HOST_CLASSES:
            k = {"computer": Computer, "server": Server, "printer": Printer, "host-node": HostNode}[c]
            n = _host(k, spec, d, case["kind"])
        elif c == "switch":
            n = Switch.from_config({"type": "switch", "num_ports": 4, **d})
        elif c == "router":
            pips = spec.get("port_ips") or {1: "192.168.1.1", 2: "10.0.0.1"}
            n = Router.from_config({"type": "router", "num_ports": 3, "ports": {
                int(q): {"ip_address": ip, "subnet_mask": "255.255.255.0"} for q, ip in sorted(pips.items(), key=lambda kv: int(kv[0]))}, **d})
        elif c == "firewall":
            if case["kind"] == "cls":   # external port towards A, internal port towards B, every ACL lets ARP and ICMP through
                pips = {int(q): ip for q, ip in (spec.get("port_ips") or {1: "192.168.1.1", 2: "10.0.0.1"}).items()}
                spare_ip = iter(["172.16.0.1", "172.16.1.1"])   # external and internal port must be configured
                fw_ports = {FW_PORT_NAME[q]: {"ip_address": pips.get(q) or next(spare_ip), "subnet_mask": "255.255.255.0"}
                            for q in (1, 2, 3) if q in pips or q in (1, 2)}
                n = Firewall.from_config({"type": "firewall", "ports": fw_ports,
                    "acl": {a: dict(fw_rule) for a in ("internal_inbound_acl", "internal_outbound_acl", "dmz_inbound_acl",
                                                       "dmz_outbound_acl", "external_inbound_acl", "external_outbound_acl")}, **d})
            else:
                n = Firewall.from_config({"type": "firewall", "ports": {
                    "external_port": {"ip_address": "10.0.0.2", "subnet_mask": "255.255.255.0"},
                    "internal_port": {"ip_address": "10.0.1.1", "subnet_mask": "255.255.255.0"}}, **d})
        elif c == "wireless-router":
            wired_ip, ap_ip = spec.get("wr_ips", ("10.0.2.1", "10.0.3.1"))
            n = WirelessRouter.from_config({"type": "wireless-router", "router_interface": {"ip_address": wired_ip, "subnet_mask": "255.255.255.0"},
                                            "wireless_access_point": {"ip_address": ap_ip, "subnet_mask": "255.255.255.0", "frequency": "WIFI_2_4"},
                                            **d}, airspace=net.airspace)
        else:
            raise ValueError(c)
        net.add_node(n)
        nodes.append(n)
    for a, pa, b, pb in case["links"]:
        net.connect(nodes[a].network_interface[pa], nodes[b].network_interface[pb])
    for n in nodes:  # short software timers so that restarts/installs complete inside short sequences
        for s in n.services.values():
            s.restart_duration = 2
        for a in n.applications.values():  # as Network.setup_for_episode does: applications of an ON node are opened
            a.run()
    return sim, nodes, None


def _nic_tokens(n) -> List[str]:
    from primaite.simulator.network.airspace import WirelessNetworkInterface
    out = []
    for port in sorted(n.network_interface):
        ni = n.network_interface[port]
        linked = True if isinstance(ni, WirelessNetworkInterface) else bool(getattr(ni, "_connected_link", None))
        out.append(("1" if ni.enabled else "0") + ("1" if linked else "0") + NIC_KIND[type(ni).__name__])
    return out


def snapshot(n) -> str:
    nics = _nic_tokens(n)
    svcs = []
    for s in n.services.values():
        st = SVC_CODE[s.operating_state.name]
        svcs.append(f"T:{s.restart_countdown}" if st == "T" else st)
    apps = []
    for a in n.applications.values():
        st = APP_CODE[a.operating_state.name]
        apps.append(f"I:{a.install_countdown}" if st == "I" else st)

    def j(xs):
        return ",".join(xs) if xs else "-"
    c = n.config
    return (f"st={n.operating_state.name} up={c.start_up_countdown} down={c.shut_down_countdown} rs={'1' if c.is_resetting else '0'} "
            f"nics={j(nics)} svcs={j(svcs)} apps={j(apps)} scan={n.node_scan_countdown},{n.red_scan_countdown}")


def node_line(spec: dict, n) -> str:
    """the `node ...` line that loads the implementation's initial state into the model"""
    nics = _nic_tokens(n)
    svcs = [f"{SVC_CODE[s.operating_state.name]}:{s.restart_countdown or 0}:{s.restart_duration}" for s in n.services.values()]
    apps = [f"{APP_CODE[a.operating_state.name]}:{a.install_countdown or 0}:{a.install_duration}" for a in n.applications.values()]

    def j(xs):
        return ",".join(xs) if xs else "-"
    c = n.config
    return (f"node {spec['cls']} {n.operating_state.name} {c.start_up_duration} {c.shut_down_duration} {c.start_up_countdown} "
            f"{c.shut_down_countdown} {'1' if c.is_resetting else '0'} {j(nics)} {j(svcs)} {j(apps)} "
            f"{n.node_scan_countdown} {n.red_scan_countdown} {c.node_scan_duration}")


def load_line(decl: dict, n, wired: List[bool], dflt: Optional[dict] = None) -> str:
    """the `load ...` line: what the FILE declares (plus the inventory the file implies: interface kinds in port order,
    which ports the links wire, how many services / applications get installed); the model's loader computes the node"""
    kinds = "".join(t[2] for t in _nic_tokens(n))
    tok = lambda v: "-" if v is None else str(v)  # noqa: E731
    dflt = dflt or {}
    return (f"load {decl['cls']} {decl.get('init', '-')} {tok(decl.get('up'))} {tok(decl.get('down'))} {tok(dflt.get('up'))} {tok(dflt.get('down'))} "
            f"{decl.get('up_cd', 0)} {decl.get('down_cd', 0)} "
            f"{'1' if decl.get('resetting') else '0'} {kinds} {''.join('1' if w else '0' for w in wired)} "
            f"{len(n.services)} {len(n.applications)} {n.config.node_scan_duration}")


def sess_token(n) -> str:
    usm = n.user_session_manager
    if usm is None:
        return "s=L0,R0"
    return f"s=L{1 if usm.local_session is not None else 0},R{len(usm.remote_sessions)}"


def _svc_index(n, name: str) -> int:
    names = [s.name for s in n.services.values()]
    return names.index(name) if name in names else 99


def _app_index(n, name: str) -> int:
    names = [a.name for a in n.applications.values()]
    return names.index(name) if name in names else 99


def run_case(case: dict) -> Tuple[List[str], List[str], List[str], Dict[str, int]]:
    """Returns (model_lines, impl_lines aligned with them, oracle failures, frame-event histogram)."""
    from primaite.simulator.network.hardware.node_operating_state import NodeOperatingState
    probe = Probe()
    probe.install()
    try:
        sim, nodes, game = build(case)
        ids = {id(n): i for i, n in enumerate(nodes)}
        owner: Dict[int, int] = {}
        for i, n in enumerate(nodes):
            owner[id(n.file_system)] = i

        def owner_of(tag: str, oid: int, cache={}) -> Optional[int]:
            return owner.get(oid)
        lines: List[str] = ["reset"]
        impl: List[str] = ["ok"]
        oracle: List[str] = []
        cls_of = [spec["cls"] for spec in case["nodes"]]
        if case["kind"] == "load":
            wired_ports = {i: set() for i in range(len(nodes))}
            for l in load_cfg(case)["simulation"]["network"]["links"]:
                wired_ports[int(l["endpoint_a_hostname"][1:])].add(l["endpoint_a_port"])
                wired_ports[int(l["endpoint_b_hostname"][1:])].add(l["endpoint_b_port"])
            for i, (decl, n) in enumerate(zip(case["nodes"], nodes)):
                wired = [port in wired_ports[i] for port in sorted(n.network_interface)]
                lines.append(load_line(decl, n, wired, case.get("defaults")))
                impl.append(f"ok {i} {snapshot(n)}")
        else:
            for i, (spec, n) in enumerate(zip(case["nodes"], nodes)):
                lines.append(node_line(spec, n))
                impl.append(f"ok {i}")
        probe.state_log.clear()
        probe.work_log.clear()
        t = 0

        def traces() -> Dict[int, str]:
            per: Dict[int, List[str]] = {}
            for nid, name in probe.state_log:
                if nid in ids:
                    per.setdefault(ids[nid], []).append(name)
            probe.state_log.clear()
            return {k: ">".join(v) for k, v in per.items()}

        def work() -> Dict[int, str]:
            """per node: the sub-component calls of this tick, in first-seen order, with counts"""
            for i, n in enumerate(nodes):  # software / interfaces may have been installed since the last tick
                for s in list(n.services.values()) + list(n.applications.values()):
                    owner[id(s)] = i
                for ni in n.network_interfaces.values():
                    owner[id(ni)] = i
            per: Dict[int, Dict[str, int]] = {}
            for tag, oid in probe.work_log:
                i = owner.get(oid)
                if i is not None:
                    d = per.setdefault(i, {})
                    d[tag] = d.get(tag, 0) + 1
            probe.work_log.clear()
            out = {}
            for i, d in per.items():
                out[i] = ",".join(f"{tag}{'' if tag in ('pf', 'tf') else k}" for tag, k in d.items())
            return out

        def invariants(tag: str):
            for i, n in enumerate(nodes):
                if n.operating_state != NodeOperatingState.ON:
                    for port, ni in n.network_interface.items():
                        if ni.enabled:
                            oracle.append(f"nic-enabled-while-{n.operating_state.name}|{cls_of[i]}|after {tag}")
                if n.operating_state == NodeOperatingState.OFF:
                    for s in n.services.values():
                        if s.operating_state.name == "RUNNING":
                            oracle.append(f"service-running-while-OFF|{cls_of[i]}|{s.name} after {tag}")
                    for a in n.applications.values():
                        if a.operating_state.name == "RUNNING":
                            oracle.append(f"application-running-while-OFF|{cls_of[i]}|{a.name} after {tag}")

        def back_on(i: int, tr_i: Optional[str], tag: str):
            """independent of the model: an operation that assigned ON to the node (end of BOOTING, instant start-up, a reset
            completing) must leave every interface that can come up (a link is plugged in / wireless) enabled"""
            n = nodes[i]
            if not tr_i or tr_i.split(">")[-1] != "ON" or n.operating_state != NodeOperatingState.ON:
                return
            toks = _nic_tokens(n)
            down = [f"{port}" for port, tok in zip(sorted(n.network_interface), toks) if tok[1] == "1" and tok[0] == "0"]
            probe.frame_events["back-on:" + ("all-linked-up" if not down else "linked-left-down")] = \
                probe.frame_events.get("back-on:" + ("all-linked-up" if not down else "linked-left-down"), 0) + 1
            if down:
                oracle.append(f"interface-down-after-return-to-on|{cls_of[i]}|linked port(s) {','.join(down)} of {len(toks)} still disabled after {tag} "
                              f"(interfaces {','.join(toks)})")
        if case["kind"] == "load":
            invariants("loading")
        # reference for user sessions: (node index) -> {"local": last_active or None, "remote": [last_active, ...]}
        sess_ref = {i: {"local": None, "remote": []} for i in range(len(nodes))}
        sess_now = {i: 0 for i in range(len(nodes))}   # UserSessionManager.current_timestep as the reference sees it
        tmo = case.get("session_timeout")
        if tmo:
            for i, n in enumerate(nodes):
                n.user_session_manager.local_session_timeout_steps = tmo
                n.user_session_manager.remote_session_timeout_steps = tmo
                lines.append(f"sesscfg {i} {tmo} {tmo} {n.user_session_manager.max_remote_sessions}")
                impl.append("ok")

        for k, op in enumerate(case["ops"]):
          nb = len(probe.bad_frames)
          nu = len(probe.bad_upper)
          kind = op["op"]
          try:
              if kind == "tick":
                  before = [n.operating_state for n in nodes]
                  clocks = [_clocks(n) for n in nodes]
                  sim.pre_timestep(t)
                  if tmo:   # the reference: a session idle for `tmo` steps ends at this pre_timestep, whatever the node's power state
                      for i, n in enumerate(nodes):
                          ref = sess_ref[i]
                          sess_now[i] = t
                          was = (ref["local"] is not None, len(ref["remote"]))
                          if ref["local"] is not None and ref["local"] + tmo <= t:
                              ref["local"] = None
                          ref["remote"] = [x for x in ref["remote"] if not (x + tmo <= t)]
                          usm = n.user_session_manager
                          seen = (usm.local_session is not None, len(usm.remote_sessions))
                          want = (ref["local"] is not None, len(ref["remote"]))
                          if seen != want:
                              oracle.append(f"session-timeout-differs-from-power-blind-reference|{cls_of[i]}|tick {t} {n.operating_state.name}: "
                                            f"(local, #remote) seen {seen} expected {want}")
                          if want != was:
                              probe.frame_events[f"session-timed-out:{'ON' if before[i] == NodeOperatingState.ON else 'not-ON'}"] = \
                                  probe.frame_events.get(f"session-timed-out:{'ON' if before[i] == NodeOperatingState.ON else 'not-ON'}", 0) + 1
                  sim.apply_timestep(t)
                  t += 1
                  tr = traces()
                  wk = work()
                  for i, n in enumerate(nodes):
                      lines.append(f"tick {i} {t - 1}")
                      impl.append(f"done h={tr.get(i, '-')} w={wk.get(i, '')} {snapshot(n)} {sess_token(n)}")
                      back_on(i, tr.get(i), f"tick {k}")
                      # oracle (independent of the model): a node that is not ON before and after the tick moved no software clock
                      if before[i] != NodeOperatingState.ON and n.operating_state != NodeOperatingState.ON and _clocks(n) != clocks[i]:
                          oracle.append(f"software-clock-moved-while-not-on|{cls_of[i]}|{clocks[i]} -> {_clocks(n)} in tick {k}")
                      if n.operating_state != NodeOperatingState.ON and any(x in wk.get(i, "") for x in ("ts", "ta", "tf")):
                          oracle.append(f"software-ticked-while-not-on|{cls_of[i]}|{wk.get(i)} in tick {k}")
              elif kind == "req":
                  i = op["node"]
                  n = nodes[i]
                  key = op["key"]
                  was_on = n.operating_state == NodeOperatingState.ON
                  if key in ("shutdown", "startup", "reset"):
                      path, sub = [key], "opaque success"
                  elif key == "service":
                      path, sub = [key, op["svc"], op["verb"]], f"svc {_svc_index(n, op['svc'])} {op['verb']}"
                  elif key == "application":
                      path, sub = [key, op["app"], "close"], f"app {_app_index(n, op['app'])}"
                  elif key == "network_interface":
                      path, sub = [key, op["nic"], op["verb"]], f"nic {op['nic'] - 1} {op['verb']}"
                  elif key == "os" and op.get("path") == ["scan"]:
                      path, sub = [key, "scan"], "osscan"
                  else:
                      path, sub = [key, *op["path"]], f"opaque {op['expect']}"
                  try:
                      resp = sim.apply_request(["network", "node", n.config.hostname, *path], {})
                      status = resp.status
                  except Exception as e:  # a request must answer, not raise
                      status = f"raised:{type(e).__name__}"
                      oracle.append(f"request-raised|{cls_of[i]}|{key} {type(e).__name__}: {e}")
                  if not was_on and key != "startup" and status not in ("failure", "unreachable"):
                      oracle.append(f"request-accepted-while-not-on|{cls_of[i]}|{key} -> {status}")
                  tr = traces()
                  lines.append(f"req {i} {key} {sub}")
                  impl.append(f"{status} h={tr.get(i, '-')} {snapshot(n)}")
                  back_on(i, tr.get(i), f"request {key}")
                  for j, m in enumerate(nodes):  # nothing may happen to the other nodes' power state
                      if j != i and j in tr:
                          oracle.append(f"foreign-state-change|{cls_of[j]}|{tr[j]} during request to node {i}")
              elif kind == "ping":
                  src, dst = nodes[op["src"]], nodes[op["dst"]]
                  dst_ip = dst.network_interface[1].ip_address
                  dst_on = dst.operating_state == NodeOperatingState.ON
                  src_on = src.operating_state == NodeOperatingState.ON
                  # ICMPPacket treats identifier 0 as "unset" and draws a new one (protocols/icmp.py), so one ping in 65536 loses its
                  # reply although both nodes are up (not a C12 matter; noted for C08). A ping has no effect on the modelled state,
                  # so a failed ping is tried once more; a power-gating failure is deterministic and fails both times.
                  ok = bool(src.ping(dst_ip, pings=1)) or bool(src.ping(dst_ip, pings=1))
                  if ok and not (dst_on and src_on):
                      oracle.append(f"ping-succeeded-with-node-not-on|{cls_of[op['dst']]}|src_on={src_on} dst_on={dst_on}")
                  lines.append(f"ping {op['src']} {op['dst']}")
                  impl.append("1" if ok else "0")
                  traces()
              elif kind == "pingpath":  # a ping to / through the node under test; every interface it must cross is named
                  src_i, ip, hops = case["pings"][op["name"]]
                  src = nodes[src_i]
                  on_path = sorted({src_i} | {h[0] for h in hops})
                  all_on = all(nodes[j].operating_state == NodeOperatingState.ON for j in on_path)
                  ok = bool(src.ping(ip, pings=1)) or bool(src.ping(ip, pings=1))
                  if ok and not all_on:
                      off = [f"{cls_of[j]}:{nodes[j].operating_state.name}" for j in on_path if nodes[j].operating_state != NodeOperatingState.ON]
                      oracle.append(f"ping-succeeded-with-node-not-on|{cls_of[0]}|{op['name']} crossed {off}")
                  lines.append(f"pingpath {src_i} " + " ".join(f"{a}:{b}" for a, b in hops))
                  impl.append("1" if ok else "0")
                  traces()
              elif kind == "login":   # straight at the user session manager (the `logon` request is a stub that always fails)
                  i = op["node"]
                  n = nodes[i]
                  usm = n.user_session_manager
                  on = n.operating_state == NodeOperatingState.ON
                  if op.get("remote"):
                      peer_ip = nodes[1 - i].network_interface[1].ip_address
                      had = len(usm.remote_sessions)
                      sid = usm.remote_login("admin", "admin", peer_ip)
                      if sid and len(usm.remote_sessions) > had:
                          sess_ref[i]["remote"].append(sess_now[i])
                  else:
                      fresh = usm.local_session is None
                      sid = usm.local_login("admin", "admin")
                      if sid and fresh:
                          sess_ref[i]["local"] = sess_now[i]
                  if sid and not on:
                      oracle.append(f"login-succeeded-while-not-on|{cls_of[i]}|{n.operating_state.name}")
                  probe.frame_events[f"login:{'ON' if on else 'not-ON'}:{'ok' if sid else 'refused'}"] = \
                      probe.frame_events.get(f"login:{'ON' if on else 'not-ON'}:{'ok' if sid else 'refused'}", 0) + 1
                  lines.append(f"login {i} {_svc_index(n, 'user-session-manager')} {'remote' if op.get('remote') else 'local'}")
                  impl.append(f"{'ok' if sid else 'refused'} {sess_token(n)}")
                  traces()
              elif kind == "traffic":  # scenario scale: ping an address somewhere in the network; only the oracles look at it
                  try:
                      nodes[op["src"]].ping(op["dst"], pings=1)
                  except Exception as e:
                      oracle.append(f"traffic-raised|{cls_of[op['src']]}|{type(e).__name__}: {e}")
                  traces()
              elif kind == "inject":  # hand a frame straight to an interface
                  n = nodes[op["node"]]
                  ni = n.network_interface.get(op["nic"])
                  if ni is not None:
                      before_up = dict(probe.upper_events)
                      ok = _inject(ni, op.get("frame", "udp"))
                      lines.append(f"in {op['node']} {op['nic'] - 1}")
                      impl.append("1" if ok else "0")
                      # dynamic cross-check of the entry-point table: did this hand-over reach the node's receive_frame?
                      climbed = sum(v - before_up.get(k2, 0) for k2, v in probe.upper_events.items() if k2.startswith("node:"))
                      key = (f"entry:{type(ni).__name__}:{'ON' if n.operating_state == NodeOperatingState.ON else n.operating_state.name}:"
                             f"{'enabled' if ni.enabled else 'disabled'}:{'reached-node' if climbed else 'stopped-at-interface'}")
                      probe.frame_events[key] = probe.frame_events.get(key, 0) + 1
                      if climbed and not ni.enabled:
                          oracle.append(f"frame-handed-to-node-by-disabled-interface|{type(ni).__name__}|{cls_of[op['node']]} "
                                        f"{n.operating_state.name} frame={op.get('frame', 'udp')}")
                  traces()
              elif kind == "appinstall":   # kept for the stored corpus: `Application.install()` through the Python API
                  n = nodes[op["node"]]
                  j = _app_index(n, op["app"])
                  if j != 99:
                      list(n.applications.values())[j].install()
                      lines.append(f"api {op['node']} appinstall {j}")
                      impl.append(f"done h=- {snapshot(n)}")
              elif kind == "api":  # the Python API, no request and no validator in front of it
                  i = op["node"]
                  n = nodes[i]
                  call = op["call"]
                  line = None
                  if call == "poweron":
                      n.power_on(); line = "poweron"
                  elif call == "poweroff":
                      n.power_off(); line = "poweroff"
                  elif call == "reset":
                      n.reset(); line = "reset"
                  elif call in ("nicenable", "nicdisable"):
                      ni = n.network_interface.get(op["nic"])
                      if ni is not None:
                          (ni.enable if call == "nicenable" else ni.disable)()
                          line = f"{call} {op['nic'] - 1}"
                  elif call == "svc":
                      j = _svc_index(n, op["svc"])
                      if j != 99:
                          getattr(list(n.services.values())[j], op["verb"])()
                          line = f"svc {j} {op['verb']}"
                  elif call in ("apprun", "appclose", "appinstall"):
                      j = _app_index(n, op["app"])
                      if j != 99:
                          getattr(list(n.applications.values())[j], {"apprun": "run", "appclose": "close", "appinstall": "install"}[call])()
                          line = f"{call} {j}"
                  else:
                      raise ValueError(call)
                  tr = traces()
                  if line is not None:
                      lines.append(f"api {i} {line}")
                      impl.append(f"done h={tr.get(i, '-')} {snapshot(n)}")
              elif kind == "setdur":   # the configured durations are plain mutable attributes of node.config
                  i = op["node"]
                  n = nodes[i]
                  n.config.start_up_duration = op["up"]
                  n.config.shut_down_duration = op["down"]
                  lines.append(f"setdur {i} {op['up']} {op['down']}")
                  impl.append(f"done h=- {snapshot(n)}")
              elif kind == "setup":    # what PrimaiteGymEnv.reset() does after from_config
                  if game is not None:
                      game.setup_for_episode(episode=1)
                  else:
                      sim.setup_for_episode(episode=1)
                  tr = traces()
                  for i, n in enumerate(nodes):
                      lines.append(f"setup {i}")
                      impl.append(f"done h={_dedup(tr.get(i, '-'))} {snapshot(n)}")
              else:
                  raise ValueError(kind)
          except Exception as e:
            # an operation of the IMPLEMENTATION raised (innermost frame under src/primaite): a finding, not a machinery error;
            # the case stops here because the objects may be half-updated
            import traceback
            tb = traceback.extract_tb(e.__traceback__)
            if not tb or "/src/primaite/" not in tb[-1].filename:
                raise
            where = f"{tb[-1].filename.split('/src/primaite/')[-1]}:{tb[-1].name}"
            oracle.append(f"operation-raised|{cls_of[op.get('node', 0)] if isinstance(op.get('node', 0), int) else '?'}|{kind} {type(e).__name__}: {e} in {where}")
            break
          for b in probe.bad_frames[nb:]:
              oracle.append(f"frame-passed-interface-of-node-not-on|{b.split(' on ')[0]}|{b} during op {k} {op}")
          for b in probe.bad_upper[nu:]:
              oracle.append(f"frame-processed-above-interface-while-not-on|{b.split(' on ')[0]}|{b} during op {k} {op}")
          invariants(f"op {k} {op}")
        fe = dict(probe.frame_events)
        for ev, v in probe.upper_events.items():
            fe["above-interface:" + ev] = v
        return lines, impl, oracle, fe
    finally:
        probe.remove()


def _dedup(tr: str) -> str:
    return tr


def _clocks(n):
    return ([s.restart_countdown for s in n.services.values()], [a.install_countdown for a in n.applications.values()],
            n.node_scan_countdown, n.red_scan_countdown)


def _inject(ni, what: str = "udp") -> bool:
    """hand a frame straight to an interface: `udp` = unicast UDP to a closed port, `icmp` = unicast echo request (climbs to
    the ICMP service of an ON node), `bcast` = UDP to the broadcast MAC (switch ports take anything)"""
    from ipaddress import IPv4Address
    from primaite.simulator.network.protocols.icmp import ICMPPacket, ICMPType
    from primaite.simulator.network.transmission.data_link_layer import EthernetHeader, Frame
    from primaite.simulator.network.transmission.network_layer import IPPacket
    from primaite.simulator.network.transmission.transport_layer import UDPHeader
    dst_ip = getattr(ni, "ip_address", IPv4Address("192.168.1.77"))
    dst_mac = "ff:ff:ff:ff:ff:ff" if what == "bcast" else ni.mac_address
    if what == "icmp":
        f = Frame(ethernet=EthernetHeader(src_mac_addr="aa:bb:cc:dd:ee:01", dst_mac_addr=dst_mac),
                  ip=IPPacket(src_ip_address=IPv4Address("192.168.1.99"), dst_ip_address=dst_ip, protocol="icmp"),
                  icmp=ICMPPacket(icmp_type=ICMPType.ECHO_REQUEST, identifier=7, sequence=1))
    else:
        f = Frame(ethernet=EthernetHeader(src_mac_addr="aa:bb:cc:dd:ee:01", dst_mac_addr=dst_mac),
                  ip=IPPacket(src_ip_address=IPv4Address("192.168.1.99"), dst_ip_address=dst_ip, protocol="udp"),
                  udp=UDPHeader(src_port=4444, dst_port=4444))
    return bool(ni.receive_frame(f))


def route_tables() -> Dict[str, List[Tuple[str, str]]]:
    """run-time cross-check of Gen.Power.classTables: keys and validator classes of live nodes' request managers"""
    case = scenario_case([(0, 0)] * 6, [])
    case["nodes"].append({"cls": "printer", "name": "m6", "up": 0, "down": 0})
    case["nodes"].append({"cls": "host-node", "name": "m7", "up": 0, "down": 0})
    _, nodes, _ = build(case)
    out = {}
    names = {"_NodeIsOnValidator": ".nodeOn", "_NodeIsOffValidator": ".nodeOff", "AllowAllValidator": ".none"}
    for spec, n in zip(case["nodes"], nodes):
        out[spec["cls"]] = [(k, names.get(type(rt.validator).__name__, "?" + type(rt.validator).__name__))
                            for k, rt in n._request_manager.request_types.items()]
    return out


def live_inventories() -> Tuple[Dict[str, Tuple[str, bool]], List[str]]:
    """run-time cross-check of the class inventories: Node._registry (discriminator -> class, abstract?) and the interface
    classes the driven nodes actually carry"""
    import inspect

    import primaite.game.game  # noqa: F401  (imports every node class, as the loader does)
    from primaite.simulator.network.hardware.base import Node
    reg = {d: (c.__name__, not inspect.isabstract(c)) for d, c in Node._registry.items()}
    case = scenario_case([(0, 0)] * 6, [])
    case["nodes"].append({"cls": "printer", "name": "m6", "up": 0, "down": 0})
    case["nodes"].append({"cls": "host-node", "name": "m7", "up": 0, "down": 0})
    _, nodes, _ = build(case)
    kinds = sorted({type(ni).__name__ for n in nodes for ni in n.network_interface.values()})
    return reg, kinds


# ------------------------------------------------------------------------------------------------ routes registered at run time
RT_TARGETS = (("OFF", 0, 0), ("OFF", 2, 2), ("SHUTTING_DOWN", 2, 2), ("BOOTING", 2, 2))


def _rt_apps() -> List[str]:
    import primaite.game.game  # noqa: F401  (registers every application class)
    from primaite.simulator.system.applications.application import Application
    return sorted(Application._registry)


def runtime_install_cases() -> List[dict]:
    """an application installed DURING the episode (through the `software_manager application install` request, and through
    `SoftwareManager.install`, the two run-time registration sites), on a computer and a server, every application class of the
    registry that the node does not carry yet; then the node is taken to OFF (instantly / after the countdown), SHUTTING_DOWN or
    BOOTING, and EVERY leaf of the node's live request tree (every verb of every route, those registered at run time included)
    is sent"""
    out = []
    for cls in ("computer", "server"):
        for app in _rt_apps():
            for via in ("request", "software_manager"):
                for target, up, down in RT_TARGETS:
                    out.append({"kind": "rtinstall", "cls": cls, "app": app, "via": via, "target": target, "up": up, "down": down})
    return out


def _live_leaves(rm, prefix: Tuple, depth: int = 0) -> List[Tuple]:
    """every path of a live request tree; a route whose function is another manager — or a bound method of a component that owns
    one (`apply_request`, the shape of seeded C11-h) — is descended into"""
    from primaite.simulator.core import RequestManager
    out = []
    for key, rt in rm.request_types.items():
        f = rt.func
        sub = f if isinstance(f, RequestManager) else getattr(getattr(f, "__self__", None), "_request_manager", None)
        if isinstance(sub, RequestManager) and depth < 8:
            inner = _live_leaves(sub, prefix + (key,), depth + 1)
            out += inner if inner else [prefix + (key,)]
        else:
            out.append(prefix + (key,))
    return out


def run_rtinstall(case: dict) -> Tuple[List[str], Dict[str, int]]:
    """Returns (failures `oracle|cls|detail`, histogram)."""
    import json as _json
    from primaite.simulator.network.hardware.node_operating_state import NodeOperatingState
    from primaite.simulator.system.applications.application import Application
    hist: Dict[str, int] = {}
    fails: List[str] = []
    cls, app = case["cls"], case["app"]
    sim, nodes, _ = build(pair_case(case["up"], case["down"], 1, 1, [], cls=(cls, "computer")))
    n = nodes[0]
    host = n.config.hostname
    t = [0]

    def tick():
        sim.pre_timestep(t[0])
        sim.apply_timestep(t[0])
        t[0] += 1

    def req(path):
        try:
            return sim.apply_request(["network", "node", host, *path], {}).status
        except Exception as e:
            return f"raised:{type(e).__name__}: {e}"
    had = app in n.software_manager.software
    if case["via"] == "request":
        st = req(["software_manager", "application", "install", app])
        if st != "success":
            fails.append(f"runtime-install-refused-while-on|{cls}|{app}: {st}")
            return fails, hist
    elif not had:
        n.software_manager.install(Application._registry[app])
    hist["installed-at-run-time" if not had else "already-installed"] = 1
    for _ in range(4):
        tick()
    inst = n.software_manager.software.get(app)
    if inst is None or app not in n._application_request_manager.request_types:
        fails.append(f"runtime-install-left-no-route|{cls}|{app}")
        return fails, hist
    app_leaves = [p for p in _live_leaves(n._request_manager, ()) if p[:2] == ("application", app)]
    hist["verbs-of-the-installed-application"] = len(app_leaves)
    if not app_leaves:
        fails.append(f"runtime-install-left-no-route|{cls}|{app}: no leaf below application/{app}")
    # --- take the node out of ON
    if req(["shutdown"]) != "success":
        fails.append(f"shutdown-refused-while-on|{cls}|{app}")
        return fails, hist
    if case["target"] in ("OFF", "BOOTING"):
        for _ in range(case["down"] + 1 if case["down"] > 0 else 0):
            tick()
    if case["target"] == "BOOTING":
        req(["startup"])
    if n.operating_state.name != case["target"]:
        fails.append(f"rig-did-not-reach-target|{cls}|{n.operating_state.name} != {case['target']}")
        return fails, hist
    leaves = _live_leaves(n._request_manager, ())
    hist["leaves-sent"] = 0
    before = _json.dumps(n.describe_state(), sort_keys=True, default=str)
    st_before = n.operating_state
    only = tuple(case["only"]) if case.get("only") else None    # a replay sends the one failing request
    for p in leaves:
        if p == ("startup",) and case["target"] == "OFF":
            continue   # the one request an OFF node accepts
        for tail in ((), ("x",)):
            if only is not None and tuple(map(str, p + tail)) != only:
                continue
            s = req(list(p) + list(tail))
            hist["leaves-sent"] += 1
            rt = "runtime" if p[:2] == ("application", app) else "other"
            hist[f"answer:{rt}:{s.split(':')[0]}"] = hist.get(f"answer:{rt}:{s.split(':')[0]}", 0) + 1
            if s != "failure":
                fails.append(f"runtime-tree-request-accepted-while-not-on|{cls}|{'/'.join(map(str, p + tail))} -> {s} with the node {case['target']} "
                             f"({app} installed at run time via {case['via']})")
    if n.operating_state != st_before or _json.dumps(n.describe_state(), sort_keys=True, default=str) != before:
        fails.append(f"refused-requests-changed-the-node|{cls}|{case['target']} ({app} via {case['via']})")
    return fails, hist


# ------------------------------------------------------------------------------------------------ the interfaces' own methods, probed
def iface_probe() -> Dict[str, str]:
    """REAL interface objects of every class a node carries, standalone (no node) and in a node in each power state, with and
    without a link, up and down: each translated `enable` / `disable` of the object's MRO is called (the base classes' unbound)
    and what happened — interface up afterwards, the answer, or that it raised — is keyed like the `table` lines of drv_c12prog.
    This validates the TRANSLATION (a dereference of a missing node raises, a Node / Link object is truthy, the statements
    classified inert do not touch `enabled`); it proves nothing about the property."""
    from primaite.simulator.network.airspace import AirSpace, WirelessNetworkInterface
    from primaite.simulator.network.hardware.base import IPWiredNetworkInterface, Link, WiredNetworkInterface
    from primaite.simulator.network.hardware.node_operating_state import NodeOperatingState
    from primaite.simulator.network.hardware.nodes.host.computer import Computer
    from primaite.simulator.network.hardware.nodes.host.host_node import NIC
    from primaite.simulator.network.hardware.nodes.network.router import Router, RouterInterface
    from primaite.simulator.network.hardware.nodes.network.switch import Switch, SwitchPort
    from primaite.simulator.network.hardware.nodes.network.wireless_router import WirelessAccessPoint, WirelessRouter
    from primaite.simulator.network.airspace import IPWirelessNetworkInterface
    mask = "255.255.255.0"
    uniq = [0]

    def host(k: int):
        uniq[0] += 1
        return Computer.from_config({"type": "computer", "hostname": f"p{uniq[0]}", "ip_address": f"10.7.{k}.{uniq[0] % 200 + 2}", "subnet_mask": mask,
                                     "start_up_duration": 0, "shut_down_duration": 0})

    def make(kind: str, has_node: bool):
        """(interface, node or None, a second free interface of the same kind to wire to)"""
        uniq[0] += 1
        if kind == "NIC":
            if has_node:
                a, b = host(1), host(1)
                return a.network_interface[1], a, b.network_interface[1]
            return NIC(ip_address="10.7.2.2", subnet_mask=mask), None, NIC(ip_address="10.7.2.3", subnet_mask=mask)
        if kind == "SwitchPort":
            if has_node:
                a = Switch.from_config({"type": "switch", "hostname": f"p{uniq[0]}a", "num_ports": 2})
                b = Switch.from_config({"type": "switch", "hostname": f"p{uniq[0]}b", "num_ports": 2})
                return a.network_interface[1], a, b.network_interface[1]
            return SwitchPort(), None, SwitchPort()
        if kind == "RouterInterface":
            if has_node:
                a = Router.from_config({"type": "router", "hostname": f"p{uniq[0]}a", "num_ports": 2,
                                        "ports": {1: {"ip_address": "10.7.3.1", "subnet_mask": mask}}})
                b = Router.from_config({"type": "router", "hostname": f"p{uniq[0]}b", "num_ports": 2,
                                        "ports": {1: {"ip_address": "10.7.3.2", "subnet_mask": mask}}})
                return a.network_interface[1], a, b.network_interface[1]
            return RouterInterface(ip_address="10.7.3.1", subnet_mask=mask), None, RouterInterface(ip_address="10.7.3.2", subnet_mask=mask)
        if kind == "WirelessAccessPoint":
            air = AirSpace()
            if has_node:
                a = WirelessRouter.from_config({"type": "wireless-router", "hostname": f"p{uniq[0]}", "router_interface": {"ip_address": "10.7.4.1", "subnet_mask": mask},
                                                "wireless_access_point": {"ip_address": "10.7.5.1", "subnet_mask": mask, "frequency": "WIFI_2_4"}}, airspace=air)
                ap = next(i for i in a.network_interfaces.values() if isinstance(i, WirelessAccessPoint))
                return ap, a, None
            return WirelessAccessPoint(ip_address="10.7.5.1", subnet_mask=mask, airspace=air), None, None
        raise ValueError(kind)

    METHODS = {
        "NIC": [("IPWiredNetworkInterface.enable", IPWiredNetworkInterface.enable), ("WiredNetworkInterface.enable", WiredNetworkInterface.enable),
                ("WiredNetworkInterface.disable", WiredNetworkInterface.disable), ("IPWiredNetworkInterface.enable", None), ("WiredNetworkInterface.disable", None)],
        "RouterInterface": [("IPWiredNetworkInterface.enable", None), ("WiredNetworkInterface.disable", None)],
        "SwitchPort": [("WiredNetworkInterface.enable", None), ("WiredNetworkInterface.disable", None)],
        "WirelessAccessPoint": [("IPWirelessNetworkInterface.enable", None), ("WirelessNetworkInterface.disable", None),
                                ("WirelessNetworkInterface.enable", WirelessNetworkInterface.enable), ("IPWirelessNetworkInterface.enable", IPWirelessNetworkInterface.enable)],
    }
    out: Dict[str, str] = {}
    for kind, meths in METHODS.items():
        code = NIC_KIND[kind]
        for mname, unbound in meths:
            for has_node in (False, True):
                for st in ([None] if not has_node else list(NodeOperatingState)):
                    for linked in ((False, True) if code != "w" else (True,)):
                        for en in (False, True):
                            iface, node, peer = make(kind, has_node)
                            if linked and peer is not None:
                                Link(endpoint_a=iface, endpoint_b=peer, bandwidth=100.0)
                            if node is not None:
                                node.operating_state = st
                            iface.enabled = en
                            if code == "w":
                                (iface.airspace.add_wireless_interface if en else iface.airspace.remove_wireless_interface)(iface)
                            hello = 1 if (node is not None and hasattr(node, "default_gateway_hello")) else 0
                            try:
                                ans = (unbound(iface) if unbound is not None else getattr(iface, mname.split(".")[1])())
                                res = "answer=None" if ans is None else f"answer={'true' if ans else 'false'}"
                            except Exception:
                                res = "RAISES"
                            l_after = linked if code == "w" else (iface._connected_link is not None)
                            after = f"{int(bool(iface.enabled))}{int(l_after)}{code}"
                            for l_row in ((0, 1) if code == "w" else (int(linked),)):   # the wireless bodies do not read the link
                                key = f"table {mname} {int(en)}{l_row}{code} {st.name if st is not None else 'None'} {hello}"
                                val = f"{after[0]}{l_row}{code} {res}"
                                if out.get(key, val) != val:
                                    val = out[key] + " / " + val   # two real objects of one context disagree
                                out[key] = val
    return out
