"""R-schema: the regenerated schematic request tree (E4) and action templates (E5) against the RUNNING code.

`schema_predicts_live(ctx)` builds shipped scenarios (initial state and perturbed states) and checks

1. tree   — walking the LIVE tree from `Simulation._request_manager` in lock-step with the schema: at every static manager
            the live key set equals the predicted one, each key has the predicted kind (leaf / manager), leads to the predicted
            manager (auxiliary manager or the root manager of a component of the predicted class) and carries the predicted
            validator (by class name and state); at every dynamic manager each live key has the predicted Python type, leads to
            the root manager of a component whose class the schema lists for that level, and software registers under the
            name the schema lists for its class.  Owners of managers are found through the garbage collector's object list
            (independent of the schema's navigation).
2. inventory — the object graph's components (nodes, software, NICs, folders, files) are all present as keys at their level
            (the `Inst` hypothesis of the Lean theorems); any other key there belongs to a DELETED folder / file (the code never
            removes those keys; they are guarded by the *NotDeleted validators).
3. templates — for every registered action, options naming live components: the real `form_request` returns exactly the
            regenerated template instantiated with those options (literals, slots, `str()` wrapping, dict payload keys);
            the set of registered identifiers equals the regenerated one.
4. model  — the Lean driver evaluates `present`, `instantiate`, `pathExistsK`-by-schema (`resolves`) and `routeVals` of
            Model/Schema.lean on the live inventory and the same options; the rig compares the path with the real request,
            reachability with a key-walk of the live tree, and the validator names with the live validators on that path.
"""
from __future__ import annotations

import gc
from typing import Any, Dict, List, Optional, Tuple

from harness.extract import action_templates as x_templ
from harness.extract import request_schema as x_schema
from harness.lib import scen
from harness.lib.core import Ctx, run_driver
from harness.rigs import request as rreq

EXE = "drv_c05x"
VALIDATOR_NAMES = {v: atom for (_, v), atom in x_schema.VALIDATOR_ATOMS.items() if _ is not None}
QUALIFIED = {(o, v): atom for (o, v), atom in x_schema.VALIDATOR_ATOMS.items()}


def atoms_of(validator) -> List[tuple]:
    """name a live validator object the way E4 names validator expressions"""
    cn = type(validator).__name__
    if cn == "AllowAllValidator":
        return []
    if cn == "_CombinedValidator":
        out = []
        for v in validator.validators:
            out += atoms_of(v)
        return out
    qual = type(validator).__qualname__.split(".")
    owner = qual[-2] if len(qual) >= 2 else None
    atom = QUALIFIED.get((owner, cn)) or QUALIFIED.get((None, cn))
    if atom is None:
        return [("unknown:" + type(validator).__qualname__,)]
    if atom in x_schema.STATE_ENUMS:
        return [(atom, validator.state.name)]
    return [(atom,)]


def owners_by_manager() -> Dict[int, Any]:
    from primaite.simulator.core import SimComponent
    out = {}
    for o in gc.get_objects():
        try:
            if isinstance(o, SimComponent):
                rm = getattr(o, "_request_manager", None)
                if rm is not None:
                    out[id(rm)] = o
        except Exception:
            continue
    return out


class TreeCheck:
    def __init__(self, ctx: Ctx, S: dict, scenario: str, rnd: int):
        from primaite.simulator.core import RequestManager
        self.ctx, self.S, self.scenario, self.rnd = ctx, S, scenario, rnd
        self.RM = RequestManager
        self.owners = owners_by_manager()
        self.bad: List[str] = []
        self.n_mgr = 0
        self.n_edges = 0

    def fail(self, where: str, what: str):
        self.bad.append(f"{where}: {what}")

    def walk(self, rm, mname: str, where: str, depth: int = 0):
        self.n_mgr += 1
        if depth > 20:
            self.fail(where, "nesting deeper than 20")
            return
        M = self.S["mgrs"].get(mname)
        if M is None:
            self.fail(where, f"schema has no manager {mname}")
            return
        live = rm.request_types
        if M["kind"] == "static":
            self.ctx.count("schema:static-manager")
            pred = M["edges"]
            if set(live.keys()) != set(pred.keys()):
                self.fail(where, f"[{mname}] key set differs: live-only {sorted(set(live) - set(pred), key=str)}, schema-only {sorted(set(pred) - set(live))}")
            for k, rt in live.items():
                if k not in pred:
                    continue
                self.n_edges += 1
                e = pred[k]
                is_mgr = isinstance(rt.func, self.RM)
                if is_mgr != (e["target"][0] == "sub"):
                    self.fail(where, f"[{mname}] key {k!r}: live {'manager' if is_mgr else 'leaf'} vs schema {e['target'][0]}")
                    continue
                la = atoms_of(rt.validator)
                if la != [tuple(a) for a in e["validator"]]:
                    self.fail(where, f"[{mname}] key {k!r}: live validator {la} vs schema {e['validator']}")
                if is_mgr:
                    tgt = e["target"][1]
                    if "." not in tgt:   # root manager of a component: the owner's class must be the predicted class
                        o = self.owners.get(id(rt.func))
                        if o is None:
                            self.fail(where, f"[{mname}] key {k!r}: sub-manager has no owning component (predicted {tgt})")
                        elif type(o).__name__ != tgt:
                            self.fail(where, f"[{mname}] key {k!r}: owner class {type(o).__name__} vs schema {tgt}")
                    self.walk(rt.func, tgt, where + [k] if isinstance(where, list) else where, depth + 1)
        else:
            self.ctx.count("schema:dynamic-manager:" + M["level"])
            pyty = {"str": str, "int": int}[M["keyty"]]
            for k, rt in live.items():
                self.n_edges += 1
                if type(k) is not pyty:
                    self.fail(where, f"[{mname}] key {k!r} has type {type(k).__name__}, schema says {M['keyty']}")
                if not isinstance(rt.func, self.RM):
                    self.fail(where, f"[{mname}] key {k!r} is a leaf at a dynamic level")
                    continue
                la = atoms_of(rt.validator)
                if la != [tuple(a) for a in M["validator"]]:
                    self.fail(where, f"[{mname}] key {k!r}: live validator {la} vs schema {M['validator']}")
                o = self.owners.get(id(rt.func))
                if o is None:
                    self.fail(where, f"[{mname}] key {k!r}: no owning component found")
                    continue
                cn = type(o).__name__
                if cn not in self.S["level_classes"][M["level"]]:
                    self.fail(where, f"[{mname}] key {k!r}: class {cn} is not listed for level {M['level']}")
                    continue
                if M["level"] in ("service", "application") and self.S["names"].get(cn) != k:
                    self.fail(where, f"[{mname}] key {k!r}: class {cn} registers under {self.S['names'].get(cn)!r} in the schema")
                self.ctx.count("schema:class:" + cn)
                self.walk(rt.func, cn, where + [k], depth + 1)


def inventory(sim) -> list:
    """[(level, key, class, children)] read from the OBJECT GRAPH (never from the request tree)."""
    from primaite.simulator.system.applications.application import Application
    from primaite.simulator.system.services.service import Service
    out = []
    for node in sim.network.nodes.values():
        ch = []
        for name, sw in node.software_manager.software.items():
            if isinstance(sw, Service):
                ch.append(("service", name, type(sw).__name__, []))
            elif isinstance(sw, Application):
                ch.append(("application", name, type(sw).__name__, []))
        for num, nic in node.network_interface.items():
            ch.append(("nic", num, type(nic).__name__, []))
        fs = node.file_system
        fs_files = []
        for folder in fs.folders.values():
            files = [("file", f.name, type(f).__name__, []) for f in folder.files.values()]
            ch.append(("folder", folder.name, type(folder).__name__, files))
            fs_files += files
        out.append(("node", node.config.hostname, type(node).__name__, ch))
    return out


def live_child(rm, path: List[Any]):
    cur = rm
    for k in path:
        rt = cur.request_types.get(k) if _hashable(k) else None
        if rt is None:
            return None
        cur = rt.func
    return cur


def _hashable(k) -> bool:
    try:
        hash(k)
        return True
    except TypeError:
        return False


def check_inventory(ctx: Ctx, sim, inv: list, S: dict, bad: List[str], where: str):
    """every component of the object graph is a key at its level, leading to ITS OWN manager; the level has no other keys"""
    from primaite.simulator.core import RequestManager
    root = sim._request_manager
    nodes_rm = live_child(root, ["network", "node"])
    if set(nodes_rm.request_types) != {k for (_, k, _, _) in inv}:
        bad.append(f"{where}: node level keys {sorted(nodes_rm.request_types)} vs object graph {sorted(k for (_, k, _, _) in inv)}")
    for (_, host, ncls, ch) in inv:
        node = sim.network.get_node_by_hostname(host)
        nrm = nodes_rm.request_types[host].func if host in nodes_rm.request_types else None
        if nrm is not node._request_manager:
            bad.append(f"{where}: node {host}: key does not lead to the node's own manager")
            continue
        levels = {"service": ["service"], "application": ["application"], "nic": ["network_interface"],
                  "folder": ["file_system", "folder"]}
        # The code never removes the key of a deleted folder / file (no remove_request in the file system): such keys stay and
        # are guarded by the *NotDeleted validators.  So: object graph (live components) ⊆ keys ⊆ live ∪ deleted components.
        fs = node.file_system
        deleted_folders = {f.name for f in fs.deleted_folders.values()}
        for lv, route in levels.items():
            m = live_child(nrm, route)
            want = {k for (l, k, _, _) in ch if l == lv}
            allowed = want | (deleted_folders if lv == "folder" else set())
            if m is None or not (want <= set(m.request_types) <= allowed):
                extra = sorted(set(m.request_types) - allowed, key=str) if m is not None else None
                missing = sorted(want - set(m.request_types), key=str) if m is not None else sorted(want, key=str)
                bad.append(f"{where}: node {host} level {lv}: unexplained live-only keys {extra}, object-graph-only {missing}")
            elif m is not None and set(m.request_types) - want:
                ctx.count("inventory:key-of-deleted-" + lv, len(set(m.request_types) - want))
            ctx.count("inventory:" + lv, len(want))
        for (l, fname, _, files) in ch:
            if l != "folder":
                continue
            m = live_child(nrm, ["file_system", "folder", fname, "file"])
            want = {k for (_, k, _, _) in files}
            folder = fs.get_folder(fname)
            allowed = want | {f.name for f in folder.deleted_files.values()}
            if m is None or not (want <= set(m.request_types) <= allowed):
                extra = sorted(set(m.request_types) - allowed) if m is not None else None
                missing = sorted(want - set(m.request_types)) if m is not None else sorted(want)
                bad.append(f"{where}: node {host} folder {fname} file level: unexplained live-only {extra}, object-graph-only {missing}")
            elif set(m.request_types) - want:
                ctx.count("inventory:key-of-deleted-file", len(set(m.request_types) - want))
            ctx.count("inventory:file", len(want))


# ------------------------------------------------------------------------------------------ templates vs form_request
def template_request(t: dict, config) -> Optional[List[Any]]:
    """the regenerated template instantiated with a real config object; None if an element cannot be rebuilt"""
    out = []
    for s in t["segs"]:
        if s[0] == "lit":
            out.append(s[1])
        elif s[0] == "slot":
            v = getattr(config, s[1])
            out.append(str(v) if s[5] else v)
        elif s[0] == "choice":
            v = getattr(config, s[1])
            out.append(str(v) if s[4] else v)
        else:
            d = s[1]
            if d.startswith("{"):
                out.append(("dict", [k.strip() for k in d[1:-1].split(",") if k.strip()]))
            else:
                name = d.split(":")[0]
                wrapped = name.startswith("str(")
                name = name[4:-1] if wrapped else name
                v = getattr(config, name)
                out.append(str(v) if wrapped else v)
    return out


def same_request(pred: List[Any], real: List[Any]) -> bool:
    if len(pred) != len(real):
        return False
    for p, r in zip(pred, real):
        if isinstance(p, tuple) and p[0] == "dict":
            if not isinstance(r, dict) or not set(r.keys()) <= set(p[1]):
                return False
        elif type(p) is not type(r) or p != r:
            return False
    return True


def enc_key(k: Any) -> str:
    return rreq.enc(k)


def inv_tokens(inv: list) -> List[str]:
    toks = [str(len(inv))]
    for (lv, k, c, ch) in inv:
        toks += [lv, enc_key(k), c] + inv_tokens(ch)
    return toks


def schema_predicts_live(ctx: Ctx, scenarios: Dict[str, Any], registry: Dict[str, Any], model_ok: bool = True):
    S = x_schema.as_python()
    T = x_templ.build()
    by_action: Dict[str, List[dict]] = {}
    for i, t in enumerate(T):
        t["index"] = i
        by_action.setdefault(t["action"], []).append(t)
    ok_reg = set(registry) == set(by_action)
    ctx.oblige("rig:R-schema registered action identifiers = regenerated templates' identifiers", "correspondence", ok_reg,
               f"registry-only {sorted(set(registry) - set(by_action))}, templates-only {sorted(set(by_action) - set(registry))}")
    rng = ctx.rng.fork("schema")
    bad_tree: List[str] = []
    bad_inv: List[str] = []
    bad_templ: List[str] = []
    lines: List[str] = []
    pending: List[dict] = []
    glines: List[str] = []
    gpending: List[dict] = []
    from harness.rigs import request_guards as rguards
    n_states = 0
    for name, path in scenarios.items():
        try:
            game = scen.make_game(scen.load_cfg(path))
        except Exception as e:
            ctx.notes.append(f"R-schema: scenario {name} not buildable: {type(e).__name__}")
            continue
        sim = game.simulation
        history: List[list] = []
        clock = [0]
        for rnd in range(ctx.scale(2, 4)):
            vocab = rreq._vocab(sim)
            if rnd:
                history += perturb_rec(rng, sim, registry, vocab, ctx.scale(12, 30), clock)
                vocab = rreq._vocab(sim)
            setup = list(history)
            n_states += 1
            where = f"{name}#{rnd}"
            tc = TreeCheck(ctx, S, name, rnd)
            tc.walk(sim._request_manager, "Simulation", [where])
            bad_tree += tc.bad
            ctx.count("schema:live-managers", tc.n_mgr)
            ctx.count("schema:live-edges", tc.n_edges)
            ctx.case({"tree": where, "managers": tc.n_mgr, "edges": tc.n_edges}, True)
            inv = inventory(sim)
            check_inventory(ctx, sim, inv, S, bad_inv, where)
            lines.append("inv " + " ".join(inv_tokens(inv)))
            pending.append({"kind": "inv"})
            # R-guards: the real validator objects of this state vs the translated predicates
            n0 = len(gpending)
            rguards.collect(ctx, sim, rng, where, glines, gpending)
            for rec in gpending[n0:]:
                rec["scenario"], rec["setup_ops"] = name, setup
            # templates: options naming live components (and a few missing ones)
            # every registered action type, several option sets each, in every state
            for ident0 in [i for i in sorted(registry) for _ in range(ctx.scale(5, 24))]:
                ident, opts, exists = rreq.gen_action(rng, sim, vocab, {ident0: registry[ident0]}, ghost_p=(1, 8))
                try:
                    cfg = registry[ident].ConfigSchema(type=ident, **opts)
                    real = registry[ident].form_request(cfg)
                except Exception:
                    ctx.count("template:config-rejected")
                    continue
                ts = [t for t in by_action.get(ident, []) if not t["fallback"]]
                if len(ts) != 1:
                    bad_templ.append(f"{ident}: {len(ts)} unconditional templates")
                    continue
                t = ts[0]
                if any(getattr(cfg, g, 0) is None for g in t["guard"]):
                    t = next(x for x in by_action[ident] if x["fallback"])
                pred = template_request(t, cfg)
                ctx.count("template:" + ident)
                if not same_request(pred, real):
                    bad_templ.append(f"{where}: {ident} {opts}: form_request {real!r} vs template {pred!r}")
                    continue
                # model line: the same options to the Lean driver
                fields = sorted({s[1] for s in t["segs"] if s[0] in ("slot", "choice")})
                node_field = next((s[1] for s in t["segs"] if s[0] == "slot" and s[2] in ("node", "router", "firewall")), None)
                node_cls = vocab["nodes"].get(getattr(cfg, node_field), {}).get("kind", "-") if node_field else "-"
                node_kind = next((s[2] for s in t["segs"] if s[0] == "slot" and s[2] in ("node", "router", "firewall")), None)
                addressable = node_cls == "-" or node_cls in S["slot_classes"][node_kind]
                lines.append(f"route {t['index']} {node_cls} " + " ".join(f"{f}={enc_key(getattr(cfg, f))}" for f in fields))
                # observed on the live tree: does the key-walk reach a leaf, and which validators sit on the way
                reach, vals = live_walk(sim._request_manager, real)
                pyp = addressable and py_present(S, t, cfg, inv, node_cls)
                ctx.case({"w": where, "a": ident, "o": opts}, True)
                if pyp and exists and not reach:   # `exists`: the generator, too, chose only existing components
                    # implementation-side oracle (independent of Lean): present components, yet the request runs off the tree
                    ctx.violation({"kind": "action-on-present-components-unreachable", "action": ident},
                                  f"{ident} {opts}: components present in the object graph, request {real} does not reach a handler",
                                  {"scenario": name, "setup_ops": setup, "action": ident, "opts": opts, "req": real})
                pending.append({"kind": "route", "where": where, "ident": ident, "opts": opts, "real": real, "reach": reach, "vals": vals,
                                "pyp": pyp,
                                "exists": exists, "tindex": t["index"], "addressable": addressable, "node_cls": node_cls})
    ctx.oblige("rig:R-schema live key sets / kinds / targets / validators equal the regenerated schema's", "correspondence",
               not bad_tree, "; ".join(bad_tree[:8]))
    ctx.oblige("rig:R-schema object-graph components = keys of the dynamic levels (Inst hypothesis)", "correspondence",
               not bad_inv, "; ".join(bad_inv[:8]))
    ctx.oblige("rig:R-schema form_request = regenerated template instantiated with the same options", "correspondence",
               not bad_templ, "; ".join(bad_templ[:8]))
    for b in (bad_tree + bad_inv + bad_templ)[:3]:
        ctx.notes.append("R-schema: " + b)
    ctx.count("schema:states", n_states)
    if not model_ok:
        ctx.notes.append("R-schema: Lean side skipped (module/driver did not build); tree, inventory, template and oracle checks ran")
        return
    # ---- R-guards (one driver call)
    gout = run_driver(EXE, glines) if glines else []
    gbad = rguards.judge(ctx, gpending, gout)
    ctx.oblige("rig:R-guards every live validator object answers what the translated __call__ answers on the abstracted component",
               "correspondence", not gbad and len(gout) == len(gpending), "; ".join(gbad[:6]))
    for rec, line in zip(gpending, gout):
        if rec["kind"] == "veval" and line in ("0", "1") and rec["live"] is not (line == "1"):
            ctx.violation({"kind": "validator-differs-from-translated-predicate", "rule": rec["atom"].split(":")[0]},
                          f"{rec['where']}: {rec['cls']} on options {rec['opts']}: real validator {rec['live']} vs translated predicate {line == '1'}",
                          {"scenario": rec["scenario"], "setup_ops": rec["setup_ops"], "validator": rec["cls"], "atom": rec["atom"],
                           "opts": rec["opts"], "mode": "veval"})
            break
    ctx.notes.append(f"R-guards: {len(gpending)} validator evaluations compared with the translated predicates")
    # ---- model side (one driver call)
    out = run_driver(EXE, lines)
    if len(out) != len(pending):
        raise RuntimeError(f"driver answered {len(out)} lines for {len(pending)}")
    bad_model: List[str] = []
    n_present = n_absent = 0
    for rec, line in zip(pending, out):
        if rec["kind"] == "inv":
            if line != "ok":
                raise RuntimeError("driver rejected an inventory: " + line)
            continue
        if line.startswith("bad"):
            raise RuntimeError(f"driver rejected a route line for {rec['ident']}: {line}")
        f = dict(x.split("=", 1) for x in line.split(" | "))
        present = f["present"] == "1"
        ctx.cov["traces_validated_against_impl"] += 1
        if rec["addressable"] and present != rec["pyp"]:
            bad_model.append(f"{rec['where']}: {rec['ident']} {rec['opts']}: Lean present={present} vs object-graph oracle {rec['pyp']}")
        path_model = f["path"].split(" ") if f["path"] else []
        # (i) instantiate = the keys of the real request (payload elements are opaque to the model: compared up to the first one)
        real_keys = [enc_key(k) for k in rec["real"]]
        nkeys = next((i for i, k in enumerate(real_keys) if k.startswith("o:")), len(real_keys))
        if not rec["addressable"]:
            # the options name a node of a class this action cannot address (e.g. a firewall action aimed at a computer)
            ctx.count("model:node-class-not-addressable")
            if present:
                bad_model.append(f"{rec['where']}: {rec['ident']}: model says present for a {rec['node_cls']}, which the action cannot address")
            continue
        if f["resolves"] != "1":
            bad_model.append(f"{rec['where']}: {rec['ident']}: template does not resolve in the model for class {rec['node_cls']}: {line}")
            continue
        if present:
            n_present += 1
            ctx.count("model:present")
            if not rec["reach"] and not rec["pyp"]:
                # (if pyp, the violation was already reported by the oracle above)
                bad_model.append(f"{rec['where']}: {rec['ident']} {rec['opts']}: model says present, live request does not reach a handler")
            lv = [v for v in f["vals"].split(";")] if f["vals"] else []
            live_vals = [(",".join(":".join(a) for a in va) or "-") for va in rec["vals"]]
            if rec["reach"] and lv != live_vals:
                bad_model.append(f"{rec['where']}: {rec['ident']}: route validators model {lv} vs live {live_vals}")
        else:
            n_absent += 1
            ctx.count("model:absent")
            if rec["exists"] and rec["reach"]:
                ctx.count("model:absent-but-reached(options only)")
        nkeys = min(nkeys, len(rec["vals"]))   # elements after the handler are its options: opaque to the model
        if path_model[:nkeys] != real_keys[:nkeys] and present:
            bad_model.append(f"{rec['where']}: {rec['ident']}: instantiate {path_model} vs real {real_keys}")
    ctx.oblige("rig:R-schema Lean present/instantiate/routeVals agree with the live tree on every generated action", "correspondence",
               not bad_model, "; ".join(bad_model[:8]))
    ctx.notes.append(f"R-schema: {n_states} live states, {n_present} generated actions naming present components (all reached a handler "
                     f"unless reported), {n_absent} naming an absent one")


def py_present(S: dict, t: dict, cfg, inv: list, node_cls: str) -> bool:
    """Python mirror of `present` (Model/Schema.lean) on the object-graph inventory: every dynamic-level element of the
    template names a component of the inventory whose class the element admits; a choice names one of the schema's keys.
    This is the oracle's notion of "parameters name existing components"; the Lean `present` is compared with it."""
    m, level_inv = "Simulation", inv
    for s in t["segs"]:
        M = S["mgrs"].get(m)
        if M is None:
            return True
        if s[0] == "lit":
            key, kty = s[1], "str"
        elif s[0] == "slot":
            v = getattr(cfg, s[1])
            key = str(v) if s[5] else v
            kty = s[3]
        elif s[0] == "choice":
            v = getattr(cfg, s[1])
            key = str(v) if s[4] else v
            kty = s[2]
        else:
            key, kty = None, "other"
        if M["kind"] == "static":
            if s[0] == "choice" and key not in S["choices"].get(s[1], []):
                return False
            e = M["edges"].get(key) if _hashable(key) else None
            if e is None or e["target"][0] == "leaf":
                return True
            m = e["target"][1]
        else:
            hit = next(((c, ch) for (lv, k, c, ch) in level_inv if lv == M["level"] and type(k) is type(key) and k == key), None)
            if hit is None:
                return False
            c, ch = hit
            if s[0] == "lit":
                admitted = [x for x in S["level_classes"][M["level"]] if S["names"].get(x) == key] if M["keyty"] == "str" else []
            elif s[0] == "slot" and x_schema.SLOT_LEVEL[s[2]] == M["level"] and kty == M["keyty"]:
                admitted = S["slot_classes"][s[2]]
                if x_schema.SLOT_LEVEL[s[2]] == "node":
                    admitted = [x for x in admitted if x == node_cls]
            else:
                admitted = []
            if c not in admitted:
                return False
            m, level_inv = c, ch
    return True


def perturb_rec(rng, sim, registry, vocab, steps: int, clock: List[int]) -> List[list]:
    """like rigs/request.py:perturb, but returns the exact operation list (requests and ticks) for replay files"""
    ops: List[list] = []
    dirty = ["node-shutdown", "node-startup", "node-reset", "node-service-stop", "node-service-disable", "node-service-pause",
             "node-service-restart", "node-application-close", "node-application-remove", "node-file-delete", "node-folder-scan",
             "host-nic-disable", "network-port-disable", "node-file-corrupt", "node-service-start", "node-application-install",
             "node-file-create", "node-folder-create", "node-application-execute"]
    sub = {k: registry[k] for k in dirty if k in registry}
    for _ in range(steps):
        ident, opts, _ = rreq.gen_action(rng, sim, vocab, sub, ghost_p=(0, 1))
        if ident == "node-application-install":
            opts["application_name"] = rng.choice(["c2-server", "c2-beacon", "dos-bot", "ransomware-script", "nmap", "web-browser"])
        if ident in ("node-file-create", "node-folder-create"):
            opts["folder_name"] = rng.choice(["verif_dir", "root", opts.get("folder_name", "root")])
            if "file_name" in opts:
                opts["file_name"] = rng.choice(["verif.txt", "b.pdf"])
        try:
            req = registry[ident].form_request(registry[ident].ConfigSchema(type=ident, **opts))
            sim.apply_request(list(req))
            ops.append(["req", req])
        except Exception:
            pass
        for _ in range(rng.below(3)):
            clock[0] += 1
            sim.pre_timestep(clock[0])
            sim.apply_timestep(clock[0])
            ops.append(["tick", clock[0]])
    return ops


def apply_ops(sim, ops: List[list]):
    for op in ops:
        if op[0] == "req":
            try:
                sim.apply_request(list(op[1]))
            except Exception:
                pass
        else:
            sim.pre_timestep(op[1])
            sim.apply_timestep(op[1])


def live_walk(rm, req: List[Any]) -> Tuple[bool, List[List[tuple]]]:
    from primaite.simulator.core import RequestManager
    cur = rm
    vals = []
    for k in req:
        if not _hashable(k) or k not in cur.request_types:
            return False, vals
        rt = cur.request_types[k]
        vals.append(atoms_of(rt.validator))
        if isinstance(rt.func, RequestManager):
            cur = rt.func
        else:
            return True, vals
    return False, vals
