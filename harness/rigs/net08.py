"""R-net: generated topologies (switched LANs, 1-3 routers, transit links, static/default routes, varying masks), every ordered
host pair pinged with cold and warm ARP caches, pings to router interfaces and to absent addresses, NIC toggles.  The real
objects run in-process with recorders on every `receive_frame`, every `Frame.decrement_ttl` outside a receive (router hops)
and every `SoftwareManager.receive_payload_from_session_manager`; the same scenario is executed by the Lean model
(Drivers/C08.lean) and the two event streams, ping results and final ARP / MAC tables are diffed."""
from __future__ import annotations

from typing import Dict, List, Optional, Tuple

from harness.lib.core import Rng

ROUTER_PORTS = 5
L3_KINDS = ("router", "firewall", "wrouter")


# ------------------------------------------------------------------------------------------ generation
def _ip(net: Tuple[int, int, int, int], host: int) -> str:
    base = (net[0] << 24) | (net[1] << 16) | (net[2] << 8) | net[3]
    v = base + host
    return f"{(v >> 24) & 255}.{(v >> 16) & 255}.{(v >> 8) & 255}.{v & 255}"


def _mask(p: int) -> str:
    v = (0xFFFFFFFF << (32 - p)) & 0xFFFFFFFF
    return f"{(v >> 24) & 255}.{(v >> 16) & 255}.{(v >> 8) & 255}.{v & 255}"


class Topo:
    def __init__(self):
        self.nodes: List[dict] = []
        self.links: List[List[int]] = []
        self.air: List[List[int]] = []  # wireless "links": two access points on one frequency
        self.lans: List[dict] = []  # {"net":(a,b,c,d), "p":prefix, "router":idx, "port":k, "hosts":[idx], "used":[host numbers]}

    def host(self, ip: str, p: int, gw: Optional[str]) -> int:
        self.nodes.append({"kind": "host", "ip": ip, "mask": _mask(p), "gw": gw})
        return len(self.nodes) - 1

    def switch(self, ports: int) -> int:
        self.nodes.append({"kind": "switch", "ports": ports, "used": 0})
        return len(self.nodes) - 1

    def router(self, kind: str = "router") -> int:
        """kind: router (5 ports) | firewall (0 external, 1 internal, 2 DMZ) | wrouter (0 wireless access point, 1 wired)"""
        nports = {"router": ROUTER_PORTS, "firewall": 3, "wrouter": 2}[kind]
        self.nodes.append({"kind": kind, "ports": [None] * nports, "routes": [], "default": None})
        return len(self.nodes) - 1

    def free_ports(self, r: int) -> int:
        return self.nodes[r]["ports"].count(None)

    def swport(self, s: int) -> int:
        k = self.nodes[s]["used"]
        self.nodes[s]["used"] = k + 1
        return k

    def rport(self, r: int, ip: str, p: int) -> int:
        ports = self.nodes[r]["ports"]
        k = ports.index(None)
        ports[k] = {"ip": ip, "mask": _mask(p)}
        return k

    def link(self, a: int, i: int, b: int, j: int):
        self.links.append([a, i, b, j])


def _attach_lan(t: Topo, rng: Rng, r: Optional[int], net, p: int, nhosts: int, via_switch: bool) -> dict:
    """A LAN behind router r (or stand-alone when r is None): gateway is host number 1."""
    gw = _ip(net, 1) if r is not None else None
    lan = {"net": net, "p": p, "router": r, "hosts": [], "gw": gw}
    if via_switch or nhosts != 1 or r is None:
        s = t.switch(nhosts + 2)
        lan["switch"] = s
        order = []
        if r is not None:
            order.append("r")
        order += ["h"] * nhosts
        order = rng.shuffle(order)  # the position of the router's port among the hosts' ports matters for floods
        hostnum = 2
        for what in order:
            if what == "r":
                k = t.rport(r, gw, p)
                t.link(r, k, s, t.swport(s))
                lan["port"] = k
            else:
                h = t.host(_ip(net, hostnum), p, gw)
                hostnum += rng.range(1, 3)
                t.link(h, 0, s, t.swport(s))
                lan["hosts"].append(h)
    else:
        k = t.rport(r, gw, p)
        h = t.host(_ip(net, 2), p, gw)
        t.link(h, 0, r, k)
        lan["port"] = k
        lan["hosts"].append(h)
    t.lans.append(lan)
    return lan


def gen_dmz_cross(rng: Rng) -> dict:
    """Misconfiguration family "two IP subnets on one layer-2 segment": two firewalls (or a firewall and a router) are cross-connected
    so that each one's DMZ port shares a segment with a port of the other that uses ANOTHER subnet, and each routes the other's
    subnet through a next hop on its own side.  ARP requests for those next hops are layer-2 broadcasts that arrive on a DMZ port
    without being for the firewall; before repair F-C08-r3-1 each one started a look-up, i.e. the next ARP request, without end."""
    t = Topo()
    k2 = rng.choice(["firewall", "firewall", "router"])
    f1, f2 = t.router("firewall"), t.router(k2)
    sa, sb = t.switch(5), t.switch(4)
    a, b, c, d = rng.shuffle([1, 2, 3, 4, 5, 6])[:4]
    p = rng.choice([24, 24, 25, 28])
    net = lambda x: (10, 0, x, 0)
    t.nodes[f1]["ports"][1] = {"ip": _ip(net(c), 1), "mask": _mask(p)}   # internal, on segment B
    t.nodes[f1]["ports"][2] = {"ip": _ip(net(a), 1), "mask": _mask(p)}   # DMZ, on segment A
    t.nodes[f2]["ports"][1] = {"ip": _ip(net(b), 1), "mask": _mask(p)}   # on segment A, another subnet
    t.nodes[f2]["ports"][2] = {"ip": _ip(net(d), 1), "mask": _mask(p)}   # DMZ (firewall) on segment B, another subnet
    nh1, nh2 = _ip(net(c), 9), _ip(net(b), 9)
    if rng.chance(1, 3):
        nh2 = _ip(net(b), 1)  # a present next hop: the other device's own address on the segment
    t.nodes[f1]["routes"].append({"addr": _ip(net(b), 0), "mask": _mask(p), "nh": nh1, "metric": 0})
    t.nodes[f2]["routes"].append({"addr": _ip(net(c), 0), "mask": _mask(p), "nh": nh2, "metric": 0})
    if rng.chance(1, 2):
        t.nodes[f1]["default"] = nh1
    if rng.chance(1, 2):
        t.nodes[f2]["default"] = nh2
    t.link(f1, 2, sa, t.swport(sa))
    t.link(f2, 1, sa, t.swport(sa))
    t.link(f1, 1, sb, t.swport(sb))
    t.link(f2, 2, sb, t.swport(sb))
    h1 = t.host(_ip(net(a), 5), p, _ip(net(a), 1))
    t.link(h1, 0, sa, t.swport(sa))
    h2 = t.host(_ip(net(d), 5), p, _ip(net(d), 1))
    t.link(h2, 0, sb, t.swport(sb))
    h3 = t.host(_ip(net(b), 6), p, _ip(net(b), 1))  # a host of the OTHER subnet on segment A
    t.link(h3, 0, sa, t.swport(sa))
    every = [[l, c2] for l in range(6) for c2 in range(3)]
    mode = rng.choice(["open", "open", "random", "no-arp-dmz-out"])
    for n in t.nodes:
        if n["kind"] == "firewall":
            n["permit"] = every if mode == "open" else ([x for x in every if rng.chance(5, 6)] if mode == "random" else [x for x in every if x != [5, 0]])
    hosts = [h1, h2, h3]
    targets = [nh1, nh2, _ip(net(b), 7), _ip(net(c), 7), "8.8.8.8"] + [t.nodes[h]["ip"] for h in hosts] + \
              [prt["ip"] for r in (f1, f2) for prt in t.nodes[r]["ports"] if prt]
    ops = [{"op": "ping", "src": h1, "dst": nh2, "count": 1}]
    for _ in range(rng.range(6, 12)):
        ops.append({"op": "ping", "src": rng.choice(hosts), "dst": rng.choice(targets), "count": rng.choice([1, 1, 2])})
        if rng.chance(1, 6):
            ops.append({"op": "arpclear", "node": rng.choice([f1, f2] + hosts)})
    srv = rng.choice(hosts)
    t.nodes[srv]["flag"] = True
    for r in (f1, f2):
        t.nodes[r]["flag"] = rng.chance(2, 3)
    ops += [{"op": "service", "src": h, "dst": t.nodes[srv]["ip"]} for h in hosts if h != srv]
    for n in t.nodes:
        n.pop("used", None)
    return {"nodes": t.nodes, "links": t.links, "air": [], "ops": ops, "ping_permit": False, "all_permit": False, "consistent": False,
            "icmp_ident_zero": False,
            "notes": {"routers": 2, "kinds": f"firewall+{k2}", "routing": "cross", "fw": mode, "dmz_cross": True, "permit": "some"}}


def gen_two_gateway(rng: Rng) -> dict:
    """A CONSISTENT family the chain / shared-transit topologies do not contain: one LAN with TWO routers on it and asymmetric
    routing.  Hosts of LAN L use R1 as default gateway; LAN M hangs off R2 (also on L), LAN N off R1.  A frame M -> L is delivered
    onto L by R2 (so L's hosts learn "remote address -> R2's MAC" from it), while their own traffic to M must go to their gateway
    R1, which routes it back onto L to R2.  A host that short-cuts through its ARP cache for off-subnet destinations changes the
    path (and, where the delivering router has no route back, loses the exchange)."""
    t = Topo()
    r1, r2 = t.router("router"), t.router("router")
    pl = rng.choice([24, 24, 25])
    L, M, N = (192, 168, 30, 0), (192, 168, 31, 0), (172, 20, 0, 0)
    sl = t.switch(6)
    order = rng.shuffle(["r1", "r2", "h", "h"])
    l_hosts = []
    hostnum = 10
    for what in order:
        if what == "r1":
            t.link(r1, t.rport(r1, _ip(L, 1), pl), sl, t.swport(sl))
        elif what == "r2":
            t.link(r2, t.rport(r2, _ip(L, 2), pl), sl, t.swport(sl))
        else:
            gw = _ip(L, 1) if (not l_hosts or rng.chance(2, 3)) else _ip(L, 2)
            h = t.host(_ip(L, hostnum), pl, gw)
            hostnum += 1
            t.link(h, 0, sl, t.swport(sl))
            l_hosts.append(h)
    pm = rng.choice([24, 26])
    km = t.rport(r2, _ip(M, 1), pm)
    if rng.chance(1, 2):
        sm = t.switch(3)
        t.link(r2, km, sm, t.swport(sm))
        x = t.host(_ip(M, 2), pm, _ip(M, 1))
        t.link(x, 0, sm, t.swport(sm))
    else:
        x = t.host(_ip(M, 2), pm, _ip(M, 1))
        t.link(x, 0, r2, km)
    kn = t.rport(r1, _ip(N, 1), 16)
    y = t.host(_ip(N, 2), 16, _ip(N, 1))
    t.link(y, 0, r1, kn)
    t.nodes[r1]["routes"].append({"addr": _ip(M, 0), "mask": _mask(pm), "nh": _ip(L, 2), "metric": 0})
    style = rng.choice(["static", "default"])
    if style == "static":
        t.nodes[r2]["routes"].append({"addr": _ip(N, 0), "mask": _mask(16), "nh": _ip(L, 1), "metric": 0})
    else:
        t.nodes[r2]["default"] = _ip(L, 1)
    hosts = l_hosts + [x, y]
    ops: List[dict] = []
    first = rng.choice([(x, l_hosts[0]), (l_hosts[0], x)])  # who speaks first decides what the LAN host has learned
    ops.append({"op": "ping", "src": first[0], "dst": t.nodes[first[1]]["ip"], "count": rng.choice([1, 2])})
    pairs = rng.shuffle([(p, q) for p in hosts for q in hosts if p != q])
    for p, q in pairs:
        ops.append({"op": "ping", "src": p, "dst": t.nodes[q]["ip"], "count": rng.choice([1, 1, 4])})
    srv = rng.choice([x, y, l_hosts[0]])
    t.nodes[srv]["flag"] = True
    for r in (r1, r2):
        t.nodes[r]["flag"] = True
    ops += [{"op": "service", "src": h, "dst": t.nodes[srv]["ip"]} for h in hosts if h != srv]
    ops += [{"op": "ping", "src": p, "dst": t.nodes[q]["ip"], "count": 1} for p, q in pairs[:4]]
    for n in t.nodes:
        n.pop("used", None)
    return {"nodes": t.nodes, "links": t.links, "air": [], "ops": ops, "ping_permit": True, "all_permit": True, "consistent": True,
            "icmp_ident_zero": False,
            "notes": {"routers": 2, "kinds": "router+router", "routing": "two-gateway-" + style, "two_gateway": True, "permit": "all"}}


def add_inject(case: dict) -> dict:
    """family `inject_low_ttl` (deterministic, draws nothing from the generator): crafted ICMP echo requests with TTL 3 / 2 / 1 handed
    straight to an enabled, cabled (wired) router / firewall / wireless-router port (`RouterInterface.receive_frame`; model: `ifaceRecv`), from a host of that
    port's LAN to (a) a host behind another gateway, (b) a host of the same LAN, (c) an unroutable address — so that
    `Router.process_frame` / `route_frame` are exercised at the TTL boundary (decrement, `< 1` test, header rewrite, send) with the
    caches as the case's operations left them (appended), and once before everything else with cold caches (TTL 2, remote
    destination: the router's own ARP exchange nests inside `process_frame` of a frame that is about to die)."""
    nodes = case["nodes"]
    linked = set()
    for a, i, b, j in case["links"] + case.get("air", []):
        linked.add((a, i))
        linked.add((b, j))
    hosts = [(n, nd) for n, nd in enumerate(nodes) if nd["kind"] == "host"]
    tail, head = [], []
    for r, nd in enumerate(nodes):
        if nd["kind"] not in ("router", "firewall", "wrouter"):
            continue
        found = None
        for i, p in enumerate(nd["ports"]):
            if p and (r, i) in linked:
                hs = [h for h, hd in hosts if hd.get("gw") == p["ip"]]
                if hs:
                    found = (i, hs[0], p["ip"])
                    break
        if not found:
            continue
        i, h, gw = found
        remote = [hd["ip"] for x, hd in hosts if x != h and hd.get("gw") != gw][:1]
        local = [hd["ip"] for x, hd in hosts if x != h and hd.get("gw") == gw][:1]
        for dst in remote + local + ["8.8.8.8"]:
            for ttl in (3, 2, 1):
                tail.append({"op": "inject", "node": r, "ifc": i, "from": h, "dst": dst, "ttl": ttl})
        if remote and len(case["ops"]) % 2 == 0 and not head:
            head.append({"op": "inject", "node": r, "ifc": i, "from": h, "dst": remote[0], "ttl": 2})
    tail = tail[:18]
    # echo requests handed to HOST NICs (`NIC.receive_frame`), layer-2 addressed to the arrival NIC: IP-addressed to that NIC, to the
    # host's OTHER NIC (dual-homed hosts: accepted by the NIC, `_process_icmp_echo_request` must not answer: the destination is not
    # the arrival interface's address), and to a foreign address (the NIC must not hand it to software at all)
    htail = []
    for h, hd in hosts:
        others = [x for x, _ in hosts if x != h]
        if not others:
            continue
        own = [hd["ip"]] + [x["ip"] for x in hd.get("extra", [])]
        if len(own) < 2 and htail:
            continue  # single-homed: one host per case is enough
        for j in range(len(own)):
            if (h, j) not in linked:
                continue
            for dst in own + [nodes[others[0]]["ip"]]:
                htail.append({"op": "inject", "node": h, "ifc": j, "from": others[0], "dst": dst, "ttl": 64})
            htail.append({"op": "inject", "node": h, "ifc": j, "from": others[0], "dst": own[j], "ttl": 1})
    htail = htail[:12]
    if tail or htail:
        case["ops"] = head + case["ops"] + tail + htail
        case.setdefault("notes", {})["inject"] = len(head) + len(tail) + len(htail)
    return case


def gen_case(rng: Rng, max_routers: int = 3) -> dict:
    return add_inject(_gen_case(rng, max_routers))


def gen_air_many(rng: Rng, k: int) -> dict:
    """family `air_many` — IMPLEMENTATION ONLY (the Lean model has one peer per interface: an air space frequency shared by more than
    two access points is outside it, see the design note): `k` >= 3 wireless routers on ONE frequency (`AirSpace.transmit` hands the
    ONE frame object to every other enabled access point in registration order, depth-first), a wired LAN with a host behind each,
    static routes or a default route to a hub; every ordered host pair is pinged cold and warm, one bystander access point is switched
    off and on in between.  Judged by the property's oracle (a)-(d) on the real objects only: search, not proof."""
    nodes, links = [], []
    R = list(range(k))
    hub = rng.choice(R)
    use_default = rng.chance(1, 2)
    for r in R:
        if use_default and r != hub:
            routes, default = [], f"10.0.0.{hub + 1}"
        else:
            routes = [{"addr": f"192.168.{10 + q}.0", "mask": "255.255.255.0", "nh": f"10.0.0.{q + 1}", "metric": 0} for q in R if q != r]
            default = None
        nodes.append({"kind": "wrouter", "ports": [{"ip": f"10.0.0.{r + 1}", "mask": "255.255.255.240"},
                                                   {"ip": f"192.168.{10 + r}.1", "mask": "255.255.255.0"}],
                      "routes": routes, "default": default, "flag": True})
    for r in R:
        nodes.append({"kind": "host", "ip": f"192.168.{10 + r}.2", "mask": "255.255.255.0", "gw": f"192.168.{10 + r}.1"})
        links.append([k + r, 0, r, 1])
    pings = [{"op": "ping", "src": k + a, "dst": f"192.168.{10 + b}.2", "count": rng.choice([1, 1, 2])} for a in R for b in R if a != b]
    pings = rng.shuffle(pings)
    by = rng.choice(R)
    others = [p for p in pings if by not in (p["src"] - k, int(p["dst"].split(".")[2]) - 10)
              and not (use_default and by == hub)]
    ops = pings + [dict(p) for p in pings[:4]] + [{"op": "disable", "node": by, "ifc": 0}] + [dict(p) for p in others[:4]] \
        + [{"op": "enable", "node": by, "ifc": 0}] + [dict(p) for p in pings[:3]]
    return {"nodes": nodes, "links": links, "air": [[r, 0, r + 1, 0] for r in range(k - 1)], "ops": ops, "ping_permit": True,
            "all_permit": True, "consistent": True, "icmp_ident_zero": False,
            "notes": {"routers": k, "kinds": "+".join(["wrouter"] * k), "air_many": k, "routing": "default" if use_default else "static"}}


def _gen_case(rng: Rng, max_routers: int = 3) -> dict:
    if rng.chance(1, 14):
        return gen_dmz_cross(rng)
    if rng.chance(1, 12):
        return gen_two_gateway(rng)
    t = Topo()
    nr = rng.choice([0, 1, 1, 2, 2, 3][: 2 + 2 * max_routers]) if max_routers < 3 else rng.choice([0, 1, 1, 2, 2, 2, 3, 3])
    lan_prefixes = [24, 24, 25, 28, 16, 26]
    lan_id = 0
    notes = {"routers": nr}
    if nr == 0:
        net = (192, 168, 1, 0)
        _attach_lan(t, rng, None, net, rng.choice([24, 25, 16]), rng.range(2, 4), True)
        if rng.chance(1, 2):  # second switch cascaded: hosts behind two switches
            s2 = t.switch(4)
            s1 = next(i for i, n in enumerate(t.nodes) if n["kind"] == "switch")
            t.nodes[s1]["ports"] += 1
            t.link(s1, t.swport(s1), s2, t.swport(s2))
            h = t.host(_ip(net, 40), t.lans[0]["p"], None)
            t.link(h, 0, s2, t.swport(s2))
            t.lans[0]["hosts"].append(h)
        routing = "none"
    else:
        wireless = nr == 2 and rng.chance(1, 4)  # two wireless routers, the transit segment is an air space frequency
        kinds = ["wrouter"] * nr if wireless else [rng.choice(["router", "router", "firewall"]) for _ in range(nr)]
        routers = [t.router(k) for k in kinds]
        notes["kinds"] = "+".join(kinds)
        # transit segments between consecutive routers
        transits = []
        shared_switch = nr >= 2 and not wireless and rng.chance(1, 4)
        if shared_switch:
            # every router on ONE transit segment through a switch
            tp = rng.choice([29, 24])
            tnet = (10, 0, 0, 0)
            s = t.switch(nr + 1)
            tips = []
            for k, r in enumerate(routers):
                ip = _ip(tnet, k + 1)
                port = t.rport(r, ip, tp)
                t.link(r, port, s, t.swport(s))
                tips.append(ip)
            notes["transit"] = f"shared/{tp}"
        else:
            for k in range(nr - 1):
                tp = rng.choice([30, 30, 29, 24])
                tnet = (10, 0, k, 0)
                a, b = _ip(tnet, 1), _ip(tnet, 2)
                pa = t.rport(routers[k], a, tp)
                pb = t.rport(routers[k + 1], b, tp)
                if wireless:
                    t.air.append([routers[k], pa, routers[k + 1], pb])
                elif rng.chance(1, 4):
                    s = t.switch(3)
                    t.link(routers[k], pa, s, t.swport(s))
                    t.link(routers[k + 1], pb, s, t.swport(s))
                else:
                    t.link(routers[k], pa, routers[k + 1], pb)
                transits.append((a, b, tnet, tp))
            notes["transit"] = "chain"
        # LANs
        for r in routers:
            for _ in range(min(rng.range(1, 2), t.free_ports(r))):
                p = rng.choice(lan_prefixes)
                net = (192, 168, 10 + lan_id, 0) if p >= 24 else (172, 16 + lan_id, 0, 0)
                lan_id += 1
                nh = rng.range(1, 2)
                _attach_lan(t, rng, r, net, p, nh, rng.chance(1, 2))
        # routing
        routing = rng.choice(["static", "static", "default", "mixed", "shadowed", "broken"])
        pos = {r: k for k, r in enumerate(routers)}

        def next_hop(frm: int, to: int) -> str:
            if shared_switch:
                return tips[pos[to]]
            k, j = pos[frm], pos[to]
            return transits[k][1] if j > k else transits[k - 1][0]

        for r in routers:
            node = t.nodes[r]
            for lan in t.lans:
                if lan["router"] == r:
                    continue
                nh = next_hop(r, lan["router"])
                route = {"addr": _ip(lan["net"], 0), "mask": _mask(lan["p"]), "nh": nh, "metric": 0}
                if routing in ("static", "mixed", "shadowed", "broken"):
                    if routing == "shadowed":
                        # a less specific route with a wrong next hop first, then a same-prefix tie resolved by metric, then
                        # a non-canonical spelling of the right network
                        wrong = _ip(lan["net"], 250 if lan["p"] >= 24 else 9)
                        sup = max(lan["p"] - 8, 8)
                        node["routes"].append({"addr": _ip(lan["net"], 0), "mask": _mask(sup), "nh": wrong, "metric": 0})
                        node["routes"].append({"addr": _ip(lan["net"], 0), "mask": _mask(lan["p"]), "nh": wrong, "metric": 5})
                        node["routes"].append({"addr": _ip(lan["net"], 3), "mask": _mask(lan["p"]), "nh": nh, "metric": 1})
                        node["routes"].append({"addr": _ip(lan["net"], 0), "mask": _mask(lan["p"]), "nh": wrong, "metric": 1})
                    elif routing == "broken" and rng.chance(1, 3):
                        continue  # a missing route: the exchange must fail, in both worlds
                    elif routing == "mixed" and pos[r] in (0, nr - 1) and not shared_switch:
                        continue  # covered by the default route below
                    else:
                        node["routes"].append(route)
            if routing in ("default", "mixed") and nr >= 2:
                k = pos[r]
                if shared_switch:
                    node["default"] = tips[(k + 1) % nr]
                elif k == 0:
                    node["default"] = transits[0][1]
                elif k == nr - 1:
                    node["default"] = transits[k - 1][0]
                else:
                    # a middle router: default to the right, static to the left
                    node["default"] = transits[k][1]
                    for lan in t.lans:
                        if lan["router"] is not None and pos[lan["router"]] < k:
                            node["routes"].append({"addr": _ip(lan["net"], 0), "mask": _mask(lan["p"]), "nh": transits[k - 1][0], "metric": 0})
    notes["routing"] = routing
    # firewalls: which (rule list, payload class) pairs are permitted; lists 0 extIn 1 extOut 2 intIn 3 intOut 4 dmzIn 5 dmzOut,
    # classes 0 ARP 1 ICMP 2 the UDP service
    fw_mode = rng.choice(["open", "open", "no-service", "random", "default", "no-arp-one-list"])
    for n in t.nodes:
        if n["kind"] != "firewall":
            continue
        every = [[l, c] for l in range(6) for c in range(3)]
        if fw_mode == "open":
            n["permit"] = every
        elif fw_mode == "no-service":
            n["permit"] = [x for x in every if x[1] != 2 or rng.chance(1, 3)]
        elif fw_mode == "random":
            n["permit"] = [x for x in every if rng.chance(4, 5)]
        elif fw_mode == "default":
            n["permit"] = None  # no rules at all: the implicit actions (external lists permit, the others deny)
        else:
            drop = rng.below(6)
            n["permit"] = [x for x in every if x != [drop, 0]]
        notes["fw"] = fw_mode
    # a dual-homed host: a second NIC on another LAN's switch (the switch keeps spare ports)
    sw_lans = [l for l in t.lans if l.get("switch") is not None]
    if len(t.lans) >= 2 and sw_lans and rng.chance(1, 4):
        lan2 = rng.choice(sw_lans)
        cands = [h for l in t.lans if l is not lan2 for h in l["hosts"]]
        if cands:
            h = rng.choice(cands)
            s2 = lan2["switch"]
            if t.nodes[s2]["used"] < t.nodes[s2]["ports"]:
                ip2 = _ip(lan2["net"], 200 if lan2["p"] <= 24 else (100 if lan2["p"] == 25 else (50 if lan2["p"] == 26 else 12)))
                t.nodes[h].setdefault("extra", []).append({"ip": ip2, "mask": _mask(lan2["p"])})
                t.link(h, len(t.nodes[h]["extra"]), s2, t.swport(s2))
                notes["dual_homed"] = h
    hosts = [i for i, n in enumerate(t.nodes) if n["kind"] == "host"]
    via_host = []
    if nr >= 1 and hosts and rng.chance(1, 6):
        # misconfiguration: a static route whose next hop is a HOST address; frames for 172.31/16 are sent to that host's MAC
        lan = rng.choice([l for l in t.lans if l["router"] is not None and l["hosts"]])
        h = rng.choice(lan["hosts"])
        t.nodes[lan["router"]]["routes"].append({"addr": "172.31.0.0", "mask": "255.255.0.0", "nh": t.nodes[h]["ip"], "metric": 0})
        via_host = [{"op": "ping", "src": x, "dst": "172.31.0.5", "count": 1} for x in hosts[:3]]
        notes["via_host"] = True
    if nr >= 2 and hosts and rng.chance(1, 6):
        # a route whose next hop is NOT directly connected (an address in a remote LAN, itself reachable through another route):
        # look-ups for it go through the route table a second time (RouterARP), the router's own replies through
        # RouterSessionManager.resolve_outbound_network_interface
        far = [l for l in t.lans if l["router"] is not None and l["hosts"]]
        if len(far) >= 2:
            l1, l2 = rng.shuffle(far)[:2]
            if l1["router"] != l2["router"]:
                tgt = t.nodes[l2["hosts"][0]]["ip"] if rng.chance(1, 2) else l2["gw"]
                t.nodes[l1["router"]]["routes"].append({"addr": "172.29.0.0", "mask": "255.255.0.0", "nh": tgt, "metric": 0})
                via_host += [{"op": "ping", "src": x, "dst": "172.29.0.5", "count": 1} for x in l1["hosts"][:2] + l2["hosts"][:1]]
                via_host += [{"op": "ping", "src": l2["hosts"][0], "dst": l1["gw"], "count": 1}]
                notes["recursive_nh"] = True
                if tgt != l2["gw"]:
                    notes["via_host"] = True
    if len(hosts) >= 2 and rng.chance(1, 8):
        # misconfiguration: a host whose default gateway is another host on its LAN
        lan = rng.choice([l for l in t.lans if len(l["hosts"]) >= 2] or [None])
        if lan:
            a, b = lan["hosts"][0], lan["hosts"][1]
            t.nodes[a]["gw"] = t.nodes[b]["ip"]
            via_host += [{"op": "ping", "src": a, "dst": "172.30.0.9", "count": 1}, {"op": "ping", "src": a, "dst": "8.8.4.4", "count": 2}]
            notes["gw_is_host"] = True
    if hosts and rng.chance(1, 10):
        # misconfiguration: a host whose default gateway lies outside its own subnet (unreachable gateway)
        h = rng.choice(hosts)
        t.nodes[h]["gw"] = "203.0.113.1"
        via_host += [{"op": "ping", "src": h, "dst": "8.8.4.4", "count": 1}, {"op": "ping", "src": h, "dst": "203.0.113.1", "count": 1}]
        notes["gw_off_subnet"] = True
    ops: List[dict] = []
    pairs = [(a, b) for a in hosts for b in hosts if a != b]
    pairs = rng.shuffle(pairs)
    for a, b in pairs:  # cold: first contact between the two
        ops.append({"op": "ping", "src": a, "dst": t.nodes[b]["ip"], "count": rng.choice([1, 1, 2, 4])})
    extra = []
    for a, b in rng.shuffle(pairs)[: max(2, len(pairs) // 2)]:  # warm
        extra.append({"op": "ping", "src": a, "dst": t.nodes[b]["ip"], "count": rng.choice([1, 4])})
    for lan in t.lans:
        for h in lan["hosts"][:1]:
            if lan["gw"]:
                extra.append({"op": "ping", "src": h, "dst": lan["gw"], "count": 1})
            extra.append({"op": "ping", "src": h, "dst": _ip(lan["net"], 99 if lan["p"] <= 25 else 13), "count": 1})  # absent local
    routers_idx = [i for i, n in enumerate(t.nodes) if n["kind"] in L3_KINDS]
    for r in routers_idx:
        for prt in t.nodes[r]["ports"]:
            if prt and hosts and rng.chance(1, 2):
                extra.append({"op": "ping", "src": rng.choice(hosts), "dst": prt["ip"], "count": 1})
    if notes.get("dual_homed") is not None:
        dh = notes["dual_homed"]
        ip2 = t.nodes[dh]["extra"][0]["ip"]
        others = rng.shuffle([x for x in hosts if x != dh])[:3]
        for h in others:
            extra.append({"op": "ping", "src": h, "dst": ip2, "count": 1})
            extra.append({"op": "ping", "src": dh, "dst": t.nodes[h]["ip"], "count": 1})
        # the NIC towards the default gateway goes down while the other stays up: off-link destinations have no way out
        extra.append({"op": "disable", "node": dh, "ifc": 0})
        extra.append({"op": "ping", "src": dh, "dst": "8.8.8.8", "count": 1})
        for h in others[:2]:
            extra.append({"op": "ping", "src": dh, "dst": t.nodes[h]["ip"], "count": 1})
            extra.append({"op": "ping", "src": h, "dst": t.nodes[dh]["ip"], "count": 1})
        extra.append({"op": "enable", "node": dh, "ifc": 0})
        if rng.chance(1, 2):
            # the OTHER NIC goes down while the gateway's stays up: destinations on the dead NIC's subnet are still "on one of my
            # networks" for send_arp_request (it looks at every interface, enabled or not) but leave through the gateway's NIC
            lan2_hosts = [x for x in lan2["hosts"] if x != dh]
            extra.append({"op": "arpclear", "node": dh})
            extra.append({"op": "disable", "node": dh, "ifc": 1})
            for h in lan2_hosts[:2]:
                extra.append({"op": "ping", "src": dh, "dst": t.nodes[h]["ip"], "count": 1})
            extra.append({"op": "ping", "src": dh, "dst": _ip(lan2["net"], 99 if lan2["p"] <= 25 else 13), "count": 1})  # absent, dead NIC's subnet
            extra.append({"op": "enable", "node": dh, "ifc": 1})
            notes["dual_homed_other_nic_down"] = True
    if hosts:
        extra.append({"op": "ping", "src": rng.choice(hosts), "dst": "8.8.8.8", "count": 1})
        if routers_idx:
            extra.append({"op": "ping", "src": rng.choice(hosts), "dst": "10.0.0.5", "count": 1})  # unused transit address
            extra.append({"op": "ping", "src": rng.choice(hosts), "dst": "10.0.0.6", "count": 2})
    # toggles and cache resets interleaved with more pings
    switches_idx = [i for i, n in enumerate(t.nodes) if n["kind"] == "switch"]
    for _ in range(rng.range(1, 5)):
        k = rng.below(7)
        if k == 0 and hosts:
            h = rng.choice(hosts)
            i = rng.below(1 + len(t.nodes[h].get("extra", [])))
            extra.append({"op": "disable", "node": h, "ifc": i})
            if pairs:
                a, b = rng.choice(pairs)
                extra.append({"op": "ping", "src": a, "dst": t.nodes[b]["ip"], "count": 1})
                extra.append({"op": "ping", "src": h, "dst": t.nodes[b if b != h else a]["ip"], "count": 1})
            extra.append({"op": "enable", "node": h, "ifc": i})
        elif k == 4 and switches_idx:
            sw = rng.choice(switches_idx)
            i = rng.below(max(1, t.nodes[sw]["used"]))
            extra.append({"op": "disable", "node": sw, "ifc": i})
            if pairs:
                for a, b in rng.shuffle(pairs)[:2]:
                    extra.append({"op": "ping", "src": a, "dst": t.nodes[b]["ip"], "count": 1})
            extra.append({"op": "enable", "node": sw, "ifc": i})
        elif k in (5, 6):
            n = rng.below(len(t.nodes))
            extra.append({"op": "power", "node": n, "on": 0})
            if pairs:
                for a, b in rng.shuffle(pairs)[:2]:
                    extra.append({"op": "ping", "src": a, "dst": t.nodes[b]["ip"], "count": 1})
                if t.nodes[n]["kind"] == "host":
                    others = [h for h in hosts if h != n]
                    if others:
                        extra.append({"op": "ping", "src": n, "dst": t.nodes[rng.choice(others)]["ip"], "count": 1})
            if rng.chance(1, 3):  # a toggle of an interface of the powered-off node must not bring it up
                extra.append({"op": "enable", "node": n, "ifc": 0})
            extra.append({"op": "power", "node": n, "on": 1})
        elif k == 1 and routers_idx:
            r = rng.choice(routers_idx)
            used = [i for i, p in enumerate(t.nodes[r]["ports"]) if p]
            i = rng.choice(used)
            extra.append({"op": "disable", "node": r, "ifc": i})
            if pairs:
                for a, b in rng.shuffle(pairs)[:2]:
                    extra.append({"op": "ping", "src": a, "dst": t.nodes[b]["ip"], "count": 1})
            dead = [l for l in t.lans if l["router"] == r and l.get("port") == i]
            far = [h for l in t.lans if l not in dead for h in l["hosts"]]
            if dead and far:
                # destinations ON THE SUBNET OF THE DEAD PORT: the look-ups still find "an interface whose network holds the address"
                # (enabled or not), send_arp_request still asks for the address itself, and the request leaves through whatever
                # the route table offers for it (a default / covering route via another port) — or nothing happens
                src = rng.choice(far)
                for h in dead[0]["hosts"][:2]:
                    extra.append({"op": "ping", "src": src, "dst": t.nodes[h]["ip"], "count": 1})
                extra.append({"op": "ping", "src": src, "dst": _ip(dead[0]["net"], 99 if dead[0]["p"] <= 25 else 13), "count": 1})
                notes["dead_port_subnet"] = notes.get("dead_port_subnet", 0) + 1
            if hosts:
                # the router itself must answer (ARP reply, echo reply) while one of its ports is down: its own
                # resolve_outbound_network_interface may have to fall back to a route whose next hop lies behind the dead port
                for prt in rng.shuffle([x for x in t.nodes[r]["ports"] if x])[:3]:
                    extra.append({"op": "ping", "src": rng.choice(hosts), "dst": prt["ip"], "count": 1})
            extra.append({"op": "enable", "node": r, "ifc": i})
        elif k == 2:
            n = rng.below(len(t.nodes))
            if t.nodes[n]["kind"] != "switch":
                extra.append({"op": "arpclear", "node": n})
        if rng.chance(1, 3) and len(pairs) >= 1:
            # RE-CABLING at run time (Network.remove_link + Network.connect): a host whose MAC its switch has learned moves to
            # another free port of the same switch (sometimes of another switch); learned forwarding state must follow
            sw_of = {}
            for a_, i_, b_, j_ in t.links:
                for (x, xi, y, yj) in ((a_, i_, b_, j_), (b_, j_, a_, i_)):
                    if t.nodes[x]["kind"] == "host" and xi == 0 and t.nodes[y]["kind"] == "switch":
                        sw_of[x] = y
            movable = [h for h in hosts if h in sw_of and not any(o.get("op") == "recable" and o["node"] == h for o in extra)]
            free = {s_: t.nodes[s_]["used"] for s_ in switches_idx if t.nodes[s_]["used"] < t.nodes[s_]["ports"]}
            if movable and free:
                h = rng.choice(movable)
                same = sw_of[h] in free and rng.chance(3, 4)
                s_ = sw_of[h] if same else rng.choice(sorted(free))
                if s_ != sw_of[h]:
                    notes["recable_other"] = True
                port = t.swport(s_)
                others = [x for x in hosts if x != h]
                peer = rng.choice(others) if others else None
                if peer is not None:  # the switch learns both stations on their old ports first
                    extra.append({"op": "ping", "src": h, "dst": t.nodes[peer]["ip"], "count": 1})
                extra.append({"op": "recable", "node": h, "ifc": 0, "sw": s_, "port": port})
                notes["recable"] = notes.get("recable", 0) + 1
                if peer is not None:
                    extra.append({"op": "ping", "src": h, "dst": t.nodes[peer]["ip"], "count": 1})
                    extra.append({"op": "ping", "src": peer, "dst": t.nodes[h]["ip"], "count": rng.choice([1, 2])})
                    third = [x for x in others if x != peer]
                    if third:
                        extra.append({"op": "ping", "src": rng.choice(third), "dst": t.nodes[h]["ip"], "count": 1})
        if pairs:
            a, b = rng.choice(pairs)
            extra.append({"op": "ping", "src": a, "dst": t.nodes[b]["ip"], "count": rng.choice([1, 2])})
    # service exchange (NTP request / reply over UDP): one or two servers; routers permit the service or not
    servers = rng.shuffle(hosts)[: rng.range(1, 2)] if len(hosts) >= 2 else []
    for h in servers:
        t.nodes[h]["flag"] = True
    permit_mode = rng.choice(["all", "all", "some", "none"])
    for r in routers_idx:
        if permit_mode == "all" or (permit_mode == "some" and rng.chance(1, 2)):
            t.nodes[r]["flag"] = True
    notes["permit"] = permit_mode
    clients = [h for h in hosts if h not in servers]
    svc = []
    for cl in clients:
        for sv in servers:
            svc.append({"op": "service", "src": cl, "dst": t.nodes[sv]["ip"]})
    svc = rng.shuffle(svc)[:6]
    if clients and hosts:
        svc.append({"op": "service", "src": clients[0], "dst": "8.8.8.8"})
    extra += via_host + svc + [dict(x) for x in svc[:2]]
    ops += rng.shuffle(extra) if rng.chance(1, 3) else extra
    fws = [n for n in t.nodes if n["kind"] == "firewall"]

    def fw_ok(classes):
        return all(n["permit"] is not None and all([l, c] in n["permit"] for l in range(6) for c in classes) for n in fws)
    all_permit = all(t.nodes[r].get("flag") for r in routers_idx if t.nodes[r]["kind"] != "firewall") and fw_ok([0, 1, 2])
    for n in t.nodes:
        n.pop("used", None)
    for l in t.lans:
        l.pop("switch", None)
    return {"nodes": t.nodes, "links": t.links, "air": t.air, "ping_permit": fw_ok([0, 1]), "ops": ops, "notes": notes, "icmp_ident_zero": rng.chance(1, 10), "all_permit": all_permit,
            "consistent": routing in ("static", "default", "mixed", "shadowed", "none") and not notes.get("gw_is_host")
            and not notes.get("gw_off_subnet") and not notes.get("recable_other")}


def add_loopback_ops(case: dict, rng: Rng) -> dict:
    """Loopback family (ICMP.ping's early case): appended to the ops of a generated case.  Up to two hosts and one router / firewall ping
    127.0.0.1 in whatever state the run left them, then with every cabled interface enabled (another 127.x.y.z as well), then with EVERY
    interface of the node disabled (the answer must be False: `any(nic.enabled …)`), and the interfaces come back up.  Nothing may be sent."""
    nodes = case["nodes"]
    hosts = [n for n, nd in enumerate(nodes) if nd["kind"] == "host"]
    routers = [n for n, nd in enumerate(nodes) if nd["kind"] in ("router", "firewall")]
    chosen = rng.shuffle(hosts)[:2] + rng.shuffle(routers)[:1]
    ops = []
    for n in chosen:
        nd = nodes[n]
        if nd["kind"] == "host":
            ifcs = list(range(1 + len(nd.get("extra", []))))
        else:
            ifcs = [i for i, prt in enumerate(nd["ports"]) if prt]
        other = f"127.{rng.below(256)}.{rng.below(256)}.{rng.range(1, 254)}"
        ops.append({"op": "ping", "src": n, "dst": "127.0.0.1", "count": rng.choice([1, 4])})
        ops += [{"op": "enable", "node": n, "ifc": i} for i in ifcs]
        ops.append({"op": "ping", "src": n, "dst": "127.0.0.1", "count": rng.choice([1, 2])})
        ops.append({"op": "ping", "src": n, "dst": other, "count": rng.choice([1, 4])})
        ops += [{"op": "disable", "node": n, "ifc": i} for i in ifcs]
        ops.append({"op": "ping", "src": n, "dst": "127.0.0.1", "count": rng.choice([1, 4])})
        ops.append({"op": "ping", "src": n, "dst": other, "count": 1})
        ops += [{"op": "enable", "node": n, "ifc": i} for i in ifcs]
    notes = dict(case.get("notes", {}), loopback=len(chosen))
    return dict(case, ops=list(case["ops"]) + ops, notes=notes)


# ------------------------------------------------------------------------------------------ model side
def mac_of(case: dict) -> Dict[Tuple[int, int], int]:
    """model MAC numbers: 1.. in (node, interface) order."""
    out, k = {}, 1
    for n, nd in enumerate(case["nodes"]):
        cnt = 1 + len(nd.get("extra", [])) if nd["kind"] == "host" else (nd["ports"] if nd["kind"] == "switch" else len(nd["ports"]))
        for i in range(cnt):
            out[(n, i)] = k
            k += 1
    return out


def model_lines(case: dict) -> Tuple[List[str], List[int]]:
    macs = mac_of(case)
    linked = set()
    for a, i, b, j in case["links"] + case.get("air", []):
        linked.add((a, i))
        linked.add((b, j))
    lines = ["reset", "net-new"]
    for n, nd in enumerate(case["nodes"]):
        if nd["kind"] == "host":
            lines.append(f"node host 1 {nd['gw'] or '-'}")
            lines.append(f"iface {n} {macs[(n, 0)]} {nd['ip']} {nd['mask']} {1 if (n, 0) in linked else 0}")
            for i, x in enumerate(nd.get("extra", [])):
                lines.append(f"iface {n} {macs[(n, i + 1)]} {x['ip']} {x['mask']} {1 if (n, i + 1) in linked else 0}")
        elif nd["kind"] == "switch":
            lines.append("node switch 1 -")
            for i in range(nd["ports"]):
                lines.append(f"iface {n} {macs[(n, i)]} 0.0.0.0 0.0.0.0 {1 if (n, i) in linked else 0}")
        else:
            lines.append("node router 1 -")
            for i, p in enumerate(nd["ports"]):
                ip, mask = (p["ip"], p["mask"]) if p else ("127.0.0.1", "255.0.0.0")
                lines.append(f"iface {n} {macs[(n, i)]} {ip} {mask} {1 if (n, i) in linked else 0}")
            for r in nd["routes"]:
                lines.append(f"route {n} {r['addr']} {r['mask']} {r['nh']} {r['metric']}")
            if nd["default"]:
                lines.append(f"defroute {n} {nd['default']}")
            if nd["kind"] == "firewall":
                lines.append(f"fw {n}")
                for l, c in (nd["permit"] if nd["permit"] is not None else [[l, c] for l in (0, 1) for c in range(3)]):
                    lines.append(f"fwpermit {n} {l} {c}")
    for a, i, b, j in case["links"] + case.get("air", []):
        lines.append(f"link {a} {i} {b} {j}")
    for n, nd in enumerate(case["nodes"]):
        if nd.get("flag"):
            lines.append(f"setflag {n}")
    lines.append("goodstate")
    op_pos = []
    probes = 0
    for op in case["ops"]:
        if op["op"] == "ping" and probes < 2:
            # nesting budget this ping needs (state untouched); read by the check as evidence for / instance of the fuel bound theorem
            lines.append(f"needfuel {op['src']} {op['dst']} {op['count']}")
            probes += 1
        op_pos.append(len(lines))
        if op["op"] == "ping":
            lines.append(f"ping {op['src']} {op['dst']} {op['count']}")
        elif op["op"] == "service":
            lines.append(f"service {op['src']} {op['dst']}")
        elif op["op"] in ("enable", "disable"):
            lines.append(f"{op['op']} {op['node']} {op['ifc']}")
        elif op["op"] == "inject":
            lines.append(f"inject {op['node']} {op['ifc']} {op['ttl']} {macs[(op['from'], 0)]} {macs[(op['node'], op['ifc'])]} "
                         f"{case['nodes'][op['from']]['ip']} {op['dst']}")
        elif op["op"] == "power":
            lines.append(f"power {op['node']} {op['on']}")
        elif op["op"] == "recable":
            # Network.remove_link + Network.connect + enable of both ends (the NIC last: it says hello to its gateway)
            lines.append(f"unlink {op['node']} {op['ifc']}")
            lines.append(f"link {op['node']} {op['ifc']} {op['sw']} {op['port']}")
            lines.append(f"enable {op['sw']} {op['port']}")
            op_pos[-1] = len(lines)
            lines.append(f"enable {op['node']} {op['ifc']}")
        else:
            lines.append(f"arpclear {op['node']}")
    for n, nd in enumerate(case["nodes"]):
        op_pos.append(len(lines))
        lines.append(f"dumpmac {n}" if nd["kind"] == "switch" else f"dumparp {n}")
    return lines, op_pos


def canon_events(tokens: List[str]) -> List[str]:
    """renumber frame ids by first appearance (the implementation side does the same with object identities)."""
    seen: Dict[str, int] = {}
    out = []
    for tk in tokens:
        parts = tk.split(":")
        if parts[0] == "rx":
            k = seen.setdefault(parts[3], len(seen))
            out.append(f"rx:{parts[1]}:{parts[2]}:{k}:{parts[4]}")
        elif parts[0] == "hop":
            k = seen.setdefault(parts[2], len(seen))
            out.append(f"hop:{parts[1]}:{k}:{parts[3]}")
        elif parts[0] == "sw":
            k = seen.setdefault(parts[2], len(seen))
            out.append(f"sw:{parts[1]}:{k}")
        else:
            out.append(tk)
    return out


def canon_model_answer(line: str) -> str:
    parts = line.split()
    if not parts:
        return line
    if parts[0] in ("0", "1", "ok"):
        return " ".join([parts[0]] + canon_events(parts[1:]))
    return line


# ------------------------------------------------------------------------------------------ implementation side
class Recorder:
    """In-process recorders (class-level wrappers, removed afterwards)."""

    def __init__(self):
        self.events: List[tuple] = []
        self.node_idx: Dict[int, int] = {}
        self.ifc_idx: Dict[int, Tuple[int, int]] = {}
        self._expect_rx_dec = False
        self._router_stack: List[int] = []
        self._saved = []

    def install(self):
        from primaite.simulator.network.hardware.nodes.host.host_node import NIC
        from primaite.simulator.network.hardware.nodes.network.router import Router, RouterInterface
        from primaite.simulator.network.hardware.nodes.network.switch import SwitchPort
        from primaite.simulator.network.transmission.data_link_layer import Frame
        from primaite.simulator.system.core.software_manager import SoftwareManager
        rec = self

        def wrap_rx(cls):
            orig = cls.receive_frame

            def receive_frame(self, frame):
                if self.enabled:
                    n, i = rec.ifc_idx[id(self)]
                    rec.events.append(("rx", n, i, frame, frame.ip.ttl))
                    rec._expect_rx_dec = True
                return orig(self, frame)
            rec._saved.append((cls, "receive_frame", orig))
            cls.receive_frame = receive_frame

        from primaite.simulator.network.hardware.nodes.network.wireless_router import WirelessAccessPoint
        for c in (NIC, RouterInterface, SwitchPort, WirelessAccessPoint):
            wrap_rx(c)
        orig_dec = Frame.decrement_ttl

        def decrement_ttl(self):
            if rec._expect_rx_dec:
                rec._expect_rx_dec = False
            else:
                rec.events.append(("hop", rec._router_stack[-1] if rec._router_stack else -1, self, self.ip.ttl))
            return orig_dec(self)
        rec._saved.append((Frame, "decrement_ttl", orig_dec))
        Frame.decrement_ttl = decrement_ttl
        for name in ("process_frame", "route_frame"):
            orig = getattr(Router, name)

            def mk(orig):
                def f(self, frame, from_network_interface):
                    rec._router_stack.append(rec.node_idx[id(self)])
                    try:
                        return orig(self, frame, from_network_interface)
                    finally:
                        rec._router_stack.pop()
                return f
            rec._saved.append((Router, name, orig))
            setattr(Router, name, mk(orig))
        orig_sw = SoftwareManager.receive_payload_from_session_manager

        def receive_payload_from_session_manager(self, payload, port, protocol, session_id, from_network_interface, frame):
            rec.events.append(("sw", rec.node_idx[id(self.node)], frame, str(frame.ip.dst_ip_address), frame.ethernet.dst_mac_addr))
            return orig_sw(self, payload=payload, port=port, protocol=protocol, session_id=session_id,
                           from_network_interface=from_network_interface, frame=frame)
        rec._saved.append((SoftwareManager, "receive_payload_from_session_manager", orig_sw))
        SoftwareManager.receive_payload_from_session_manager = receive_payload_from_session_manager

    def remove(self):
        for cls, name, orig in reversed(self._saved):
            setattr(cls, name, orig)
        self._saved = []

    def take(self) -> List[tuple]:
        ev, self.events = self.events, []
        self._expect_rx_dec = False
        self._router_stack = []
        return ev


APP_RULES = [("UDP", "DNS"), ("TCP", "DNS"), ("TCP", "POSTGRES_SERVER"), ("UDP", "POSTGRES_SERVER")]


def build_impl(case: dict, rec: Recorder, app_acl: Optional[dict] = None):
    from primaite.simulator.network.container import Network
    from primaite.simulator.network.hardware.nodes.host.computer import Computer
    from primaite.simulator.network.hardware.nodes.network.router import Router
    from primaite.simulator.network.hardware.nodes.network.switch import Switch
    net = Network()
    objs = []
    CLS_RULE = {0: {"protocol": "UDP", "src_port": "ARP", "dst_port": "ARP"}, 1: {"protocol": "ICMP"},
                2: {"protocol": "UDP", "src_port": "NTP", "dst_port": "NTP"}}
    FW_LISTS = ["external_inbound_acl", "external_outbound_acl", "internal_inbound_acl", "internal_outbound_acl", "dmz_inbound_acl",
                "dmz_outbound_acl"]
    for n, nd in enumerate(case["nodes"]):
        routes = [{"address": r["addr"], "subnet_mask": r["mask"], "next_hop_ip_address": r["nh"], "metric": r["metric"]}
                  for r in nd.get("routes", [])]
        if nd["kind"] == "host":
            cfg = {"type": "computer", "hostname": f"h{n}", "ip_address": nd["ip"], "subnet_mask": nd["mask"], "start_up_duration": 0,
                   "shut_down_duration": 0}
            if nd["gw"]:
                cfg["default_gateway"] = nd["gw"]
            o = Computer.from_config(config=cfg)
            for x in nd.get("extra", []):  # a multi-homed host
                from primaite.simulator.network.hardware.nodes.host.host_node import NIC
                o.connect_nic(NIC(ip_address=x["ip"], subnet_mask=x["mask"], gateway=nd["gw"] or "0.0.0.0"))
            if nd.get("flag"):
                from primaite.simulator.system.services.ntp.ntp_server import NTPServer
                o.software_manager.install(NTPServer)
        elif nd["kind"] == "switch":
            o = Switch.from_config(config={"type": "switch", "hostname": f"s{n}", "num_ports": nd["ports"], "start_up_duration": 0,
                                           "shut_down_duration": 0})
        elif nd["kind"] == "firewall":
            from primaite.simulator.network.hardware.nodes.network.firewall import Firewall
            cfg = {"type": "firewall", "hostname": f"f{n}", "start_up_duration": 0, "shut_down_duration": 0, "routes": routes}
            if nd["default"]:
                cfg["default_route"] = {"next_hop_ip_address": nd["default"]}
            if nd["permit"] is not None:
                # every list gets one explicit rule per payload class, so its implicit action never decides
                cfg["acl"] = {name: {c + 1: dict(CLS_RULE[c], action="PERMIT" if [l, c] in nd["permit"] else "DENY") for c in range(3)}
                              for l, name in enumerate(FW_LISTS)}
            o = Firewall.from_config(cfg)
            o.power_on()
            for i, p in enumerate(nd["ports"]):
                if p:
                    o.configure_port(i + 1, p["ip"], p["mask"])
        elif nd["kind"] == "wrouter":
            from primaite.simulator.network.hardware.nodes.network.wireless_router import WirelessRouter
            cfg = {"type": "wireless-router", "hostname": f"w{n}", "start_up_duration": 0, "shut_down_duration": 0, "routes": routes}
            if nd["ports"][0]:
                cfg["wireless_access_point"] = {"ip_address": nd["ports"][0]["ip"], "subnet_mask": nd["ports"][0]["mask"],
                                                "frequency": "WIFI_2_4"}
            if nd["ports"][1]:
                cfg["router_interface"] = {"ip_address": nd["ports"][1]["ip"], "subnet_mask": nd["ports"][1]["mask"]}
            if nd.get("flag"):
                cfg["acl"] = {1: {"action": "PERMIT", "protocol": "UDP", "src_port": "NTP", "dst_port": "NTP"}}
            o = WirelessRouter.from_config(cfg, airspace=net.airspace)
            if nd["default"]:
                o.route_table.set_default_route_next_hop_ip_address(nd["default"])
        else:
            cfg = {"type": "router", "hostname": f"r{n}", "num_ports": len(nd["ports"]), "start_up_duration": 0, "shut_down_duration": 0,
                   "ports": {i + 1: {"ip_address": p["ip"], "subnet_mask": p["mask"]} for i, p in enumerate(nd["ports"]) if p},
                   "routes": routes}
            if nd["default"]:
                cfg["default_route"] = {"next_hop_ip_address": nd["default"]}
            if nd.get("flag"):
                cfg["acl"] = {1: {"action": "PERMIT", "protocol": "UDP", "src_port": "NTP", "dst_port": "NTP"}}
            if app_acl:
                cfg.setdefault("acl", {})
                k2 = 2
                for kind in app_acl.get(str(n), []):
                    for proto in ("TCP", "UDP"):
                        cfg["acl"][k2] = {"action": "PERMIT", "protocol": proto, "src_port": SVC_PORT[kind], "dst_port": SVC_PORT[kind]}
                        k2 += 1
            o = Router.from_config(config=cfg)
        o.power_on()
        net.add_node(o)
        objs.append(o)
        rec.node_idx[id(o)] = n
        for i, ifc in enumerate(o.network_interfaces.values()):
            rec.ifc_idx[id(ifc)] = (n, i)
    ifaces = [list(o.network_interfaces.values()) for o in objs]
    for a, i, b, j in case["links"]:
        net.connect(endpoint_a=ifaces[a][i], endpoint_b=ifaces[b][j])
    for a, i, b, j in case["links"] + case.get("air", []):  # everything up (routers' ports need an explicit enable)
        ifaces[a][i].enable()
        ifaces[b][j].enable()
    for n, nd in enumerate(case["nodes"]):  # a wireless access point comes up without a link; unused ones stay down
        if nd["kind"] == "wrouter" and not any(n in (a, b) for a, i, b, j in case.get("air", [])):
            ifaces[n][0].disable()
    # known initial state: cold caches, empty MAC tables, idle links
    for o in objs:
        if hasattr(o, "mac_address_table"):
            o.mac_address_table.clear()
        else:
            o.software_manager.arp.clear()
            o.software_manager.icmp.clear()
    for link in net.links.values():
        link.current_load = 0.0
    net.airspace.reset_bandwidth_load()
    rec.take()
    return net, objs, ifaces


def run_impl(case: dict) -> Tuple[List[str], List[dict]]:
    """answers aligned with model op positions (+ final dumps), and per-op raw records for the oracle."""
    rec = Recorder()
    rec.install()
    answers: List[str] = []
    records: List[dict] = []
    import types
    import primaite.simulator.network.protocols.icmp as _icmp_mod
    orig_secrets = _icmp_mod.secrets
    if case.get("icmp_ident_zero"):  # the value `secrets.randbits(16)` yields once in 65536 draws (only ICMPPacket sees the stub)
        draws = [0]

        def randbits(k):  # every other draw is 0, the others are distinct
            draws[0] += 1
            return 0 if draws[0] % 2 == 1 else 30000 + draws[0]
        # since the F-9 repair (b6300b7) a generated identifier is `10000 + secrets.randbelow(55536)`: it can no longer be 0 (the
        # F-34 situation is unreachable by generation).  What the family means now: every other ping draws the SMALLEST
        # identifier 10000 again, i.e. identifiers are REUSED across pings of one host and of different hosts — the model (fresh
        # identifier per ping) only agrees while ICMP.ping clears `request_replies[identifier]` after reading it (checked by
        # mutation: without the `pop`, 5 violations, all in this family)
        _icmp_mod.secrets = types.SimpleNamespace(randbits=randbits, randbelow=lambda n: randbits(16) % n)
    try:
        try:
            net, objs, ifaces = build_impl(case, rec)
        except Exception as e:
            if isinstance(e, RecursionError) or "recursion" in str(e).lower():
                rec.take()
                return ["OOF"], [{"op": {"op": "build"}, "res": "OOF", "raw": [], "owners": {}}]
            raise
        macnum: Dict[str, int] = {}
        k = 1
        for n, lst in enumerate(ifaces):
            for ifc in lst:
                macnum[ifc.mac_address] = k
                k += 1
        owners: Dict[str, int] = {}
        for n, lst in enumerate(ifaces):
            for ifc in lst:
                if hasattr(ifc, "ip_address"):
                    owners.setdefault(str(ifc.ip_address), n)
        dead = False
        for op in case["ops"]:
            if dead:
                answers.append("skipped")
                continue
            for link in net.links.values():
                link.current_load = 0.0
            net.airspace.reset_bandwidth_load()
            res = "ok"
            try:
                if op["op"] == "ping":
                    res = "1" if objs[op["src"]].ping(op["dst"], pings=op["count"]) else "0"
                elif op["op"] == "service":
                    from ipaddress import IPv4Address
                    cl = objs[op["src"]].software_manager.software["ntp-client"]
                    cl.time = None
                    cl.configure(IPv4Address(op["dst"]))
                    cl.request_time()
                    res = "1" if cl.time is not None else "0"
                elif op["op"] == "enable":
                    ifaces[op["node"]][op["ifc"]].enable()
                elif op["op"] == "disable":
                    ifaces[op["node"]][op["ifc"]].disable()
                elif op["op"] == "inject":
                    from primaite.simulator.network.protocols.icmp import ICMPPacket, ICMPType
                    from primaite.simulator.network.transmission.data_link_layer import EthernetHeader, Frame
                    from primaite.simulator.network.transmission.network_layer import IPPacket
                    from primaite.utils.validation.ip_protocol import PROTOCOL_LOOKUP
                    port = ifaces[op["node"]][op["ifc"]]
                    fr = Frame(ethernet=EthernetHeader(src_mac_addr=ifaces[op["from"]][0].mac_address, dst_mac_addr=port.mac_address),
                               ip=IPPacket(src_ip_address=case["nodes"][op["from"]]["ip"], dst_ip_address=op["dst"],
                                           protocol=PROTOCOL_LOOKUP["ICMP"], ttl=op["ttl"]),
                               icmp=ICMPPacket(icmp_type=ICMPType.ECHO_REQUEST, identifier=9000 + len(records), sequence=0))
                    port.receive_frame(fr)
                elif op["op"] == "recable":
                    nic = ifaces[op["node"]][op["ifc"]]
                    net.remove_link(nic._connected_link)
                    net.connect(endpoint_a=nic, endpoint_b=ifaces[op["sw"]][op["port"]])
                    ifaces[op["sw"]][op["port"]].enable()
                    nic.enable()
                elif op["op"] == "power":
                    if op["on"]:
                        objs[op["node"]].power_on()
                    else:
                        objs[op["node"]].power_off()
                else:
                    objs[op["node"]].software_manager.arp.clear()
            except Exception as e:  # RecursionError, also wrapped by pydantic's serializer inside Frame.size
                if isinstance(e, RecursionError) or "recursion" in str(e).lower():
                    res = "OOF"
                    dead = True
                else:
                    # any other exception out of the code under test is an ANSWER the model does not give (a violation with a replay),
                    # not a crash of the check
                    res = "EXC:" + type(e).__name__
            raw = rec.take()
            toks = []
            for e in raw:
                if e[0] == "rx":
                    toks.append(f"rx:{e[1]}:{e[2]}:{id(e[3])}:{e[4]}")
                elif e[0] == "hop":
                    toks.append(f"hop:{e[1]}:{id(e[2])}:{e[3]}")
                else:
                    toks.append(f"sw:{e[1]}:{id(e[2])}")
            if res == "OOF":
                answers.append("OOF")
            elif res.startswith("EXC:"):
                answers.append(res)
            elif op["op"] in ("ping", "enable", "service", "recable", "inject") or (op["op"] == "power" and op["on"]):
                answers.append(" ".join([res] + canon_events(toks)))
            else:
                answers.append("ok")
            records.append({"op": op, "res": res, "raw": raw, "owners": owners})
        for n, o in enumerate(objs):
            if dead:
                answers.append("skipped")
            elif hasattr(o, "mac_address_table"):
                ports = {id(p): i for i, p in enumerate(o.network_interfaces.values())}
                ents = sorted((macnum.get(m, -1), ports[id(p)]) for m, p in o.mac_address_table.items())
                answers.append("mac " + " ".join(f"{m}@{p}" for m, p in ents))
            else:
                uu = {u: i for i, u in enumerate(o.network_interfaces.keys())}
                ents = sorted((int(ip), f"{ip}>{macnum.get(e.mac_address, -1)}@{uu[e.network_interface_uuid]}")
                              for ip, e in o.software_manager.arp.arp.items())
                answers.append("arp " + " ".join(s for _, s in ents))
    finally:
        _icmp_mod.secrets = orig_secrets
        rec.remove()
    return answers, records


SVC = {"dns": 53, "db": 5432, "web": 80, "ftp": 21}
SVC_PORT = {"dns": "DNS", "db": "POSTGRES_SERVER", "web": "HTTP", "ftp": "FTP"}
# one implementation-level operation = these model requests (service, answered-with-a-frame?), in order
APP_OPS = {"dns": [("dns", 1)], "db-connect": [("db", 1)], "db-query": [("db", 1)], "web": [("web", 1)],
           "ftp": [("ftp", 1)]}  # ftp: ONE driver line (`ftp`: PORT [PORT] STOR QUIT composed in the driver)


def add_app_plan(case: dict, rng: Rng) -> dict:
    """which server software the first host runs, which services each router permits, which exchanges each client tries"""
    hosts = [n for n, nd in enumerate(case["nodes"]) if nd["kind"] == "host"]
    routers = [n for n, nd in enumerate(case["nodes"]) if nd["kind"] == "router"]
    mode = rng.choice(["all", "all", "some-servers", "some-permits"])
    installed = list(SVC) if mode != "some-servers" else [k for k in SVC if rng.chance(1, 2)]
    permit = {str(r): (list(SVC) if mode != "some-permits" else [k for k in SVC if rng.chance(2, 3)]) for r in routers}
    ops = []
    for cl in hosts[1:4]:
        for kind in rng.shuffle(["dns", "db-connect", "web", "ftp"]):
            ops.append({"kind": kind, "src": cl})
            if kind == "db-connect":
                ops.append({"kind": "db-query", "src": cl})
    return dict(case, ops=[], app={"server": hosts[0], "installed": installed, "permit": permit, "ops": ops, "mode": mode})


def app_model_lines(case: dict) -> Tuple[List[str], List[List[int]]]:
    """driver lines of an application case and, per implementation-level operation, the positions of its model requests"""
    base = dict(case, ops=[])
    lines, _ = model_lines(base)
    lines = lines[:lines.index("goodstate")]
    plan = case["app"]
    for n, nd in enumerate(case["nodes"]):  # every Computer runs dns-client, web-browser and ftp-client: their ports are open
        if nd["kind"] == "host":
            for k in ("dns", "web", "ftp"):
                lines.append(f"setport {n} {SVC[k]}")
    for k in plan["installed"]:
        lines.append(f"setserve {plan['server']} {SVC[k]}")
        if k == "db":
            lines.append(f"setport {plan['server']} {SVC[k]}")
    for r, ks in plan["permit"].items():
        for k in ks:
            lines.append(f"setserve {r} {SVC[k]}")
    sip = case["nodes"][plan["server"]]["ip"]
    groups = []
    for op in plan["ops"]:
        g = []
        if op["kind"] == "db-connect":  # the operation installs and runs the database client: its port opens
            lines.append(f"setport {op['src']} {SVC['db']}")
        for svc, reply in APP_OPS[op["kind"]]:
            g.append(len(lines))
            if op["kind"] == "ftp":
                lines.append(f"ftp {op['src']} {sip} {plan['server']}")
            else:
                lines.append(f"{'appif' if op['kind'] == 'db-query' else 'app'} {op['src']} {sip} {SVC[svc]} {reply}")
        groups.append(g)
    return lines, groups


def run_apps(case: dict) -> List[dict]:
    """R-app, implementation side: REAL application exchanges — DNS look-up, database connect and query, web page request,
    FTP file transfer — from up to three hosts to the first host across the generated plain routers, cold caches.  Which server
    software runs and which ports each router permits follows the case's plan.  One record per operation: result, raw events."""
    from ipaddress import IPv4Address
    plan = case["app"]
    rec = Recorder()
    rec.install()
    records: List[dict] = []
    try:
        net, objs, ifaces = build_impl(case, rec, app_acl=plan["permit"])
        owners: Dict[str, int] = {}
        for n, lst in enumerate(ifaces):
            for ifc in lst:
                if hasattr(ifc, "ip_address"):
                    owners.setdefault(str(ifc.ip_address), n)
        srv = plan["server"]
        sip = IPv4Address(case["nodes"][srv]["ip"])
        from primaite.simulator.system.applications.database_client import DatabaseClient
        from primaite.simulator.system.services.database.database_service import DatabaseService
        from primaite.simulator.system.services.dns.dns_server import DNSServer
        from primaite.simulator.system.services.ftp.ftp_server import FTPServer
        from primaite.simulator.system.services.web_server.web_server import WebServer
        for k, cls in (("dns", DNSServer), ("db", DatabaseService), ("web", WebServer), ("ftp", FTPServer)):
            if k in plan["installed"]:
                objs[srv].software_manager.install(cls)
        if "dns" in plan["installed"]:
            objs[srv].software_manager.software["dns-server"].dns_register("verif.example", sip)
        rec.take()
        for op in plan["ops"]:
            cl, kind = op["src"], op["kind"]
            sm = objs[cl].software_manager
            res = "0"
            try:
                if kind == "dns":
                    dc = sm.software["dns-client"]
                    dc.dns_server = sip
                    dc.dns_cache.clear()
                    res = "1" if dc.check_domain_exists("verif.example") else "0"
                elif kind == "db-connect":
                    sm.install(DatabaseClient)
                    app = sm.software["database-client"]
                    app.run()
                    app.configure(server_ip_address=sip)
                    app.native_connection = None
                    res = "1" if app.connect() else "0"
                elif kind == "db-query":
                    app = sm.software["database-client"]
                    res = "1" if (app.native_connection is not None and app.query("SELECT")) else "0"
                elif kind == "web":
                    wb = sm.software["web-browser"]
                    wb.run()
                    sm.software["dns-client"].dns_server = None  # an address, not a name: no look-up in front of the request
                    res = "1" if wb.get_webpage(f"http://{sip}/") else "0"
                else:
                    if not objs[cl].file_system.get_file(folder_name="root", file_name="verif.txt"):
                        objs[cl].file_system.create_file(file_name="verif.txt", folder_name="root")
                    res = "1" if sm.software["ftp-client"].send_file(dest_ip_address=sip, src_folder_name="root", src_file_name="verif.txt",
                                                                     dest_folder_name="in", dest_file_name=f"v{cl}.txt") else "0"
            except Exception as e:
                if isinstance(e, RecursionError) or "recursion" in str(e).lower():
                    res = "OOF"
                else:
                    raise
            raw = rec.take()
            toks = []
            for e in raw:
                if e[0] == "rx":
                    toks.append(f"rx:{e[1]}:{e[2]}:{id(e[3])}:{e[4]}")
                elif e[0] == "hop":
                    toks.append(f"hop:{e[1]}:{id(e[2])}:{e[3]}")
                else:
                    toks.append(f"sw:{e[1]}:{id(e[2])}")
            records.append({"op": {"op": "app:" + kind, "src": cl, "dst": str(sip)}, "res": res, "raw": raw, "owners": owners,
                            "answer": " ".join([res] + canon_events(toks))})
            if res == "OOF":
                return records
    finally:
        rec.remove()
    return records


def app_model_answers(out: List[str], groups: List[List[int]], case: dict) -> List[str]:
    """model answers per implementation-level operation: success = the answered request of the group got its answer"""
    answers = []
    for g, op in zip(groups, case["app"]["ops"]):
        toks: List[str] = []
        ok = "1"
        for p, (svc, reply) in zip(g, APP_OPS[op["kind"]]):
            parts = out[p].split()
            if reply and parts[0] != "1":
                ok = "0"
            toks += parts[1:]
        answers.append(" ".join([ok] + canon_events(toks)))
    return answers


def arp_sound_oracle(case: dict, answers: List[str]) -> Optional[dict]:
    """Conclusion of theorem C08_arp_sound_preserved evaluated on the IMPLEMENTATION's final ARP caches: every entry ip -> mac
    names an interface that carries ip, or a router interface.  Only meaningful when the model's `goodstate` check holds."""
    macs = mac_of(case)
    owner = {}
    for (n, i), m in macs.items():
        nd = case["nodes"][n]
        if nd["kind"] == "host":
            owner[m] = ("host", nd["ip"] if i == 0 else nd["extra"][i - 1]["ip"])
        elif nd["kind"] in L3_KINDS:
            p = nd["ports"][i]
            owner[m] = ("router", p["ip"] if p else "127.0.0.1")
        else:
            owner[m] = ("switch", None)
    dumps = answers[len(case["ops"]):]
    for n, line in enumerate(dumps):
        if not line.startswith("arp"):
            continue
        for ent in line.split()[1:]:
            ip, rest = ent.split(">")
            mac = int(rest.split("@")[0])
            kind, oip = owner.get(mac, ("?", None))
            if not (kind == "router" or oip == ip):
                return {"kind": "arp-cache-unsound", "op": len(case["ops"]), "what": f"node {n} caches {ip} -> MAC of {kind} {oip}"}
    return None


def oracle(case: dict, records: List[dict]) -> Optional[dict]:
    """The property's own statement evaluated on the IMPLEMENTATION's records (independent of the Lean model):
    (a) handling terminates (no RecursionError); (b) along one frame object every receive / routing hop sees a TTL one
    lower than the previous and nothing is processed with an exhausted TTL; (c) software is handed a unicast frame only on
    the node owning its destination address; (d) on a consistent, fully-up topology every host-to-host ping succeeds."""
    down = set()
    off = set()
    moved = set()  # hosts re-cabled at run time: until they have spoken through the moved NIC their switch may still point at the
    # old port, so exchanges with them may legitimately fail; oracle (d) leaves them to the model comparison (the model re-learns
    # exactly as `C08_switch_learns_last_port` says), (a)-(c) still apply
    ip_of = {nd["ip"]: n for n, nd in enumerate(case["nodes"]) if nd["kind"] == "host"}
    for k, r in enumerate(records):
        op = r["op"]
        if op["op"] == "recable":
            moved.add(op["node"])
        elif op["op"] in ("ping", "service") and (op["src"] in moved or ip_of.get(op.get("dst")) in moved):
            op = dict(op, op=op["op"] + "-with-moved-host")
        if r["res"] == "OOF":
            return {"kind": "non-termination", "op": k, "what": f"RecursionError while handling {op}"}
        last: Dict[int, int] = {}
        for e in r["raw"]:
            if e[0] in ("rx", "hop"):
                fr = e[3] if e[0] == "rx" else e[2]
                ttl = e[4] if e[0] == "rx" else e[3]
                if id(fr) in last and ttl != last[id(fr)] - 1:
                    return {"kind": "ttl-not-decremented", "op": k, "what": f"frame seen with TTL {ttl} after TTL {last[id(fr)]} in {op}"}
                if e[0] == "hop" and ttl < 1:
                    return {"kind": "ttl-exhausted-processed", "op": k, "what": f"router considered a frame with TTL {ttl} for forwarding in {op}"}
                last[id(fr)] = ttl
            else:
                _, node, fr, dst_ip, dst_mac = e
                if id(fr) in last and last[id(fr)] - 1 < 1:
                    return {"kind": "ttl-exhausted-processed", "op": k, "what": f"software handed a frame whose TTL is {last[id(fr)] - 1} in {op}"}
                if dst_mac != "ff:ff:ff:ff:ff:ff" and r["owners"].get(dst_ip) != node:
                    return {"kind": "misdelivery", "op": k, "what": f"node {node} software was handed a unicast frame for {dst_ip} in {op}"}
        if op["op"] == "disable":
            down.add((op["node"], op["ifc"]))
        elif op["op"] == "enable":
            if op["node"] not in off:
                down.discard((op["node"], op["ifc"]))
        elif op["op"] == "power":
            if op["on"]:
                off.discard(op["node"])
                down = {x for x in down if x[0] != op["node"]}
            else:
                off.add(op["node"])
        elif op["op"] == "service" and case.get("consistent") and case.get("all_permit") and not down and not off and r["res"] != "1":
            servers_ip = {nd["ip"] for nd in case["nodes"] if nd["kind"] == "host" and nd.get("flag")}
            if op["dst"] in servers_ip:
                return {"kind": "permitted-exchange-failed", "op": k, "what": f"service request {op['src']} -> {op['dst']} got no reply on a consistent, fully-up, all-permitting topology"}
        elif op["op"].startswith("app:") and case.get("consistent") and r["res"] != "1":
            return {"kind": "permitted-exchange-failed", "op": k, "what": f"application exchange {op['op']} {op['src']} -> {op['dst']} failed on a consistent, fully-up topology whose routers permit it"}
        elif op["op"] == "ping" and case.get("consistent") and case.get("ping_permit", True) and not down and not off and r["res"] != "1":
            hosts_ip = {nd["ip"]: n for n, nd in enumerate(case["nodes"]) if nd["kind"] == "host"}
            if op["dst"] in hosts_ip:
                return {"kind": "permitted-exchange-failed", "op": k, "what": f"ping {op['src']} -> {op['dst']} failed on a consistent, fully-up topology"}
    return None
