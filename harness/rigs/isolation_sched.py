"""R-env (C04 part, episode schedules): every episode of a long-lived, episode-scheduled environment against a FRESH environment that is
constructed directly from that episode's scenario.

(e) schedule freshness     a scenario FOLDER (schedule.yaml + base scenario + variant files) is driven through K resets (K larger than the
                           number of schedule entries, so the schedule wraps; schedules repeat file combinations); every episode k >= 1 is
                           `reset(seed=s_k)` + a generated action sequence. The reference for episode k is a new environment, in a process
                           state normalised to what a new interpreter has, built from the DICT that an independent join of the folder's
                           files gives for entry k (not through EpisodeListScheduler), `reset(seed=s_k)`, same actions.
                           Compared: trajectory (observation, reward, flags, every agent's action/request/response), whole describe_state,
                           and the fingerprint of every run-time written process global that an operation may read (`globals`).
(f) generated folders      schedules whose episodes differ in nmne_config (absent / empty / on / off / other keywords), thresholds, game
                           seed, node attributes (power state, ACL, services), node sets (another generated topology), agent sets.
Nothing here looks at what a particular defect does: the oracle is the property's first sentence."""
from __future__ import annotations

import copy
import re
import tempfile
from collections.abc import Sequence as _Seq
from pathlib import Path
from typing import Any, Callable, Dict, List, Optional, Tuple

import yaml

from harness.gen import scenario as gsc
from harness.lib import scen
from harness.lib.core import Rng
from harness.rigs import isolation as iso


# ------------------------------------------------------------------------------------------------ reading a folder (independent of primaite)
def read_folder(folder) -> Dict[str, Any]:
    folder = Path(folder)
    sch = yaml.safe_load((folder / "schedule.yaml").read_text())
    entries = sch["schedule"]
    keys = sorted(entries)
    if keys != list(range(len(keys))):
        raise ValueError(f"schedule keys are not 0..n-1: {keys}")
    return {"folder": folder, "base": (folder / sch["base_scenario"]).read_text(), "entries": [list(entries[k]) for k in keys],
            "texts": {fn: (folder / fn).read_text() for fns in entries.values() for fn in fns}}


def join_cfg(fd: Dict[str, Any], k: int) -> Dict:
    """The scenario of episode k as the documentation defines it: the variant files of entry (k mod n) followed by the base scenario, as ONE
    YAML document; placeholders that expand to lists of agents are flattened. Parsed anew on every call."""
    files = fd["entries"][k % len(fd["entries"])]
    cfg = yaml.safe_load("\n".join([fd["texts"][fn] for fn in files] + [fd["base"]]))
    flat = []
    for a in cfg["agents"]:
        if isinstance(a, _Seq) and not isinstance(a, (str, bytes)):
            flat.extend(a)
        else:
            flat.append(a)
    cfg["agents"] = flat
    return copy.deepcopy(cfg)   # aliases of the YAML document become separate objects: the reference must not depend on sharing


# ------------------------------------------------------------------------------------------------ the differential
def schedule_freshness(folder, rng: Rng, n_episodes: int, n_steps: int, globals_fp: Optional[Callable[[], Dict[str, str]]] = None,
                       only: Optional[List[int]] = None, plan: Optional[List[dict]] = None) -> dict:
    """Long-lived environment over episodes 0..n_episodes (episode 0 = construction), fresh environments for episodes 1..n_episodes
    (or the ones in `only`). Returns {"diffs": [(k, diff)], "plan": [...], ...}."""
    from primaite.session.environment import PrimaiteGymEnv
    fd = read_folder(folder)
    if plan is None:
        plan = []
        for k in range(n_episodes + 1):
            r = rng.fork(f"ep{k}")
            plan.append({"seed": r.below(2 ** 31) if k % 3 else [0, None][(k // 3) % 2], "acts": [0 if r.chance(1, 6) else r.below(2 ** 16) for _ in range(n_steps if k else max(2, n_steps // 2))]})

    def ops_of(k: int) -> List[Tuple]:
        return [("reset", plan[k]["seed"])] + [("step", a) for a in plan[k]["acts"]]

    saved_rng: Dict[int, Any] = {}

    def run_episode(env, k: int, reference: bool = False) -> List[Dict[str, str]]:
        canon = iso.Canon()
        out = []
        for op in ops_of(k):
            if op[0] == "reset" and op[1] is None:
                # `reset()` without a seed keeps the generators running (Gymnasium): the reference starts its reset from the generator
                # state the long-lived environment had at its reset; everything else must not depend on the past
                if reference:
                    iso.hand_rng(env, saved_rng[k])
                else:
                    saved_rng[k] = iso.env_rng(env)
            rec = iso.run_ops(env, [op], canon, with_rng=True)[0]
            if op[0] == "reset" and globals_fp is not None:
                rec["globals"] = canon.text(globals_fp())
            out.append(rec)
        return out

    iso.normalise_process_state()
    env = PrimaiteGymEnv(env_config=str(fd["folder"]))
    for a in plan[0]["acts"]:
        try:
            env.step(a % int(env.action_space.n))
        except Exception:
            break
    used: Dict[int, List[Dict[str, str]]] = {}
    dirt: Dict[str, int] = {}
    for k in range(1, len(plan)):
        used[k] = run_episode(env, k)
        try:
            for ag in env.game.agents.values():
                for it in ag.history:
                    if it.action != "do-nothing":
                        key = f"history-action:{it.action}:{getattr(it.response, 'status', '?')}"
                        dirt[key] = dirt.get(key, 0) + 1
        except Exception:
            pass
    try:
        env.close()
    except Exception:
        pass
    diffs = []
    compared = []
    for k in (only if only is not None else range(1, len(plan))):
        iso.normalise_process_state()
        cfg_k = join_cfg(fd, k)
        fresh = PrimaiteGymEnv(env_config=cfg_k)
        t = run_episode(fresh, k, reference=True)
        try:
            fresh.close()
        except Exception:
            pass
        d = first_difference(used[k], t)
        compared.append(k)
        if d is not None:
            d["entry"] = k % len(fd["entries"])
            d["files"] = fd["entries"][k % len(fd["entries"])]
            d["first_use_of_files"] = fd["entries"][k % len(fd["entries"])] not in [fd["entries"][j % len(fd["entries"])] for j in range(k)]
            diffs.append((k, d))
    return {"diffs": diffs, "plan": plan, "compared": compared, "entries": fd["entries"], "digests": {k: iso.digest(v) for k, v in used.items()},
            "dirt": dirt, "raised": sum(1 for v in used.values() for r in v if r.get("flags") == "raised")}


def first_difference(t1, t2) -> Optional[dict]:
    d = iso.first_difference(t1, t2)
    if d is not None:
        return d
    for i, (r1, r2) in enumerate(zip(t1, t2)):
        if r1.get("globals") != r2.get("globals"):
            return {"index": i, "component": "globals", **iso._where(r1.get("globals"), r2.get("globals"))}
    return None


# ------------------------------------------------------------------------------------------------ generated folders
NMNE_CHOICES: List[Optional[Dict]] = [
    None,                                                     # no nmne_config key at all
    {},                                                       # an empty section
    {"capture_nmne": True, "nmne_capture_keywords": ["DELETE"]},
    {"capture_nmne": True, "nmne_capture_keywords": ["SELECT", "DELETE"], "capture_by_keyword": True},
    {"capture_nmne": False},
    {"capture_nmne": True, "nmne_capture_keywords": ["DELETE"], "capture_by_ip_address": True, "capture_by_port": True},
]
THRESHOLD_CHOICES: List[Optional[Dict]] = [
    None,
    {"nmne": {"high": 3, "medium": 2, "low": 1}},
    {"nmne": {"high": 10, "medium": 5, "low": 0}, "file_access": {"high": 4, "medium": 2, "low": 1}},
    {"app_executions": {"high": 3, "medium": 2, "low": 1}, "file_access": {"high": 9, "medium": 3, "low": 2}},
]


LOG_LEVELS = ["DEBUG", "INFO", "WARNING", "ERROR", "CRITICAL"]
DEFAULT_KEYS = ["node_start_up_duration", "node_shut_down_duration", "node_scan_duration", "folder_scan_duration", "folder_restore_duration"]
AIR_CHOICES: List[Optional[Dict[str, float]]] = [None, {"WIFI_2_4": 0.001}, {"WIFI_2_4": 0.001, "WIFI_5": 0.001}, {"WIFI_5": 50.0}, {"WIFI_2_4": 3.5}]


def _io_variant(rng: Rng) -> Dict:
    """io_settings of one episode: every kind of file / terminal output stays OFF (the rig must not write), what varies is what the
    settings leave in SIM_OUTPUT (log levels) and the per-game `save_step_metadata` flag being spelled out or left to its default"""
    io = dict(scen.QUIET_IO)
    if rng.chance(2, 3):
        io["sys_log_level"] = rng.choice(LOG_LEVELS)
    if rng.chance(2, 3):
        io["agent_log_level"] = rng.choice(LOG_LEVELS)
    if rng.chance(1, 3):
        io.pop("save_step_metadata", None)   # default False
    return io


def _defaults_variant(rng: Rng) -> Dict:
    """the top-level `defaults` section: durations that from_config copies onto every node of that episode (0 and 1 included)"""
    d: Dict[str, int] = {}
    for k in DEFAULT_KEYS:
        if rng.chance(1, 2):
            d[k] = rng.choice([0, 1, 2, 3, 5])
    return d


def _anchored(key: str, value: Any) -> str:
    """one YAML file with a single top-level key that carries an anchor of the same name"""
    text = yaml.safe_dump({key: value}, sort_keys=False, default_flow_style=False)
    head, sep, rest = text.partition("\n")
    m = re.match(r"^(\w+):(.*)$", head)
    if not m or m.group(1) != key:
        raise ValueError(f"unexpected dump of {key}: {head!r}")
    return f"{key}: &{key}{m.group(2)}{sep}{rest}"


def _net_variant(rng: Rng, net: Dict, force_nmne: Any = "free") -> Dict:
    """a perturbed copy of a network section: NMNE settings, node attributes (a host switched off, an ACL rule more or fewer,
    a service removed), same host names so that any agent set of the topology fits"""
    net = copy.deepcopy(net)
    net.pop("nmne_config", None)
    nm = rng.choice(NMNE_CHOICES) if force_nmne == "free" else force_nmne
    if nm is not None:
        net["nmne_config"] = copy.deepcopy(nm)
    nodes = net.get("nodes", [])
    hosts = [n for n in nodes if n.get("type") in ("computer", "server")]
    routers = [n for n in nodes if n.get("type") in ("router", "firewall")]
    for _ in range(rng.below(3)):
        r = rng.below(4)
        if r == 0 and hosts:
            rng.choice(hosts)["operating_state"] = rng.choice(["OFF", "ON"])
        elif r == 1 and routers:
            ro = rng.choice([x for x in routers if x["type"] == "router"] or routers)
            acl = ro.get("acl")
            if isinstance(acl, dict) and acl and all(isinstance(k, int) for k in acl):
                if rng.chance(1, 2):
                    acl.pop(rng.choice(sorted(acl)))
                else:
                    acl[rng.choice([k for k in range(1, 20) if k not in acl] or [19])] = {"action": rng.choice(["PERMIT", "DENY"]), "protocol": rng.choice(["TCP", "UDP", "ICMP"])}
        elif r == 2 and hosts:
            h = rng.choice(hosts)
            if len(h.get("folders") or []) > 1:
                h["folders"] = h["folders"][:-1]
        elif r == 3 and hosts:
            h = rng.choice(hosts)
            h.setdefault("folders", []).append({"folder_name": f"extra{rng.below(100)}", "files": [{"file_name": "note.txt"}]})
    return net


def _game_variant(rng: Rng) -> Dict:
    g: Dict[str, Any] = {}
    th = rng.choice(THRESHOLD_CHOICES)
    if th is not None:
        g["thresholds"] = copy.deepcopy(th)
    if rng.chance(1, 2):
        g["seed"] = rng.range(1, 10 ** 6)
    return g


def _agent_variant(rng: Rng, agents: List[Dict]) -> List[Dict]:
    """the RL agent stays; scripted agents are dropped at random (reward sharing with a dropped agent is removed)"""
    keep = [copy.deepcopy(a) for a in agents if a.get("type") == "proxy-agent" or rng.chance(2, 3)]
    refs = {a["ref"] for a in keep}
    for a in keep:
        comps = a.get("reward_function", {}).get("reward_components")
        if comps:
            a["reward_function"]["reward_components"] = [c for c in comps if c.get("type") != "shared-reward" or c["options"]["agent_name"] in refs]
    return keep


def gen_folder(rng: Rng, root: Path, size: int = 1, n_topologies: int = 1, n_net: int = 3, n_agents: int = 2,
               extra_entries: int = 2, base_cfgs: Optional[List[Dict]] = None) -> Dict[str, Any]:
    """Write a scenario folder. Topology t has network variants net_t_i (each with its own game options, io_settings, `defaults`
    durations and airspace capacities) and agent-set variants ag_t_j; a schedule entry is [net_t_i.yaml, ag_t_j.yaml]. Some combination
    occurs twice. A topology is generated (harness/gen/scenario.py) or, with `base_cfgs`, taken from a given scenario (the shipped
    wireless one: there the airspace capacities matter). Returns a description."""
    root = Path(root)
    root.mkdir(parents=True, exist_ok=True)
    combos: List[List[str]] = []
    desc: Dict[str, Any] = {"nmne": {}, "topologies": [], "air": {}, "defaults": {}, "io": {}}
    base_game = None
    for t in range(n_topologies):
        if base_cfgs:
            fam = "given"
            cfg = copy.deepcopy(base_cfgs[t % len(base_cfgs)])
        else:
            fam = rng.choice(gsc.FAMILIES)
            cfg = gsc.gen_scenario(rng.fork(f"topo{t}"), size=size, family=fam)
        wants_nmne = any(c.get("options", {}).get("include_nmne") for a in cfg["agents"] for c in
                         (a.get("observation_space", {}).get("options", {}).get("components", [])))
        if wants_nmne:   # F-5 (C02): a space with NMNE entries needs capture switched on in every episode; drop the entries instead
            for a in cfg["agents"]:
                for c in a.get("observation_space", {}).get("options", {}).get("components", []):
                    if "include_nmne" in c.get("options", {}):
                        c["options"]["include_nmne"] = False
        desc["topologies"].append({"family": fam, "nodes": len(cfg["simulation"]["network"]["nodes"]), "agents": len(cfg["agents"])})
        if base_game is None:
            base_game = {k: v for k, v in cfg["game"].items() if k not in ("thresholds", "seed")}
        nets, ags = [], []
        for i in range(n_net):
            # the first two variants of the first topology always differ in "has an nmne_config section that captures" / "has none"
            force = "free"
            if t == 0 and i == 0:
                force = rng.choice([NMNE_CHOICES[2], NMNE_CHOICES[3], NMNE_CHOICES[5]])
            elif t == 0 and i == 1:
                force = rng.choice([None, {}])
            net = _net_variant(rng.fork(f"net{t}{i}"), cfg["simulation"]["network"], force)
            rv = rng.fork(f"var{t}{i}")
            # airspace capacities of this episode: the first two variants always differ (an override followed by none: the second must not
            # inherit the first one's capacity)
            air = AIR_CHOICES[1 + rv.below(len(AIR_CHOICES) - 1)] if i == 0 else None if i == 1 else rv.choice(AIR_CHOICES)
            net.pop("airspace", None)
            if air is not None:
                net["airspace"] = {"frequency_max_capacity_mbps": dict(air)}
            fn = f"net_{t}_{i}.yaml"
            opts = {"net": net, "game": _game_variant(rng.fork(f"game{t}{i}")), "io": _io_variant(rv.fork("io")),
                    "defaults": _defaults_variant(rv.fork("defaults")) if i != 1 else {}}
            (root / fn).write_text(_anchored("net_options", opts["net"]) + _anchored("game_options", opts["game"])
                                   + _anchored("io_options", opts["io"]) + _anchored("defaults_options", opts["defaults"]))
            desc["nmne"][fn] = net.get("nmne_config", "<absent>")
            desc["air"][fn] = air if air is not None else "<absent>"
            desc["defaults"][fn] = opts["defaults"]
            desc["io"][fn] = {k: v for k, v in opts["io"].items() if k.endswith("_level")}
            nets.append(fn)
        for j in range(n_agents):
            fn = f"ag_{t}_{j}.yaml"
            (root / fn).write_text(_anchored("agent_set", _agent_variant(rng.fork(f"ag{t}{j}"), cfg["agents"]) if j else copy.deepcopy(cfg["agents"])))
            ags.append(fn)
        for fn in nets:
            combos.append([fn, rng.choice(ags)])
    order = rng.shuffle(list(combos))
    # make sure a capturing episode is followed by one without the section somewhere, and repeat combinations
    first_on = [c for c in combos if c[0] == "net_0_0.yaml"][0]
    first_off = [c for c in combos if c[0] == "net_0_1.yaml"][0]
    order = [first_on, first_off] + [c for c in order if c not in (first_on, first_off)]
    for _ in range(extra_entries):
        order.insert(rng.range(2, len(order)), copy.deepcopy(rng.choice(order)))
    base = ("io_settings:\n  <<: *io_options\ndefaults:\n  <<: *defaults_options\n"
            + "game:\n  <<: *game_options\n" + "".join("  " + l + "\n" for l in yaml.safe_dump(base_game, sort_keys=False).splitlines())
            + "agents:\n  - *agent_set\nsimulation:\n  network:\n    <<: *net_options\n")
    (root / "scenario.yaml").write_text(base)
    (root / "schedule.yaml").write_text(yaml.safe_dump({"base_scenario": "scenario.yaml", "schedule": {i: c for i, c in enumerate(order)}}, sort_keys=False))
    desc["entries"] = order
    return desc
