"""R-guards: the regenerated translation of every `RequestPermissionValidator.__call__` (Gen/RequestValidators.lean, evaluated
by `drv_c05x veval`) against the REAL validator objects of live request trees.

For every state the caller provides: every distinct atomic validator object found on an edge of the live tree (combined
validators are flattened), up to a cap per validator class; the component it is bound to is abstracted into the model state
of Model/RequestGuards.lean (operating-state NAME, enabled flag, the file system's live and deleted folders with their live
and deleted files and all deleted flags, in dictionary order); it is called with several option lists (none, one, two, three
elements; names of live / deleted / missing folders and files); the Lean side evaluates the translated predicate on the
abstraction with the same options; the two truth values must agree.  The evidence lists which classes / option shapes /
truth values were exercised.
"""
from __future__ import annotations

from typing import Any, Dict, List, Tuple

from harness.lib.core import Ctx, Rng
from harness.rigs import request as rreq
from harness.rigs.request_schema import atoms_of


def _b(x) -> str:
    return "1" if x else "0"


def folder_tokens(fo) -> List[str]:
    toks = [rreq.enc(fo.name), _b(fo.deleted), str(len(fo.files))]
    for f in fo.files.values():
        toks += [rreq.enc(f.name), _b(f.deleted)]
    toks.append(str(len(fo.deleted_files)))
    for f in fo.deleted_files.values():
        toks += [rreq.enc(f.name), _b(f.deleted)]
    return toks


EMPTY_FOLDER = [rreq.enc(""), "0", "0", "0"]


def abstract(v) -> List[str]:
    """model-state tokens of the component(s) a validator object is bound to"""
    node = getattr(v, "node", None)
    nic = getattr(v, "network_interface", None)
    svc = getattr(v, "service", None)
    app = getattr(v, "application", None)
    fs = getattr(v, "file_system", None)
    folder = getattr(v, "folder", None)
    groups = getattr(v, "allowed_groups", None)
    toks = [node.operating_state.name if node is not None else "-",
            _b(nic.enabled) if nic is not None else "0",
            svc.operating_state.name if svc is not None else "-",
            app.operating_state.name if app is not None else "-"]
    toks.append("-")   # context groups: filled by the caller
    toks.append(",".join(g.name for g in groups) if groups else "-")
    toks.append("FS")
    if fs is not None:
        toks.append(str(len(fs.folders)))
        for fo in fs.folders.values():
            toks += folder_tokens(fo)
        toks.append(str(len(fs.deleted_folders)))
        for fo in fs.deleted_folders.values():
            toks += folder_tokens(fo)
    else:
        toks += ["0", "0"]
    toks.append("FOLDER")
    toks += folder_tokens(folder) if folder is not None else EMPTY_FOLDER
    return toks


def atomic_validators(rm, RM, acc: Dict[int, Any], depth: int = 0):
    if depth > 25:
        return
    for rt in rm.request_types.values():
        stack = [rt.validator]
        while stack:
            v = stack.pop()
            if type(v).__name__ == "_CombinedValidator":
                stack += list(v.validators)
            elif type(v).__name__ != "AllowAllValidator":
                acc.setdefault(id(v), v)
        if isinstance(rt.func, RM):
            atomic_validators(rt.func, RM, acc, depth + 1)


def option_lists(rng: Rng, v) -> List[List[Any]]:
    fs = getattr(v, "file_system", None)
    folder = getattr(v, "folder", None)
    out: List[List[Any]] = [[], ["x"]]
    if fs is not None:
        names = [f.name for f in fs.folders.values()] + [f.name for f in fs.deleted_folders.values()] + ["ghost_dir"]
        for fo_name in rng.shuffle(names)[:4]:
            fo = fs.get_folder(fo_name, include_deleted=True)
            files = ([f.name for f in fo.files.values()] + [f.name for f in fo.deleted_files.values()]) if fo is not None else []
            out.append([fo_name])
            for fi in rng.shuffle(files + ["ghost.txt"])[:2]:
                out.append([fo_name, fi])
                out.append([fo_name, fi, "scan"])
    if folder is not None:
        files = [f.name for f in folder.files.values()] + [f.name for f in folder.deleted_files.values()] + ["ghost.txt"]
        for fi in rng.shuffle(files)[:4]:
            out.append([fi])
            out.append([fi, "scan"])
    return out


def collect(ctx: Ctx, sim, rng: Rng, where: str, lines: List[str], pending: List[dict], cap_per_class: int = 8):
    from primaite.simulator.core import RequestManager
    acc: Dict[int, Any] = {}
    atomic_validators(sim._request_manager, RequestManager, acc)
    per_class: Dict[str, int] = {}
    for v in rng.shuffle(list(acc.values())):
        cls = type(v).__qualname__
        if per_class.get(cls, 0) >= cap_per_class:
            continue
        per_class[cls] = per_class.get(cls, 0) + 1
        ats = atoms_of(v)
        if len(ats) != 1 or ats[0][0].startswith("unknown:"):
            pending.append({"kind": "veval-unknown", "where": where, "cls": cls})
            lines.append("veval unknown")
            continue
        atom = ":".join(ats[0])
        base = abstract(v)
        ctxs = [None]
        if ats[0][0] == "groupMember":
            ctxs = [None, {}, {"request_source": {"groups": ["DOMAIN_ADMIN"]}}, {"request_source": {"groups": ["LOCAL_USER"]}}]
        for opts in option_lists(rng, v):
            for c in ctxs:
                try:
                    live = bool(v(list(opts), c))
                except Exception as e:
                    live = "raised " + type(e).__name__
                toks = list(base)
                toks[4] = ("-" if not c else (",".join(c["request_source"]["groups"]) or "-"))
                lines.append("veval " + atom + " " + " ".join(toks) + " -- " + " ".join(rreq.enc(o) for o in opts))
                pending.append({"kind": "veval", "where": where, "cls": cls, "atom": atom, "opts": opts, "live": live,
                                "ctx": c})


def judge(ctx: Ctx, pending: List[dict], out: List[str]) -> List[str]:
    bad: List[str] = []
    for rec, line in zip(pending, out):
        if rec["kind"] == "veval-unknown":
            bad.append(f"{rec['where']}: validator class {rec['cls']} has no translated predicate")
            continue
        ctx.cov["traces_validated_against_impl"] += 1
        ctx.cov["evaluations"] += 1
        ctx.count(f"guards:{rec['atom'].split(':')[0]}:{'true' if rec['live'] is True else ('false' if rec['live'] is False else 'raised')}")
        ctx.count(f"guards:options:{len(rec['opts'])}")
        if line not in ("0", "1"):
            bad.append(f"{rec['where']}: driver rejected veval for {rec['atom']} {rec['opts']}: {line}")
        elif rec["live"] is not (line == "1"):
            bad.append(f"{rec['where']}: {rec['cls']} ({rec['atom']}) on options {rec['opts']} ctx {rec['ctx']}: real validator {rec['live']} vs translated "
                       f"predicate {line == '1'}")
    return bad
