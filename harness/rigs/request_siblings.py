"""Sibling-divergence family for the action mask (C11).

One permission-rule OBJECT often serves every child of a component: `FileSystem._folder_exists + _folder_not_deleted` stand on the
single `folder` edge of a file system and read the folder's NAME from the request, `Folder._file_exists + _file_not_deleted` on
the single `file` edge of a folder read the file's name.  A mask entry is therefore a function of (tree, truth of each rule FOR
THIS REQUEST'S OPTIONS), not of (tree, rule object).  The shipped action maps name one file and one folder per host, so nothing
that confuses siblings can show there.

`sibling_cfg(cfg, seed)` returns the scenario with
  * two extra folders on every chosen host: `vsib_a` (files `s1.txt`, `s2.txt`) and `vsib_b` (file `t1.txt`);
  * every proxy agent's action map extended (numbers continue after the shipped ones) with EVERY target-taking action type of the
    registry aimed at >= 2 siblings: all node-file-* verbs at the three files, all node-folder-* verbs at the two folders, all
    node-service-* verbs at two services of the host, all node-application-* verbs at two applications, host-nic-* at up to two
    NICs, network-port-* at two ports of up to two network nodes; the sibling entries are interleaved (a1, b1, a2, b2, …) and the
    two possible orders of a sibling pair both occur over the hosts.
Deterministic in (cfg, seed, the code's registries): the replay regenerates it.

`diverging(amap, extra_from)` lists the entries that move ONE sibling of a pair away from the other (delete / corrupt a file, stop /
pause / disable a service, close an application, disable a NIC / port); `raw_divergers(hosts)` are requests no action type forms
(deleting one of the two folders)."""
from __future__ import annotations

import copy
from typing import Any, Dict, List, Tuple

from harness.lib import scen
from harness.lib.core import Rng

FOLDERS = {"vsib_a": ["s1.txt", "s2.txt"], "vsib_b": ["t1.txt"]}
RT_FOLDER, RT_FILE = "vsib_rt", "r1.txt"
DIVERGE_VERBS = ("node-file-delete", "node-file-corrupt", "node-service-stop", "node-service-pause", "node-service-disable",
                 "node-service-restart", "node-application-close", "node-application-remove", "host-nic-disable",
                 "network-port-disable", "node-file-restore", "node-service-start", "node-folder-restore",
                 "node-application-install", "node-application-execute", "node-file-create", "node-folder-create")


def _registry() -> Dict[str, Any]:
    import primaite.game.game  # noqa: F401
    from primaite.game.agent.actions.abstract import AbstractAction
    return dict(AbstractAction._registry)


def _interleave(lists: List[List[Any]]) -> List[Any]:
    out, i = [], 0
    while any(i < len(x) for x in lists):
        out += [x[i] for x in lists if i < len(x)]
        i += 1
    return out


def sibling_cfg(cfg: Dict, seed: int, max_hosts: int = 3, force_masking: bool = False) -> Tuple[Dict, Dict[str, Any]]:
    """Returns (new cfg, info). info: hosts chosen, first index of the added entries, number added."""
    from harness.rigs.request import _vocab
    rng = Rng(seed).fork("siblings")
    cfg = copy.deepcopy(cfg)
    game = scen.make_game(cfg)
    vocab = _vocab(game.simulation)["nodes"]
    reg = _registry()
    nodes = cfg["simulation"]["network"]["nodes"]
    host_cfgs = [n for n in nodes if n.get("type") in ("computer", "server") and n.get("hostname") in vocab]
    hosts = rng.shuffle(sorted(n["hostname"] for n in host_cfgs))[:max_hosts]
    for n in host_cfgs:
        if n["hostname"] in hosts:
            n["folders"] = list(n.get("folders") or []) + [{"folder_name": fo, "files": [{"file_name": fi} for fi in files]}
                                                            for fo, files in FOLDERS.items()]
    netnodes = rng.shuffle(sorted(h for h, v in vocab.items() if v["kind"] in ("Router", "Firewall", "Switch", "WirelessRouter")
                                  and len(v["nics"]) >= 2))[:2]
    added: List[Dict[str, Any]] = []
    import primaite.game.game  # noqa: F401
    from primaite.simulator.system.applications.application import Application
    app_names = sorted(Application._registry)
    runtime: Dict[str, List[str]] = {}
    for hi, h in enumerate(hosts):
        v = vocab[h]
        flip = (hi % 2 == 1)   # both orders of a sibling pair occur: on every second host the second sibling comes first

        def order(xs):
            return list(reversed(xs)) if flip else list(xs)
        # targets that come into being DURING the episode (run-time registered routes): a file created in an existing folder, a folder
        # and a file created from nothing, an application of the registry the host does not have (installed by the action)
        files = order([("vsib_a", "s1.txt"), ("vsib_a", "s2.txt"), ("vsib_b", "t1.txt")]) + [("vsib_a", RT_FILE), (RT_FOLDER, RT_FILE)]
        folders = order(["vsib_a", "vsib_b"]) + [RT_FOLDER]
        svcs = order(rng.shuffle(sorted(v["services"]))[:2])
        rt_apps = rng.shuffle([a for a in app_names if a not in v["applications"]])[:1]
        runtime[h] = rt_apps
        apps = order(rng.shuffle(sorted(v["applications"]))[:2]) + rt_apps
        nics = order(sorted(v["nics"])[:2])
        for ident in sorted(reg):
            fields = [f for f in reg[ident].ConfigSchema.model_fields if f != "type"]
            if ident.startswith("node-file-") and fields[:3] == ["node_name", "folder_name", "file_name"]:
                per = [[{"action": ident, "options": dict({"node_name": h, "folder_name": fo, "file_name": fi},
                                                          **({"force": False} if "force" in fields else {}))}] for fo, fi in files]
            elif ident.startswith("node-folder-") and fields == ["node_name", "folder_name"]:
                per = [[{"action": ident, "options": {"node_name": h, "folder_name": fo}}] for fo in folders]
            elif ident.startswith("node-service-") and fields == ["node_name", "service_name"]:
                per = [[{"action": ident, "options": {"node_name": h, "service_name": s}}] for s in svcs]
            elif ident.startswith("node-application-") and fields[:2] == ["node_name", "application_name"]:
                per = [[{"action": ident, "options": {"node_name": h, "application_name": a}}] for a in apps]
            elif ident.startswith("host-nic-") and fields == ["node_name", "nic_num"]:
                per = [[{"action": ident, "options": {"node_name": h, "nic_num": k}}] for k in nics]
            else:
                continue
            added += _interleave(per)
        for ident in ("node-os-scan", "node-shutdown", "node-startup"):
            if ident in reg:
                added.append({"action": ident, "options": {"node_name": h}})
    for hi, h in enumerate(netnodes):
        ports = sorted(vocab[h]["nics"])[:2]
        ports = list(reversed(ports)) if hi % 2 else ports
        for ident in ("network-port-disable", "network-port-enable"):
            if ident in reg:
                added += [{"action": ident, "options": {"target_nodename": h, "port_num": p}} for p in ports]
    first = None
    for a in cfg.get("agents", []):
        am = (a.get("action_space") or {}).get("action_map")
        if a.get("type") != "proxy-agent" or not isinstance(am, dict):
            continue
        if force_masking:   # a scenario shipped without action masking: the flag only switches the mask computation on
            a["agent_settings"] = dict(a.get("agent_settings") or {}, action_masking=True)
        base = len(am)
        first = base if first is None else first
        for k, e in enumerate(added):
            am[base + k] = copy.deepcopy(e)
    # prologue: the entries that CREATE the run-time targets, in an order that works (folder, its file, the file in the old folder, install)
    prologue = []
    for h in hosts:
        want = [("node-folder-create", {"folder_name": RT_FOLDER}), ("node-file-create", {"folder_name": RT_FOLDER, "file_name": RT_FILE}),
                ("node-file-create", {"folder_name": "vsib_a", "file_name": RT_FILE})]
        want += [("node-application-install", {"application_name": a}) for a in runtime.get(h, [])]
        for ident, sel in want:
            k = next((k for k, e in enumerate(added) if e["action"] == ident and e["options"].get("node_name") == h
                      and all(e["options"].get(x) == y for x, y in sel.items())), None)
            if k is not None and first is not None:
                prologue.append(first + k)
    return cfg, {"hosts": hosts, "netnodes": netnodes, "first": first, "added": len(added), "runtime_apps": runtime, "prologue": prologue}


def other_scenarios() -> List[str]:
    """shipped single-file scenarios with exactly one proxy agent that are NOT in the check's list of masking scenarios: the
    family runs on them too, with action masking switched on"""
    out = []
    for n, p in scen.shipped().items():
        try:
            cfg = scen.load_cfg(p)
            ags = [a for a in cfg.get("agents", []) if a.get("type") == "proxy-agent"]
            nodes = ((cfg.get("simulation") or {}).get("network") or {}).get("nodes") or []
            if len(ags) == 1 and isinstance((ags[0].get("action_space") or {}).get("action_map"), dict) \
                    and any(x.get("type") in ("computer", "server") for x in nodes):
                out.append(n)
        except Exception:
            continue
    return sorted(out)


def diverging(amap: Dict[int, Tuple[str, Dict]], first: int) -> List[int]:
    """entries of the ADDED part that move one sibling away from the other (or back)"""
    return [i for i, (ident, _) in amap.items() if i >= (first or 0) and ident in DIVERGE_VERBS]


def raw_divergers(hosts: List[str]) -> List[List[Any]]:
    """requests that no action type forms: delete / restore ONE of the two sibling folders"""
    out = []
    for h in hosts:
        base = ["network", "node", h, "file_system"]
        out += [base + ["delete", "folder", "vsib_b"], base + ["restore", "folder", "vsib_b"], base + ["delete", "folder", "vsib_a"],
                base + ["restore", "folder", "vsib_a"]]
    return out
