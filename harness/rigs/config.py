"""R-cfg: scenario dict -> real PrimaiteGame.from_config -> inventory walked from the object graph; the same scenario as protocol lines
for the Lean driver (drv_c20: `build` = the modelled loader, `declared` = the inventory written from the documentation); permuted /
re-serialised variants compared by inventory and by a seeded trajectory digest.

Inventory line formats (one item per line, whole inventory sorted):
  node <host> <type> <state> sud=<n> sdd=<n> dns=<ip|-> gw=<ip|->
  nic <host> <num> <name|-> <ip|-> <mask|-> wired=<0|1> en=<0|1>
  link <hostA> <portA> <hostB> <portB> <bw>
  route <host> <idx> <addr> <mask> <nexthop> <metric> ; defroute <host> <nexthop>
  acl <host> <aclname> <implicit> <slots>  ;  rule <host> <aclname> <pos> <ACT>,<proto>,<sip>,<swc>,<dip>,<dwc>,<sport>,<dport>
  sw <host> <name> <svc|app> n=<number of live instances of that name on the node> st=<operating state> h=<actual health>
     <key>=<value-token>…   (only for option keys the file declares; the value is read off the LIVE object through LIVE_OPTIONS:
     the attribute the running software uses, the config field and a same-named attribute must all agree)
  user <host> <name> <password> <admin 0|1>
  folder <host> <folder> ; file <host> <folder> <file> <size|-> <type|->   (declared folders / files only; see files_extra)
  agent <ref> <type> <team|-> acts=<n> rews=<n> ; act <ref> <idx> <action> <options-token> ; rew <ref> <idx> <type> <weight> <options-token>
  aset <ref> <key> <value-token>                   (only for agent_settings keys the file declares)
"""
from __future__ import annotations

import copy
import hashlib
import json
import re
from typing import Any, Dict, List, Optional, Tuple

from harness.lib import scen

MODELLED_NODE_TYPES = {"computer", "server", "printer", "switch", "router", "firewall", "wireless-router"}
FW_ACLS = ["internal_inbound_acl", "internal_outbound_acl", "dmz_inbound_acl", "dmz_outbound_acl", "external_inbound_acl",
           "external_outbound_acl"]
FW_PORTS = {"external_port": 1, "internal_port": 2, "dmz_port": 3}


# ------------------------------------------------------------------------------------------------ tokens
def tok(v: Any) -> str:
    """Canonical, whitespace-free token for an option value: JSON with sorted keys, numbers normalised, then percent-escaped."""
    def norm(x):
        if isinstance(x, bool) or x is None:
            return x
        if isinstance(x, (int,)):
            return x
        if isinstance(x, float):
            return int(x) if x == int(x) else repr(x)
        if isinstance(x, dict):
            return {str(k): norm(x[k]) for k in sorted(x, key=str)}
        if isinstance(x, (list, tuple)):
            return [norm(y) for y in x]
        if isinstance(x, (set, frozenset)):
            return sorted((norm(y) for y in x), key=str)
        if hasattr(x, "model_dump"):
            return norm(x.model_dump())
        if hasattr(x, "name") and hasattr(x, "value") and x.__class__.__module__ != "builtins":
            return str(x.name)
        return str(x)
    s = json.dumps(norm(v), sort_keys=True, separators=(",", ":"))
    if len(s) >= 2 and s[0] == '"' and s[-1] == '"' and "\\" not in s:
        s = s[1:-1]
    out = []
    for ch in s:
        if ch.isalnum() or ch in "._-:/,{}[]\"<>=+*@":
            out.append(ch)
        else:
            out.append("%%%02X" % ord(ch) if ord(ch) < 256 else "%%u%04X" % ord(ch))
    return "".join(out) or "%00"


def _o(v) -> str:
    return "-" if v is None else str(v)


def _num(v) -> str:
    """A duration as built: the number, or - when it is not an integer - its repr (so that a stored string '6' is not mistaken for 6)."""
    return str(v) if isinstance(v, int) and not isinstance(v, bool) else repr(v)


def built_file_name(f: Dict) -> str:
    """File.__init__: a name without extension gets the extension of its declared type (`passwords` + TXT -> `passwords.txt`)."""
    name = f["file_name"]
    t = (f.get("type") or "UNKNOWN").upper()
    if "." not in name and t != "UNKNOWN":
        return f"{name}.{t.lower()}"
    return name


def _name(s: str) -> str:
    return tok(s)


# ------------------------------------------------------------------------------------------------ implementation side
def _acl_lines(host: str, name: str, acl) -> List[str]:
    out = [f"acl {host} {name} {acl.implicit_action.name} {len(acl._acl)}"]
    for pos, r in enumerate(acl._acl):
        if r is None:
            continue
        proto = "-" if r.protocol is None else str(r.protocol).lower()
        out.append(f"rule {host} {name} {pos} {r.action.name},{proto},{_o(r.src_ip_address)},{_o(r.src_wildcard_mask)},"
                   f"{_o(r.dst_ip_address)},{_o(r.dst_wildcard_mask)},{_o(r.src_port)},{_o(r.dst_port)}")
    return out


def _flag(v) -> str:
    """A boolean as built: 1 / 0, or its repr when it is not a boolean."""
    return ("1" if v else "0") if isinstance(v, bool) else repr(v)


def _metric(m) -> str:
    return str(int(m)) if float(m) == int(m) else repr(float(m))


def inventory(game, cfg: Dict) -> List[str]:
    """Walk the built object graph. `cfg` is only used to know WHICH option keys / folders the file declares."""
    from primaite.simulator.network.hardware.nodes.network.firewall import Firewall
    from primaite.simulator.network.hardware.nodes.network.router import Router
    from primaite.simulator.system.applications.application import Application
    net = game.simulation.network
    decl_nodes = {n["hostname"]: n for n in cfg.get("simulation", {}).get("network", {}).get("nodes", [])}
    dflt = cfg.get("defaults") or {}
    out: List[str] = []
    for node in net.nodes.values():
        h = _name(node.config.hostname)
        c = node.config
        in_nodes_section = node.config.hostname in decl_nodes   # the defaults section reaches the `nodes:` entries only
        fsd = []
        for key, attr in (("folder_scan_duration", "scan_duration"), ("folder_restore_duration", "restore_duration")):
            if key in dflt and in_nodes_section:
                vals = sorted({getattr(f, attr) for f in node.file_system.folders.values()})
                fsd.append(_num(vals[0]) if len(vals) == 1 else "MIXED:" + ",".join(map(_num, vals)))
            else:
                fsd.append("-")
        out.append(f"node {h} {node._discriminator} {node.operating_state.name} sud={_num(c.start_up_duration)} sdd={_num(c.shut_down_duration)} "
                   f"scan={_num(c.node_scan_duration)} fsd={fsd[0]}/{fsd[1]} "
                   f"dns={_o(getattr(c, 'dns_server', None))} gw={_o(getattr(c, 'default_gateway', None))} "
                   f"flags={_flag(c.revealed_to_red)}/{_num(c.start_up_countdown)}/{_num(c.shut_down_countdown)}/{_flag(c.is_resetting)}")
        for num, nic in node.network_interface.items():
            ip = getattr(nic, "ip_address", None)
            mask = getattr(nic, "subnet_mask", None)
            pname = getattr(nic, "port_name", None)
            wired = getattr(nic, "_connected_link", None) is not None
            freq = getattr(nic, "frequency", None)
            out.append(f"nic {h} {num} {_o(pname)} {_o(ip)} {_o(mask)} wired={1 if wired else 0} en={1 if nic.enabled else 0} "
                       f"freq={_o(getattr(freq, 'name', freq))}")
        if len(node.network_interface) != len(node.network_interfaces):
            out.append(f"nic-maps-differ {h} {len(node.network_interface)} {len(node.network_interfaces)}")
        if isinstance(node, Router):
            out += _acl_lines(h, "acl", node.acl)
            if isinstance(node, Firewall):
                for n in FW_ACLS:
                    out += _acl_lines(h, n, getattr(node, n))
            for i, r in enumerate(node.route_table.routes):
                out.append(f"route {h} {i} {r.address} {r.subnet_mask} {r.next_hop_ip_address} {_metric(r.metric)}")
            if node.route_table.default_route is not None:
                out.append(f"defroute {h} {node.route_table.default_route.next_hop_ip_address}")
        # software: the registry (name -> instance) and every live instance
        sm = node.software_manager
        live: Dict[str, int] = {}
        for inst in list(node.services.values()) + list(node.applications.values()):
            live[inst.name] = live.get(inst.name, 0) + 1
        dn = decl_nodes.get(node.config.hostname, {})
        decl_sw = {}
        decl_svc = set()
        for e in (dn.get("services") or []):
            decl_sw[e["type"]] = e
            decl_svc.add(e["type"])
        for e in (dn.get("applications") or []):
            decl_sw[e["type"]] = e
            decl_svc.discard(e["type"])
        for name, sw in sm.software.items():
            kind = "app" if isinstance(sw, Application) else "svc"
            dopts = (decl_sw.get(name) or {}).get("options") or {}
            # what the defaults section imposes on a configured service: its fixing duration unless the entry has one, its restart duration
            dfix = sw.config.fixing_duration if ("service_fix_duration" in dflt and name in decl_svc and "fixing_duration" not in dopts) else None
            drst = getattr(sw, "restart_duration", "<none>") if ("service_restart_duration" in dflt and name in decl_svc) else None
            out.append(f"sw {h} {name} {kind} n={live.get(name, 0)} st={sw.operating_state.name} h={sw.health_state_actual.name} "
                       f"dfl={'-' if dfix is None else _num(dfix)}/{'-' if drst is None else _num(drst)} eff={effective(sw)} "
                       f"{built_opts(sw, dopts)}".rstrip())
        for name in live:
            if name not in sm.software:
                out.append(f"sw {h} {name} orphan n={live[name]}")
        um = sm.software.get("user-manager")
        if um is not None:
            for u in um.users.values():
                out.append(f"user {h} {_name(u.username)} {_name(u.password)} {1 if u.is_admin else 0}")
        # folders / files the file declares (others are created by software, reported by files_extra)
        for fd in (dn.get("folders") or []):
            folder = node.file_system.get_folder(fd["folder_name"])
            if folder is None:
                continue
            out.append(f"folder {h} {_name(folder.name)}")
            declared_files = {built_file_name(f) for f in fd.get("files") or []}
            for f in folder.files.values():
                if f.name in declared_files:
                    d = next(x for x in fd["files"] if built_file_name(x) == f.name)
                    out.append(f"file {h} {_name(folder.name)} {_name(f.name)} {f.sim_size if d.get('size') else '-'} "
                               f"{f.file_type.name if 'type' in d else '-'}")
    for link in net.links.values():
        a, b = link.endpoint_a, link.endpoint_b
        bw = link.bandwidth
        out.append(f"link {_name(a.parent.config.hostname)} {a.port_num} {_name(b.parent.config.hostname)} {b.port_num} "
                   f"{int(bw) if float(bw) == int(bw) else bw}")
    for ref, ag in game.agents.items():
        amap = ag.action_manager.action_map
        comps = ag.reward_function.reward_components
        acfg = next((a for a in cfg.get("agents", []) if a.get("ref") == ref), {})
        out.append(f"agent {_name(ref)} {acfg.get('type', '?')} {_o(ag.config.team)} acts={len(amap)} rews={len(comps)}")
        for i, (ident, opts) in amap.items():
            out.append(f"act {_name(ref)} {i} {ident} {tok(opts)}")
        decl_rews = (acfg.get("reward_function") or {}).get("reward_components") or []
        for i, (comp, weight) in enumerate(comps):
            d = decl_rews[i] if i < len(decl_rews) else {}
            o = {k: getattr(comp.config, k, "<no-such-field>") for k in (d.get("options") or {})}
            out.append(f"rew {_name(ref)} {i} {_reward_type(comp)} {tok(weight)} {tok(o)}")
        out.append(f"aset {_name(ref)} " + tok({k: getattr(ag.config.agent_settings, k, '<no-such-field>') for k in (acfg.get("agent_settings") or {})}))
    o = game.options
    out.append(f"game len={o.max_episode_length} seed={_o(None if o.seed is None else tok(o.seed))} ports={','.join(str(int(p)) for p in o.ports)} "
               f"protocols={','.join(str(p).lower() for p in o.protocols)} thresholds={tok(o.thresholds if o.thresholds is not None else {})}")
    for fname, fr in net.airspace.frequencies.items():
        out.append(f"airspace {fname} {bps_token(fr.data_rate_bps)}")
    return sorted(out)


def bps_token(v) -> str:
    """A capacity in bits per second, exactly (the loader multiplies the file's Mbps by 1024 * 1024, a power of two)."""
    from fractions import Fraction
    f = Fraction(v)
    return str(f.numerator) if f.denominator == 1 else f"{f.numerator}/{f.denominator}"


def _reward_type(comp) -> str:
    from primaite.game.agent.rewards import AbstractReward
    for k, c in AbstractReward._registry.items():
        if c is type(comp):
            return k
    return "?"


# Declared option -> where its EFFECT shows on the live object: the attribute the running software reads (written from
# docs/source/simulation_components/system/**/*.rst and the classes' own use of the value). `cfg:` = the software reads the
# option from its config object at the time of use. Every reader listed, the config field of the option's name and a live
# attribute of the option's name (when they exist) must agree; they are what the file's value is compared with.
def _attr(name):
    return lambda sw: getattr(sw, name)


def _cfg(name):
    return lambda sw: getattr(sw.config, name)


LIVE_OPTIONS: Dict[str, Dict[str, Any]] = {
    "*": {"fixing_duration": _cfg("fixing_duration"), "criticality": _cfg("criticality"),
          "listen_on_ports": lambda sw: sorted(int(p) for p in sw.listen_on_ports)},
    "dns-server": {"domain_mapping": lambda sw: {str(k): str(v) for k, v in sw.dns_table.items()}},
    "dns-client": {"dns_server": _attr("dns_server")},
    "database-service": {"backup_server_ip": _attr("backup_server_ip"), "db_password": _attr("password")},
    "ftp-server": {"server_password": _attr("server_password")},
    "ntp-client": {"ntp_server_ip": _attr("ntp_server")},
    "web-browser": {"target_url": _cfg("target_url")},
    "database-client": {"db_server_ip": _attr("server_ip_address"), "server_password": _attr("server_password")},
    "data-manipulation-bot": {"server_ip": _attr("server_ip_address")},
    "ransomware-script": {"server_ip": _attr("server_ip_address")},
    "dos-bot": {},
    "c2-beacon": {"c2_server_ip_address": _attr("c2_remote_connection"), "keep_alive_frequency": _cfg("keep_alive_frequency"),
                  "masquerade_protocol": _cfg("masquerade_protocol"), "masquerade_port": _cfg("masquerade_port")},
    "c2-server": {"keep_alive_frequency": _cfg("keep_alive_frequency"), "masquerade_protocol": _cfg("masquerade_protocol"),
                  "masquerade_port": _cfg("masquerade_port")},
}
NOT_IN_OPTS = ("type", "starting_health_state")  # the starting health is carried by the h= field of the sw line


def live_readings(sw, k: str) -> Dict[str, str]:
    """label -> token of every place where option `k` of the live software shows."""
    out: Dict[str, str] = {}
    rd = LIVE_OPTIONS.get(sw.name, {}).get(k) or LIVE_OPTIONS["*"].get(k)
    try:
        if rd is not None:
            v = rd(sw)
            out["live"] = "<unset>" if v is None else tok(v)
        if k != "listen_on_ports":
            if k in type(sw.config).model_fields:
                cv = getattr(sw.config, k)
                # an integer field that holds something that is not an integer (a quoted '4' stored as text) is not the declared 4
                strict_int = type(sw.config).model_fields[k].annotation is int and not (isinstance(cv, int) and not isinstance(cv, bool))
                out["config"] = ("<not-an-int>" + repr(cv)) if strict_int else tok(cv)
            if k in type(sw).model_fields:
                out["attr"] = tok(getattr(sw, k))
    except Exception as e:  # a reader that raises is a difference, not a crash of the rig
        out["raises"] = type(e).__name__
    return out


# options that have a second source outside the software entry (model: `outerSources`): software name -> {option: live reader}.
# The value the running software ends up with is printed for EVERY instance, declared option or not, so that all four
# combinations (neither / only the outer source / only the entry / both) show.
OUTER_SOURCES: Dict[str, Dict[str, Any]] = {"dns-client": {"dns_server": _attr("dns_server")}}


def effective(sw) -> str:
    rd = OUTER_SOURCES.get(sw.name)
    if not rd:
        return "-"
    parts = []
    for k, f in rd.items():
        try:
            v = f(sw)
            parts.append(f"{k}:{'-' if v is None else tok(v)}")
        except Exception as e:
            parts.append(f"{k}:raises-{type(e).__name__}")
    return ",".join(parts)


def built_opts(sw, declared_options: Dict) -> str:
    """`k=<token of the BUILT value>` for every option key the file declares, keys sorted. Readings that disagree with each other
    are all shown (`k=<live>!config:<v>`), which then differs from the single declared token."""
    parts = []
    for k in sorted(declared_options):
        if k in NOT_IN_OPTS:
            continue
        r = live_readings(sw, k)
        if not r:
            parts.append(f"{k}=<no-such-option-on-the-built-software>")
            continue
        vals = list(r.items())
        first = vals[0][1]
        rest = [f"{lab}:{v}" for lab, v in vals[1:] if v != first]
        parts.append(f"{k}={first}" + "".join("!" + x for x in rest))
    return " ".join(parts)


def state_oracle(game) -> List[str]:
    """Initial-state facts that the Lean inventory does not carry: an interface is enabled iff its node is ON and it is wired;
    on an ON node every service and application runs, on an OFF node none does."""
    bad = []
    for node in game.simulation.network.nodes.values():
        on = node.operating_state.name == "ON"
        if node.operating_state.name not in ("ON", "OFF"):
            continue
        for num, nic in node.network_interface.items():
            wired = getattr(nic, "_connected_link", None) is not None
            wireless = not hasattr(nic, "_connected_link")
            if not wireless and bool(nic.enabled) != (on and wired):
                bad.append(f"nic-enabled {node.config.hostname} {num} enabled={nic.enabled} node_on={on} wired={wired}")
        for name, sw in node.software_manager.software.items():
            st = sw.operating_state.name
            want = ("RUNNING",) if on else ("STOPPED", "CLOSED")
            if st not in want:
                bad.append(f"software-state {node.config.hostname} {name} {st} node_on={on}")
            # a kill-chain / attack stage is not declarable in the file: when the scenario is loaded it is the class's initial member
            # (loading must not have executed - or "completed" - an attack)
            for field, info in getattr(type(sw), "model_fields", {}).items():
                if "stage" in field and info.default is not None and hasattr(info.default, "name"):
                    cur = getattr(sw, field, info.default)
                    if cur != info.default:
                        bad.append(f"kill-chain-stage:{name}:{field} {node.config.hostname} built={getattr(cur, 'name', cur)} "
                                   f"initial={info.default.name}")
    return bad


RED_APPLICATIONS = ("dos-bot", "data-manipulation-bot", "ransomware-script", "c2-beacon", "c2-server", "nmap")


def software_states(game) -> Dict[str, str]:
    """host:software -> canonical text of the software's own state (describe_state + every `*stage*` field), uuids masked."""
    import re as _re
    out = {}
    for node in game.simulation.network.nodes.values():
        for name, sw in node.software_manager.software.items():
            try:
                d = sw.describe_state()
            except Exception as e:
                d = {"describe_state raises": type(e).__name__}
            for field in getattr(type(sw), "model_fields", {}):
                if "stage" in field:
                    d["." + field] = str(getattr(sw, field, None))
            out[f"{node.config.hostname}:{name}"] = _re.sub(r"[0-9a-f]{8}-[0-9a-f]{4}-[0-9a-f]{4}-[0-9a-f]{4}-[0-9a-f]{12}", "<uuid>",
                                                            json.dumps(d, sort_keys=True, default=str))
    return out


def options_oracle(game, cfg: Dict) -> List[str]:
    """The `game:` section (outside the Lean model): episode length, seed, the port / protocol whitelists in file order, thresholds;
    and `simulation.network.airspace.frequency_max_capacity_mbps` where the file has it."""
    from primaite.utils.validation.ip_protocol import PROTOCOL_LOOKUP
    from primaite.utils.validation.port import PORT_LOOKUP
    bad = []
    g = cfg.get("game") or {}
    o = game.options
    if o.max_episode_length != int(g.get("max_episode_length", 256)):
        bad.append(f"game max_episode_length built={o.max_episode_length} declared={g.get('max_episode_length', 256)}")
    if o.seed != g.get("seed"):
        bad.append(f"game seed built={o.seed} declared={g.get('seed')}")
    want_ports = [PORT_LOOKUP[p] if isinstance(p, str) else int(p) for p in g.get("ports", [])]
    if [int(p) for p in o.ports] != want_ports:
        bad.append(f"game ports built={list(o.ports)} declared={want_ports}")
    want_protos = [str(PROTOCOL_LOOKUP[p] if p in PROTOCOL_LOOKUP else p).lower() for p in g.get("protocols", [])]
    if [str(p).lower() for p in o.protocols] != want_protos:
        bad.append(f"game protocols built={list(o.protocols)} declared={want_protos}")
    if "thresholds" in g and tok(o.thresholds) != tok(g["thresholds"]):
        bad.append(f"game thresholds built={tok(o.thresholds)} declared={tok(g['thresholds'])}")
    return bad


_AGENT_DEFAULTS: Optional[Dict] = None


def _agent_defaults() -> Dict:
    global _AGENT_DEFAULTS
    if _AGENT_DEFAULTS is None:
        from harness.extract import config_agents
        _AGENT_DEFAULTS = config_agents.agent_settings_defaults()
    return _AGENT_DEFAULTS


def agents_oracle(game, cfg: Dict) -> List[str]:
    """Parts of `agents:` that are outside the Lean model, as declared-vs-built facts: a `custom` observation space is built with
    exactly the declared component labels (and its gym space has exactly those keys); every declared `shared-reward` component
    names the declared agent, has its callback, and the reward calculation order lists every agent once with the agent whose
    reward is shared BEFORE the one that uses it."""
    bad = []
    order = list(getattr(game, "_reward_calculation_order", []) or [])
    refs = [a.get("ref") for a in cfg.get("agents") or []]
    if order and sorted(order) != sorted(refs):
        bad.append(f"agents reward-order built={order} declared={refs}")
    for a in cfg.get("agents") or []:
        ag = game.agents.get(a.get("ref"))
        if ag is None:
            bad.append(f"agents missing {a.get('ref')}")
            continue
        # settings the file LEAVES OUT: the built agent has the default the schema source states (read by `ast`, config_agents)
        dflts = _agent_defaults().get(a.get("type"), {})
        given = a.get("agent_settings") or {}
        for k, dv in dflts.items():
            if k in given or dv == "<non-literal>":
                continue
            bv = getattr(ag.config.agent_settings, k, "<no-such-field>")
            if not (bv == dv and type(bv) is type(dv)):
                bad.append(f"agents setting-default {a['ref']} {k} built={bv!r} schema-default={dv!r}")
        ob = a.get("observation_space") or {}
        if ob.get("type") == "custom":
            want = [c.get("label") for c in (ob.get("options") or {}).get("components") or []]
            comps = getattr(ag.observation_manager.obs, "components", None)
            got = list(comps.keys()) if isinstance(comps, dict) else None
            if got is not None and got != want:
                bad.append(f"agents observation-components {a['ref']} built={got} declared={want}")
            sp = getattr(ag.observation_manager.space, "spaces", None)
            if sp is not None and sorted(sp.keys()) != sorted(want):
                bad.append(f"agents observation-space-keys {a['ref']} built={sorted(sp.keys())} declared={sorted(want)}")
        for i, d in enumerate((a.get("reward_function") or {}).get("reward_components") or []):
            if d.get("type") in ("shared-reward", "SHARED_REWARD"):
                comp = ag.reward_function.reward_components[i][0]
                tgt = (d.get("options") or {}).get("agent_name")
                if getattr(comp.config, "agent_name", None) != tgt:
                    bad.append(f"agents shared-reward {a['ref']} {i} built={getattr(comp.config, 'agent_name', None)} declared={tgt}")
                if not callable(getattr(comp, "callback", None)):
                    bad.append(f"agents shared-reward-callback {a['ref']} {i} unset")
                else:
                    # WHOSE reward the component yields: every agent's current reward is set to a distinct sentinel, the component
                    # (as `calculate` calls it) must give the sentinel of the DECLARED agent; the rewards are put back afterwards
                    saved = {r: x.reward_function.current_reward for r, x in game.agents.items()}
                    try:
                        for j, (r, x) in enumerate(game.agents.items()):
                            x.reward_function.current_reward = 1000.0 + j
                        want_v = 1000.0 + list(game.agents).index(tgt) if tgt in game.agents else None
                        try:
                            got_v = comp.callback(comp.config.agent_name)
                        except Exception as e:
                            got_v = f"raises {type(e).__name__}"
                        if want_v is not None and got_v != want_v:
                            whose = next((r for j, r in enumerate(game.agents) if got_v == 1000.0 + j), got_v)
                            bad.append(f"agents shared-reward-source {a['ref']} {i} yields the reward of {whose}, declared {tgt}")
                    finally:
                        for r, x in game.agents.items():
                            x.reward_function.current_reward = saved[r]
                if order and tgt in order and a["ref"] in order and order.index(tgt) > order.index(a["ref"]):
                    bad.append(f"agents shared-reward-order {a['ref']} evaluated before {tgt}")
    return bad


def files_extra(game, cfg: Dict) -> List[str]:
    """Folders/files that exist although the file does not declare them (created by software installs); evidence only."""
    decl = {n["hostname"]: n for n in cfg.get("simulation", {}).get("network", {}).get("nodes", [])}
    out = []
    for node in game.simulation.network.nodes.values():
        d = {f["folder_name"]: {x["file_name"] for x in f.get("files") or []} for f in (decl.get(node.config.hostname, {}).get("folders") or [])}
        for folder in node.file_system.folders.values():
            for f in folder.files.values():
                if f.name not in d.get(folder.name, set()):
                    out.append(f"{node.config.hostname}:{folder.name}/{f.name}")
    return out


# ------------------------------------------------------------------------------------------------ model side
class Unmodelled(Exception):
    pass


def _ipt(v) -> str:
    return "-" if v in (None, "") else str(v)


def _rule_line(aclname: str, pos, r: Dict) -> str:
    """What Router/Firewall.from_config pass to add_rule: `None if not p else LOOKUP[p]` for ports / protocol, `.get` for addresses."""
    from primaite.utils.validation.ip_protocol import PROTOCOL_LOOKUP
    from primaite.utils.validation.port import PORT_LOOKUP
    sp = "-" if not r.get("src_port") else str(PORT_LOOKUP[r["src_port"]])
    dp = "-" if not r.get("dst_port") else str(PORT_LOOKUP[r["dst_port"]])
    pr = "-" if not r.get("protocol") else str(PROTOCOL_LOOKUP[r["protocol"]]).lower()
    # an address may be written `src_ip` (the shipped scenarios) or `src_ip_address` (the documentation); the shipped key wins
    sip = r["src_ip"] if "src_ip" in r else r.get("src_ip_address")
    dip = r["dst_ip"] if "dst_ip" in r else r.get("dst_ip_address")
    return (f"acl {aclname} {int(pos)} {r['action']} {pr} {_ipt(sip)} {_ipt(r.get('src_wildcard_mask'))} "
            f"{_ipt(dip)} {_ipt(r.get('dst_wildcard_mask'))} {sp} {dp}")


def _dur(v) -> str:
    """A duration key of the file as the schema reads it: absent -> '-', otherwise the integer the value means ('0', 0.0, False -> 0)."""
    return "-" if v is None else str(int(v))


def _state(v) -> str:
    if v is None or v == "":
        return "-"
    if v is True:
        return "ON"
    if v is False:  # YAML `OFF` unquoted: falsy -> the loader treats it as "not given"
        return "-"
    return str(v).upper()


def scenario_lines(cfg: Dict) -> List[str]:
    """The scenario as driver input (drv_c20). Raises Unmodelled for constructs outside the modelled loader."""
    from fractions import Fraction
    from primaite.utils.validation.ip_protocol import PROTOCOL_LOOKUP
    from primaite.utils.validation.port import PORT_LOOKUP
    net = (cfg.get("simulation") or {}).get("network") or {}
    lines: List[str] = []
    g = cfg.get("game") or {}
    csv = lambda xs: ",".join(xs) if xs else "-"
    lines.append(f"game {_o(g.get('max_episode_length'))} {_o(None if g.get('seed') is None else tok(g['seed']))} "
                 f"{csv([str(PORT_LOOKUP[p] if isinstance(p, str) else int(p)) for p in g.get('ports', [])])} "
                 f"{csv([str(PROTOCOL_LOOKUP[p] if p in PROTOCOL_LOOKUP else p).lower() for p in g.get('protocols', [])])} "
                 f"{tok(g.get('thresholds') if g.get('thresholds') is not None else {})}")
    extra_game = set(g) - {"max_episode_length", "seed", "ports", "protocols", "thresholds", "generate_seed_value"}
    if extra_game:
        raise Unmodelled(f"game keys {sorted(extra_game)}")
    air = (net.get("airspace") or {})
    if set(air) - {"frequency_max_capacity_mbps"}:
        raise Unmodelled(f"airspace keys {sorted(air)}")
    for f, mbps in (air.get("frequency_max_capacity_mbps") or {}).items():
        lines.append(f"airspace {tok(f)} {bps_token(Fraction(mbps) * 1024 * 1024)}")
    d = cfg.get("defaults") or {}
    dkeys = ["node_start_up_duration", "node_shut_down_duration", "node_scan_duration", "folder_scan_duration", "folder_restore_duration",
             "service_fix_duration", "service_restart_duration", "service_install_duration"]
    if set(d) - set(dkeys):
        raise Unmodelled(f"defaults keys {sorted(set(d) - set(dkeys))}")
    if d:
        lines.append("defaults " + " ".join(_dur(d.get(k)) for k in dkeys))
    for n in net.get("nodes") or []:
        t = n["type"]
        if t not in MODELLED_NODE_TYPES:
            raise Unmodelled(f"node type {t}")
        known = {"hostname", "type", "operating_state", "start_up_duration", "shut_down_duration", "dns_server", "default_gateway",
                 "ip_address", "subnet_mask", "network_interfaces", "services", "applications", "users", "folders", "num_ports", "ports",
                 "acl", "routes", "default_route", "router_interface", "wireless_access_point", "node_scan_duration",
                 "revealed_to_red", "start_up_countdown", "shut_down_countdown", "is_resetting"}
        if t == "wireless-router" and (n.get("ports") or n.get("num_ports")):
            raise Unmodelled("wireless router with wired ports")
        extra = set(n) - known
        if extra:
            raise Unmodelled(f"node keys {sorted(extra)}")
        lines.append(f"node {t} {tok(n['hostname'])} {_state(n.get('operating_state'))} {_dur(n.get('start_up_duration'))} "
                     f"{_dur(n.get('shut_down_duration'))} {_ipt(n.get('dns_server'))} {_ipt(n.get('default_gateway'))} "
                     f"{_ipt(n.get('ip_address'))} {_ipt(n.get('subnet_mask'))} {_o(n.get('num_ports'))}")
        if "node_scan_duration" in n:
            lines.append(f"nodescan {int(n['node_scan_duration'])}")
        if any(k in n for k in ("revealed_to_red", "start_up_countdown", "shut_down_countdown", "is_resetting")):
            import pydantic
            rb = lambda k: 1 if pydantic.TypeAdapter(bool).validate_python(n.get(k, False)) else 0   # the value as a bool field reads it
            ri = lambda k: pydantic.TypeAdapter(int).validate_python(n.get(k, 0))
            lines.append(f"nodeflags {rb('revealed_to_red')} {ri('start_up_countdown')} {ri('shut_down_countdown')} {rb('is_resetting')}")
        if t == "firewall":
            for k, v in (n.get("ports") or {}).items():
                lines.append(f"fwport {k} {v['ip_address']} {_ipt(v.get('subnet_mask'))}")
            if "acl" in n:
                lines.append("fwacl-present")
                for aname, a in (n.get("acl") or {}).items():
                    lines.append(f"fwacl {aname}")
                    for pos, r in (a or {}).items():
                        lines.append(_rule_line(aname, pos, r))
        elif t == "router":
            for k, v in (n.get("ports") or {}).items():
                lines.append(f"port {int(k)} {v['ip_address']} {_ipt(v.get('subnet_mask'))}")
            for pos, r in (n.get("acl") or {}).items():
                lines.append(_rule_line("acl", pos, r))
        elif t == "wireless-router":
            if "router_interface" in n:
                lines.append(f"routerif {n['router_interface']['ip_address']} {n['router_interface']['subnet_mask']}")
            if "wireless_access_point" in n:
                w = n["wireless_access_point"]
                lines.append(f"wap {w['ip_address']} {w['subnet_mask']} {tok(w['frequency'])}")
            for pos, r in (n.get("acl") or {}).items():
                lines.append(_rule_line("acl", pos, r))
        if t in ("router", "firewall", "wireless-router"):
            for r in n.get("routes") or []:
                m = r.get("metric")
                if m is not None and float(m) != int(m):
                    raise Unmodelled("non-integer route metric")
                lines.append(f"route {r['address']} {_ipt(r.get('subnet_mask'))} {r['next_hop_ip_address']} {_o(None if m is None else int(m))}")
            dr = n.get("default_route")
            if dr and dr.get("next_hop_ip_address"):
                lines.append(f"defroute {dr['next_hop_ip_address']}")
        for k, v in (n.get("network_interfaces") or {}).items():
            lines.append(f"nic {int(k)} {v['ip_address']} {v['subnet_mask']}")
        for kind, key in (("svc", "services"), ("app", "applications")):
            for e in n.get(key) or []:
                alld = {k: v for k, v in (e.get("options") or {}).items() if k != "type"}
                val = _validated(_software_schema(e["type"]), alld)
                declared = {k: v for k, v in alld.items() if k not in NOT_IN_OPTS}
                opts = " ".join(f"{k}={tok(_opt_value(k, declared[k]) if k == 'listen_on_ports' else val[k])}" for k in sorted(declared))
                hl = "-" if "starting_health_state" not in alld else tok(val["starting_health_state"])
                lines.append(f"{kind} {e['type']} {hl} {1 if _init_starts(e['type']) else 0} {opts}".rstrip())
        for u in n.get("users") or []:
            lines.append(f"user {tok(u['username'])} {tok(u['password'])} {_o(None if 'is_admin' not in u else (1 if u['is_admin'] else 0))}")
        for fd in n.get("folders") or []:
            lines.append(f"folder {tok(fd['folder_name'])}")
            for f in fd.get("files") or []:
                lines.append(f"file {tok(fd['folder_name'])} {tok(built_file_name(f))} {_o(f.get('size') or None)} {_o(None if 'type' not in f else f['type'].upper())}")
    for ns in net.get("node_sets") or []:
        if ns.get("type") != "office-lan":
            raise Unmodelled(f"node set {ns.get('type')}")
        lines.append(f"nodeset {tok(ns['lan_name'])} {ns['subnet_base']} {ns['pcs_ip_block_start']} {ns['num_pcs']} "
                     f"{'-' if 'include_router' not in ns else (1 if ns['include_router'] else 0)} {_o(ns.get('bandwidth'))}")
    for l in net.get("links") or []:
        lines.append(f"link {tok(l['endpoint_a_hostname'])} {l['endpoint_a_port']} {tok(l['endpoint_b_hostname'])} {l['endpoint_b_port']} "
                     f"{_o(l.get('bandwidth') if not isinstance(l.get('bandwidth'), float) or l['bandwidth'] != int(l['bandwidth']) else int(l['bandwidth']))}")
    for a in cfg.get("agents") or []:
        lines.append(f"agent {tok(a['ref'])} {a['type']} {_o(a.get('team'))}")
        for i, e in ((a.get("action_space") or {}).get("action_map") or {}).items():
            lines.append(f"action {int(i)} {e['action']} {tok(e.get('options') or {})}")
        for r in (a.get("reward_function") or {}).get("reward_components") or []:
            lines.append(f"reward {r['type']} {tok(r.get('weight', 1.0))} {tok(r.get('options') or {})}")
        lines.append(f"settings {tok(_validated(_settings_schema(a['type']), a.get('agent_settings') or {}))}")
    return lines


def _software_schema(sw_type: str):
    import primaite.game.game as gg
    from primaite.simulator.system.applications.application import Application
    from primaite.simulator.system.services.service import Service
    cls = Service._registry.get(sw_type.lower()) or gg.SERVICE_TYPES_MAPPING.get(sw_type) or Application._registry.get(sw_type)
    return None if cls is None else cls.ConfigSchema


def _software_class(sw_type: str):
    import primaite.game.game as gg
    from primaite.simulator.system.applications.application import Application
    from primaite.simulator.system.services.service import Service
    return Service._registry.get(sw_type.lower()) or gg.SERVICE_TYPES_MAPPING.get(sw_type) or Application._registry.get(sw_type)


def _init_starts(sw_type: str) -> bool:
    """Does the class's own `__init__` end by starting / running the software? (an input of the model; no theorem depends on it)"""
    import inspect
    cls = _software_class(sw_type)
    try:
        src = inspect.getsource(cls.__init__)
    except Exception:
        return False
    return "self.start()" in src or "self.run()" in src


def _validated(schema, declared: Dict) -> Dict:
    """The declared option mapping as its own pydantic schema reads it (named ports -> numbers, protocol case, IP parsing):
    the file's meaning of a value, independent of how the loader stores it. Falls back to the raw mapping."""
    if schema is None:
        return dict(declared)
    try:
        obj = schema(**{k: v for k, v in declared.items()})
        return {k: getattr(obj, k, declared[k]) for k in declared}
    except Exception:
        return dict(declared)


def _opt_value(k: str, v: Any) -> Any:
    if k == "listen_on_ports":
        from primaite.utils.validation.port import PORT_LOOKUP
        return sorted({(PORT_LOOKUP[p] if isinstance(p, str) else int(p)) for p in v} - {0})
    return v


def _settings_schema(agent_type: str):
    from primaite.game.agent.interface import AbstractAgent
    cls = AbstractAgent._registry.get(agent_type)
    try:
        return cls.ConfigSchema.model_fields["agent_settings"].annotation
    except Exception:
        return None


_UUID = re.compile(r"[0-9a-f]{8}-[0-9a-f]{4}-[0-9a-f]{4}-[0-9a-f]{4}-[0-9a-f]{12}")
_MAC = re.compile(r"\b[0-9a-f]{2}(:[0-9a-f]{2}){5}\b")


def state_digest(game, text_out: Optional[List[str]] = None) -> str:
    """`simulation.describe_state()` in canonical form: uuids and MAC addresses (fresh per build) masked, entries that are keyed by a
    uuid turned into a sorted list, numbers as written. Two builds of the same file give the same text."""
    import hashlib

    def canon(o):
        if isinstance(o, dict):
            if o and all(isinstance(k, str) and (_UUID.fullmatch(k) or _MAC.fullmatch(k)) for k in o):
                return sorted((canon(v) for v in o.values()), key=lambda x: json.dumps(x, sort_keys=True, default=str))
            return {str(k): canon(v) for k, v in o.items()}
        if isinstance(o, (list, tuple, set, frozenset)):
            xs = [canon(v) for v in o]
            return sorted(xs, key=lambda x: json.dumps(x, sort_keys=True, default=str)) if isinstance(o, (set, frozenset)) else xs
        if isinstance(o, str):
            return _MAC.sub("MAC", _UUID.sub("U", o))
        if isinstance(o, float):
            return repr(o)
        return o if isinstance(o, (int, bool)) or o is None else _MAC.sub("MAC", _UUID.sub("U", str(o)))
    text = json.dumps(canon(game.simulation.describe_state()), sort_keys=True, default=str)
    if text_out is not None:
        text_out.append(text)
    return hashlib.sha256(text.encode()).hexdigest()[:16] + ":" + str(len(text))


def split_inventory(line: str) -> List[str]:
    """The driver answers `build` / `declared` with one line: items separated by ' | '."""
    if line.startswith("error"):
        return [line]
    return sorted({x.rstrip() for x in line.split(" | ") if x.strip()})  # a name installed twice is reported once per instance


# ------------------------------------------------------------------------------------------------ behaviour digest
def trajectory_digest(cfg: Dict, seed: int, steps: int) -> Tuple[str, int]:
    """Seeded trajectory through the real environment; digest of (action, every agent's action/response status, reward, truncated,
    node and software states) per step. Scenarios without a proxy agent are stepped through PrimaiteGame directly."""
    import random

    import numpy as np
    from harness.rigs import envrig
    cfg = copy.deepcopy(cfg)
    h = hashlib.sha256()
    n = 0
    if envrig.proxy_agent_cfg(cfg) is None:
        cfg = envrig.with_proxy(cfg)
    env = scen.make_env(cfg)
    obs, info = env.reset(seed=seed)
    random.seed(seed)
    np.random.seed(seed)
    r = random.Random(seed * 7919 + 13)
    na = int(env.action_space.n)
    for t in range(steps):
        act = r.randrange(na)
        try:
            obs, reward, term, trunc, info = env.step(act)
        except Exception as e:  # totality of step is C01's claim; here the exception is part of the observed behaviour
            h.update(f"raises {type(e).__name__} at {t}".encode())
            n += 1
            break
        g = env.game
        rec = [act, round(float(reward), 9), bool(trunc)]
        for name, ag in g.agents.items():
            it = ag.history[-1]
            rec.append([name, it.action, tok(it.parameters), getattr(it.response, "status", None)])
        for node in g.simulation.network.nodes.values():
            rec.append([node.config.hostname, node.operating_state.name,
                        sorted((nm, sw.operating_state.name, sw.health_state_actual.name) for nm, sw in node.software_manager.software.items()),
                        sorted((num, nic.enabled) for num, nic in node.network_interface.items())])
        rec[3:] = sorted(rec[3:], key=lambda x: json.dumps(x, default=str))
        h.update(json.dumps(rec, default=str).encode())
        n += 1
        if trunc or term:
            break
    env.close()
    return h.hexdigest()[:16], n
