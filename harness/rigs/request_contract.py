"""Contract oracle and contract search for C05 ("a request that a permission rule refuses is answered 'failure' ... and
leaves the state as it was").

The CONTRACT is hand-written in Lean (Model/Schema.lean: `expectedGuards` per action, `gate` per component kind and key) and
is read from there through `drv_c05`, so there is one source of truth; Props/C05Schema.lean proves that the regenerated
schema agrees with it (`C05_route_guards`, `C05_component_gates`).  This module evaluates the same contract ON THE REAL
OBJECTS, without looking at the validators the code attached:

* `Roots`       — which live RequestManager is the root manager of which component (read from the OBJECT GRAPH);
* `atom_value`  — truth of a contract rule on the component it is about (node power state, NIC enabled flag, service /
                  application operating state, folder / file existence and deleted flags), read from plain attributes;
* `route_contract` — the contract rules of a concrete request: at every component root manager the request passes, the
                  gates of (kind, next key), each evaluated on that component with the options the rule would be given;
* `judge_request`  — a request with a false contract rule at depth i must be answered `failure` at a depth <= i and must not
                  reach its handler; an ACTION request whose contract rules all hold and whose target exists must reach it;
* `sweep`       — the SEARCH: for every class that owns routes (every node class, NIC class, service / application class,
                  folder, file of a game) drive one instance into each state that falsifies a gate (node SHUTTING_DOWN / OFF /
                  BOOTING via shutdown + ticks + startup; service STOPPED / PAUSED / DISABLED / RESTARTING; application
                  CLOSED; NIC disabled; folder / file deleted), send EVERY route below the owning node raw (stubbed handlers,
                  so nothing changes) and every registered action aimed at that node / component, and confirm each suspect
                  with the REAL handlers: status, deep state fingerprint before / after.  The first confirmed suspect is the
                  replay.

Nothing here needs a Gen table, so the search still runs when an extractor refuses the source.
"""
from __future__ import annotations

import copy
from typing import Any, Callable, Dict, List, Optional, Tuple

from harness.lib.core import Ctx, Rng, run_driver
from harness.rigs import request as rreq
from harness.rigs import request_state as rstate

EXE = "drv_c05"
ROOT_KINDS = ["node", "nic", "service", "application", "fileSystem", "folder", "nodeOs", "fsDelete", "domain"]


# ------------------------------------------------------------------------------------------ the contract, read from Lean
class Contract:
    """`expectedGuards` / `gate` of Model/Schema.lean, queried through the driver (batched, cached)."""

    def __init__(self, actions: List[str]):
        self.gates: Dict[Tuple[str, Any], List[str]] = {}
        out = run_driver(EXE, [f"guards {a}" for a in actions])
        self.guards = {a: (o.split() if o else []) for a, o in zip(actions, out)}
        if any(o == "bad-op" for o in out):
            raise RuntimeError("drv_c05 does not answer `guards`")

    def fill(self, pairs: List[Tuple[str, Any]]):
        need = sorted({p for p in pairs if p not in self.gates}, key=str)
        if not need:
            return
        out = run_driver(EXE, [f"gate {r} {rreq.enc(k)}" for r, k in need])
        for p, o in zip(need, out):
            if o == "bad-op":
                raise RuntimeError(f"drv_c05 rejected gate {p}")
            self.gates[p] = o.split() if o else []

    def gate(self, root: str, key: Any) -> List[str]:
        if (root, key) not in self.gates:
            self.fill([(root, key)])
        return self.gates[(root, key)]


# ------------------------------------------------------------------------------------------ object graph
class Roots:
    """id(root RequestManager) -> (kind, component, owning node) for every component of the simulation's OBJECT GRAPH."""

    def __init__(self, sim):
        from primaite.simulator.system.applications.application import Application
        from primaite.simulator.system.services.service import Service
        self.by_rm: Dict[int, Tuple[str, Any, Any]] = {}
        self.keep: List[Any] = []
        dom = getattr(sim, "domain", None)
        if dom is not None:
            self._add("domain", dom, None)
        for node in sim.network.nodes.values():
            self._add("node", node, node)
            self._add_rm("nodeOs", getattr(node, "_os_request_manager", None), node, node)
            nics = {id(n): n for n in list(node.network_interface.values()) + list(node.network_interfaces.values())}
            for nic in nics.values():
                self._add("nic", nic, node)
            for sw in node.software_manager.software.values():
                if isinstance(sw, Service):
                    self._add("service", sw, node)
                elif isinstance(sw, Application):
                    self._add("application", sw, node)
            fs = node.file_system
            self._add("fileSystem", fs, node)
            self._add_rm("fsDelete", getattr(fs, "_delete_manager", None), fs, node)
            for folder in list(fs.folders.values()) + list(fs.deleted_folders.values()):
                self._add("folder", folder, node)

    def _add(self, kind: str, comp: Any, node: Any):
        self._add_rm(kind, getattr(comp, "_request_manager", None), comp, node)

    def _add_rm(self, kind: str, rm: Any, comp: Any, node: Any):
        if rm is not None:
            self.by_rm[id(rm)] = (kind, comp, node)
            self.keep.append(rm)

    def keys_seen(self) -> List[Tuple[str, Any]]:
        out = []
        for rm in self.keep:
            kind = self.by_rm[id(rm)][0]
            out += [(kind, k) for k in rm.request_types]
        return out


def _find(items, name):
    for x in items:
        if x.name == name:
            return x
    return None


def atom_value(atom: str, comp: Any, opts: List[Any]) -> Optional[bool]:
    """Truth of one contract rule on the component it is about, from plain attributes of the object graph (NOT through the
    validator classes).  None = this oracle does not evaluate the rule (groupMember: needs a request context)."""
    name, _, arg = atom.partition(":")
    if name == "nodeIsOn":
        return comp.operating_state.name == "ON"
    if name == "nodeIsOff":
        return comp.operating_state.name == "OFF"
    if name == "nicEnabled":
        return bool(comp.enabled)
    if name == "nicDisabled":
        return not comp.enabled
    if name in ("serviceState", "appState"):
        return comp.operating_state.name == arg
    if name == "folderExists":      # a LIVE folder of that name
        return len(opts) >= 1 and _find(comp.folders.values(), opts[0]) is not None
    if name == "folderNotDeleted":  # the live folder of that name, else the deleted one, carries no deleted flag
        if len(opts) < 1:
            return False
        f = _find(comp.folders.values(), opts[0]) or _find(comp.deleted_folders.values(), opts[0])
        return f is not None and not f.deleted
    if name == "fsFileExists":      # a live file of that name in the live folder of that name
        if len(opts) < 2:
            return False
        f = _find(comp.folders.values(), opts[0])
        return f is not None and _find(f.files.values(), opts[1]) is not None
    if name == "folderFileExists":
        return len(opts) >= 1 and _find(comp.files.values(), opts[0]) is not None
    if name == "fileNotDeleted":
        if len(opts) < 1:
            return False
        f = _find(comp.files.values(), opts[0])
        return f is not None and not f.deleted
    return None


def _hashable(k) -> bool:
    try:
        hash(k)
        return True
    except TypeError:
        return False


def route_contract(sim, roots: Roots, contract: Contract, req: List[Any]):
    """[(depth, atom, value, kind, class name)] for the contract rules met by `req` on the live tree, and whether the keys
    lead to a handler."""
    RM = rreq_RM()
    cur = sim._request_manager
    out = []
    for i, k in enumerate(req):
        if not _hashable(k) or k not in cur.request_types:
            return out, False
        owner = roots.by_rm.get(id(cur))
        if owner is not None:
            kind, comp, _ = owner
            for atom in contract.gate(kind, k):
                out.append((i, atom, atom_value(atom, comp, list(req[i + 1:])), kind, type(comp).__name__))
        rt = cur.request_types[k]
        if isinstance(rt.func, RM):
            cur = rt.func
        else:
            return out, True
    return out, False


_RM = []


def rreq_RM():
    if not _RM:
        from primaite.simulator.core import RequestManager
        _RM.append(RequestManager)
    return _RM[0]


def judge_request(rules, exists: bool, outcome: str, action_guards: Optional[List[str]]) -> Optional[dict]:
    """None = the implementation's outcome agrees with the contract. Otherwise a small description of the disagreement."""
    false_rules = [r for r in rules if r[2] is False]
    parts = outcome.split()
    if false_rules:
        d, atom, _, kind, cls = false_rules[0]
        ok = parts[0] == "failure" and int(parts[1]) <= d
        if not ok:
            return {"kind": "contract-rule-not-enforced", "rule": atom.split(":")[0], "component": kind, "class": cls,
                    "depth": d, "outcome": parts[0]}
        return None
    if parts[0] == "failure" and all(r[2] is True for r in rules):
        # the contract is EXACT and COMPLETE (C05_contract_exact: every component root carries exactly its gates, every other
        # manager no rule at all): with stubbed handlers a `failure` can only come from a validator, and every rule the contract
        # knows on this route holds — so a rule OUTSIDE the contract refused it (type-specific verbs carry none).
        # (a rule this oracle cannot evaluate — group membership needs a context — has value None: no judgement)
        return {"kind": "refused-by-a-rule-outside-the-contract", "depth": int(parts[1]), "outcome": parts[0]}
    return None


# ------------------------------------------------------------------------------------------ games
def zoo_game(seed: int):
    """A small game that contains an instance of EVERY class that owns routes: the generated firewall+DMZ family (computer,
    servers, switches, router, firewall), plus — added through the API — a printer and a wireless router, and every registered
    Application / Service class installed on one server."""
    from harness.gen import scenario as gs
    from harness.lib import scen
    cfg = gs.gen_scenario(Rng(seed), size=1, family="dmz")
    game = scen.make_game(cfg)
    extras = zoo_extras(game.simulation)
    return game, cfg, extras


def zoo_extras(sim) -> List[str]:
    import primaite.game.game  # noqa: F401
    from primaite.simulator.network.hardware.base import Node
    from primaite.simulator.system.applications.application import Application
    from primaite.simulator.system.services.service import Service
    notes = []
    have = {type(n).__name__ for n in sim.network.nodes.values()}
    for disc, cls in sorted(Node._registry.items()):
        if cls.__name__ in have or disc in ("host-node", "network-node"):
            continue
        try:
            conf = {"type": disc, "hostname": f"zoo_{disc}", "start_up_duration": 1, "shut_down_duration": 2}
            if disc in ("printer", "computer", "server"):
                conf.update({"ip_address": "192.168.250.9", "subnet_mask": "255.255.255.0"})
            try:
                node = cls.from_config(config=conf)
            except TypeError:  # wireless routers need the network's airspace
                node = cls.from_config(config=conf, airspace=sim.network.airspace)
            node.power_on()
            sim.network.add_node(node)
            for t in range(3):
                node.apply_timestep(t)
        except Exception as e:
            notes.append(f"zoo: node type {disc} not built: {type(e).__name__}: {str(e)[:80]}")
    # a node whose power transitions take NO time (start_up_duration 0 is legal and used by the repository's own fixtures):
    # zero-duration fast paths in handlers rely on the permission rule having checked the state
    try:
        from primaite.simulator.network.hardware.nodes.host.computer import Computer
        fast = Computer.from_config(config={"type": "computer", "hostname": "zoo_fastboot", "ip_address": "192.168.250.10",
                                            "subnet_mask": "255.255.255.0", "start_up_duration": 0, "shut_down_duration": 2})
        fast.power_on()
        sim.network.add_node(fast)
    except Exception as e:
        notes.append(f"zoo: fast-boot computer not built: {type(e).__name__}: {str(e)[:80]}")
    host = next((n for n in sim.network.nodes.values() if type(n).__name__ == "Server"), None)
    if host is not None:
        for name, cls in sorted({**Application._registry, **Service._registry}.items()):
            if name in host.software_manager.software:
                continue
            try:
                host.software_manager.install(cls)
            except Exception as e:
                notes.append(f"zoo: {name} not installed: {type(e).__name__}: {str(e)[:80]}")
    return notes


# ------------------------------------------------------------------------------------------ driving components into states
def tick(sim, clock: List[int], ops: List[Any], n: int = 1):
    for _ in range(n):
        clock[0] += 1
        sim.pre_timestep(clock[0])
        sim.apply_timestep(clock[0])
        ops.append(["tick"])


def do(sim, ops: List[Any], req: List[Any]) -> str:
    try:
        r = sim.apply_request(list(req))
        st = getattr(r, "status", None)
    except Exception as e:
        st = "raised " + type(e).__name__
    ops.append(list(req))
    return st


def _fastboot(node) -> bool:
    return getattr(node.config, "start_up_duration", None) == 0


def falsifiers(sim, node, rng: Rng, per_class_seen: set, clock: List[int]):
    """Generator of (label, component kind, component, ops-applied-so-far) — each yielded while the component IS in the state.
    Components whose class was already driven through its states in this game are skipped (class coverage, not instance)."""
    from primaite.simulator.system.applications.application import Application
    from primaite.simulator.system.services.service import Service
    base = ["network", "node", node.config.hostname]
    ops: List[Any] = []
    if node.operating_state.name != "ON":
        return
    # ---- services
    for name, sw in list(node.software_manager.software.items()):
        if isinstance(sw, Service):
            key = ("service", type(sw).__name__)
            if key in per_class_seen:
                continue
            per_class_seen.add(key)
            b = base + ["service", name]
            if sw.operating_state.name != "RUNNING":
                do(sim, ops, b + ["start"])
            if sw.operating_state.name == "RUNNING":
                do(sim, ops, b + ["pause"])
                yield (f"service:{sw.operating_state.name}", "service", sw, list(ops))
                do(sim, ops, b + ["resume"])
                do(sim, ops, b + ["stop"])
                yield (f"service:{sw.operating_state.name}", "service", sw, list(ops))
                do(sim, ops, b + ["disable"])
                yield (f"service:{sw.operating_state.name}", "service", sw, list(ops))
                do(sim, ops, b + ["enable"])
                do(sim, ops, b + ["start"])
                do(sim, ops, b + ["restart"])
                yield (f"service:{sw.operating_state.name}", "service", sw, list(ops))
                tick(sim, clock, ops, 6)
        elif isinstance(sw, Application):
            key = ("application", type(sw).__name__)
            if key in per_class_seen:
                continue
            per_class_seen.add(key)
            b = base + ["application", name]
            if sw.operating_state.name == "RUNNING":
                do(sim, ops, b + ["close"])
            yield (f"application:{sw.operating_state.name}", "application", sw, list(ops))
            if sw.operating_state.name == "CLOSED":
                try:
                    sw.run()
                    ops.append(["api:app-run", node.config.hostname, name])
                except Exception:
                    pass
                yield (f"application:{sw.operating_state.name}", "application", sw, list(ops))
    # ---- NICs
    for num, nic in list(node.network_interface.items()):
        key = ("nic", type(nic).__name__)
        if key in per_class_seen:
            continue
        per_class_seen.add(key)
        b = base + ["network_interface", num]
        if nic.enabled:
            do(sim, ops, b + ["disable"])
            yield (f"nic:{'enabled' if nic.enabled else 'disabled'}", "nic", nic, list(ops))
            do(sim, ops, b + ["enable"])
        else:
            yield ("nic:disabled", "nic", nic, list(ops))
    # ---- folders / files
    fs = node.file_system
    key = ("folder", type(node).__name__)
    if key not in per_class_seen and getattr(fs, "folders", None) is not None:
        per_class_seen.add(key)
        b = base + ["file_system"]
        do(sim, ops, b + ["create", "folder", "verif_dir"])
        do(sim, ops, b + ["create", "file", "verif_dir", "v.txt", False])
        do(sim, ops, b + ["create", "file", "verif_dir", "w.txt", False])
        do(sim, ops, b + ["delete", "file", "verif_dir", "v.txt"])
        fo = fs.get_folder("verif_dir")
        if fo is not None:
            yield ("file:deleted", "folder", fo, list(ops))
            do(sim, ops, b + ["delete", "folder", "verif_dir"])
            yield ("folder:deleted", "fileSystem", fs, list(ops))
            do(sim, ops, b + ["restore", "folder", "verif_dir"])
    # ---- power (last: everything above needs the node ON)
    key = ("node", type(node).__name__, _fastboot(node))
    if key in per_class_seen:
        return
    per_class_seen.add(key)
    do(sim, ops, base + ["shutdown"])
    yield (f"node:{node.operating_state.name}", "node", node, list(ops))
    for _ in range(12):
        if node.operating_state.name == "OFF":
            break
        tick(sim, clock, ops, 1)
    yield (f"node:{node.operating_state.name}", "node", node, list(ops))
    do(sim, ops, base + ["startup"])
    yield (f"node:{node.operating_state.name}", "node", node, list(ops))
    for _ in range(12):
        if node.operating_state.name == "ON":
            break
        tick(sim, clock, ops, 1)


def apply_ops(sim, ops: List[Any]):
    """re-apply a recorded op list (requests, ticks, tagged API steps) — used by replays"""
    t = [0]
    for q in ops:
        try:
            if q and q[0] == "tick":
                t[0] += 1
                sim.pre_timestep(t[0])
                sim.apply_timestep(t[0])
            elif q and q[0] == "api:app-run":
                next(n for n in sim.network.nodes.values() if n.config.hostname == q[1]).software_manager.software[q[2]].run()
            elif q and q[0] == "api:uninstall":
                next(n for n in sim.network.nodes.values() if n.config.hostname == q[1]).software_manager.uninstall(q[2])
            else:
                sim.apply_request(list(q))
        except Exception:
            pass


# ------------------------------------------------------------------------------------------ the search
FIELD_OF_KIND = {"service": ("service_name",), "application": ("application_name",), "nic": ("nic_num", "port_num"),
                 "folder": ("folder_name", "file_name"), "fileSystem": ("folder_name", "file_name")}


def node_requests(rng: Rng, sim, node, registry, comp_kind: str, comp) -> List[Tuple[str, List[Any], Optional[str], Optional[dict]]]:
    """The requests whose contract depends on the falsified component: for a node-power state EVERY route below the node
    (raw) and EVERY registered action aimed at the node; for a component state every route that passes through the component
    (raw) and every action with a field that names a component of its kind, naming THIS component.
    Returns (family, request, action identifier, options)."""
    host = node.config.hostname
    out: List[Tuple[str, List[Any], Optional[str], Optional[dict]]] = []
    base = ["network", "node", host]
    if comp_kind == "node":
        prefixes = [base]
    elif comp_kind in ("service", "application"):
        prefixes = [base + [comp_kind, comp.name]]
    elif comp_kind == "nic":
        prefixes = [base + ["network_interface", comp.port_num]]
    else:
        prefixes = [base + ["file_system"]]
    for r in node._request_manager.get_request_types_recursively():
        full = base + r
        if any(full[:len(p)] == p for p in prefixes):
            out.append(("raw", full, None, None))
            if comp_kind in ("folder", "fileSystem") and full[-1] in ("file", "folder", "scan", "corrupt", "restore", "repair", "checkhash", "delete"):
                # file-system leaves read their target from the options: give them the churned names
                out.append(("raw", full + ["verif_dir", "v.txt"], None, None))
    vocab_all = rreq._vocab(sim)
    vocab = {"nodes": {host: vocab_all["nodes"][host]}}
    want = FIELD_OF_KIND.get(comp_kind)
    for ident in sorted(registry):
        fields = registry[ident].ConfigSchema.model_fields
        if want is not None and not any(f in fields for f in want):
            continue
        try:
            _, opts, _ = rreq.gen_action(rng, sim, vocab, {ident: registry[ident]}, ghost_p=(0, 1))
            if comp_kind == "service" and "service_name" in opts:
                opts["service_name"] = comp.name
            if comp_kind == "application" and "application_name" in opts:
                opts["application_name"] = comp.name
            if comp_kind == "nic":
                for f in ("nic_num", "port_num"):
                    if f in opts:
                        opts[f] = getattr(comp, "port_num", opts[f])
            if comp_kind in ("folder", "fileSystem"):
                if "folder_name" in opts:
                    opts["folder_name"] = "verif_dir"
                if "file_name" in opts:
                    opts["file_name"] = rng.choice(["v.txt", "w.txt"])
            req = registry[ident].form_request(registry[ident].ConfigSchema(type=ident, **opts))
        except Exception:
            continue
        out.append(("action", list(req), ident, opts))
    return out


def sweep(ctx: Ctx, label: str, sim, registry, contract: Contract, replay_base: dict, rng: Rng,
          max_nodes_per_class: int = 1, live_cap: int = 24) -> None:
    """Drive one instance of every route-owning class of this game into every gate-falsifying state; judge every route of
    the node and every action against the contract; confirm suspects with the real handlers."""
    seen_classes: set = set()
    tables_differ: set = set()
    clock = [0]
    done_node_classes: Dict[str, int] = {}
    contract.fill(Roots(sim).keys_seen())
    live_left = [live_cap]
    for node in list(sim.network.nodes.values()):
        cls = type(node).__name__ + ("/start_up_duration=0" if _fastboot(node) else "")
        if done_node_classes.get(cls, 0) >= max_nodes_per_class:
            continue
        done_node_classes[cls] = done_node_classes.get(cls, 0) + 1
        for (state, kind, comp, ops) in falsifiers(sim, node, rng, seen_classes, clock):
            ctx.count(f"contract:state:{state}")
            ctx.count(f"contract:class:{kind}:{type(comp).__name__}")
            roots = Roots(sim)
            contract.fill(roots.keys_seen())
            fam = node_requests(rng, sim, node, registry, kind, comp)
            suspects = []
            refused_live: List[Tuple[List[Any], Optional[str]]] = []
            snap = rreq.Snap(sim._request_manager)
            with rreq.Probe(sim, snap, stub=True) as probe:
                for (family, req, ident, opts) in fam:
                    rules, exists = route_contract(sim, roots, contract, req)
                    out, _ = probe.call(req)
                    ctx.cov["evaluations"] += 1
                    nfalse = sum(1 for r in rules if r[2] is False)
                    ctx.count(f"contract:{family}:{'rule-false' if nfalse else 'rules-hold'}:{out.split()[0]}")
                    if ident is not None and exists:
                        have = {r[1] for r in rules}
                        if have != set(contract.guards.get(ident, [])):
                            ctx.count("contract:action-gates-differ-from-expectedGuards")
                            tables_differ.add(f"{ident}: gates on its route = {sorted(have)}, expectedGuards = {contract.guards.get(ident)}")
                    bad = judge_request(rules, exists, out, contract.guards.get(ident) if ident else None)
                    if bad:
                        suspects.append((family, req, ident, opts, rules, out, bad))
                    elif nfalse and len(refused_live) < 2 and rng.chance(1, 6):
                        refused_live.append((req, ident))
            ctx.case({"sweep": label, "node": node.config.hostname, "state": state, "n": len(fam)}, True)
            # refused requests with the REAL handlers: status failure, deep fingerprint unchanged
            for (req, ident) in refused_live:
                if live_left[0] <= 0:
                    break
                live_left[0] -= 1
                confirm(ctx, label, sim, req, ident, None, None, "refused", replay_base, ops, state)
            suspects.sort(key=lambda x: (x[2] is None, str(x[1])))   # action-formed requests first: they carry real handler options
            for (family, req, ident, opts, rules, out, bad) in suspects[:4]:
                confirm(ctx, label, sim, req, ident, opts, bad, "suspect", replay_base, ops, state)
            if suspects:
                ctx.count("contract:suspects", len(suspects))
    ctx.oblige(f"rig:R-contract[{label}] gates met on every action's route = expectedGuards of the action (the two contract tables agree)",
               "correspondence", not tables_differ, "; ".join(sorted(tables_differ)[:6]))


def confirm(ctx: Ctx, label: str, sim, req, ident, opts, bad: Optional[dict], why: str, replay_base: dict, ops, state: str):
    """send the request with the REAL handlers; compare the deep fingerprint before / after"""
    before = rstate.fingerprint(sim)
    with rreq.Probe(sim, rreq.Snap(sim._request_manager), stub=False) as probe:
        out, resp = probe.call(req)
    after = rstate.fingerprint(sim)
    status = getattr(resp, "status", None) if not isinstance(resp, Exception) else "raised"
    changed = rstate.diff(before, after, cap=6)
    ctx.count(f"contract:live:{why}:{status}:{'changed' if changed else 'unchanged'}")
    replay = dict(replay_base)
    replay.update({"ops": ops, "req": req, "action": ident, "opts": opts, "state": state, "observed": out, "status": status,
                   "state_diff": changed})
    if why == "suspect":
        sig = {"kind": bad["kind"], "rule": bad.get("rule"), "component": bad.get("component"), "class": bad.get("class"),
               "via": "action:" + ident if ident else "raw-route", "answered": status}
        if ident:
            sig["action"] = ident
        ctx.violation(sig, f"[{label}] {state}: request {req} "
                      + (f"(action {ident} {opts}) " if ident else "")
                      + (f"must be refused by the {bad.get('rule')} rule of its {bad.get('component')} ({bad.get('class')}) "
                         f"but was answered {out!r} / status {status!r}; state changed: {changed[:3] or 'no'}"
                         if bad["kind"] == "contract-rule-not-enforced" else
                         f"names existing components and every rule of its contract holds, yet it was refused: {out!r}"),
                      replay)
    else:
        if status != "failure" or out.startswith("reached"):
            ctx.violation({"kind": "refused-request-not-failure", "answered": status, "via": "action:" + ident if ident else "raw-route"},
                          f"[{label}] {state}: request {req} is refused by its contract but answered {out!r} / {status!r}", replay)
        elif changed:
            ctx.violation({"kind": "refused-request-changed-state(deep)", "via": "action:" + ident if ident else "raw-route",
                           "where": changed[0].split(":")[0].rsplit("/", 1)[-1]},
                          f"[{label}] {state}: refused request {req} ({out}) changed the deep state: {changed[:4]}", replay)


# ------------------------------------------------------------------------------------------ raw routes with the real handlers
def raw_live(ctx: Ctx, label: str, sim, replay_base: dict, cap: int = 600) -> None:
    """"Every path in the live request tree" with the REAL handlers and nothing after the handler's key: one request per route
    SHAPE (node class, keys with run-time names replaced by the class of the component they name). A handler that needs
    options must answer `failure` — an exception out of `apply_request` is a violation."""
    roots = Roots(sim)
    RM = rreq_RM()
    seen = set()
    todo: List[Tuple[tuple, List[Any]]] = []
    for node in sim.network.nodes.values():
        host = node.config.hostname
        for r in node._request_manager.get_request_types_recursively():
            if r[-1] in ("shutdown", "reset", "startup"):
                continue
            full = ["network", "node", host] + r
            cur, shape = sim._request_manager, []
            for k in full:          # name the shape: a key below a dynamic manager is replaced by the class it leads to
                rt = cur.request_types[k]
                owner = roots.by_rm.get(id(rt.func)) if isinstance(rt.func, RM) else None
                shape.append(type(owner[1]).__name__ if owner is not None and owner[0] in ("node", "nic", "service", "application", "folder")
                             else k)
                if isinstance(rt.func, RM):
                    cur = rt.func
            sh = tuple(shape)
            if sh not in seen:
                seen.add(sh)
                todo.append((sh, full))
    import traceback
    for sh, req in todo[:cap]:
        where = msg = ""
        try:
            resp = sim.apply_request(list(req))
            out = "answered"
        except Exception as e:
            resp = e
            out = "raised " + type(e).__name__
            tb = traceback.extract_tb(e.__traceback__)
            where = " <- ".join(f"{t.filename.split('primaite/')[-1]}:{t.name}:{t.lineno}" for t in tb[-2:][::-1])
            msg = str(e)[:120]
        ctx.cov["evaluations"] += 1
        status = getattr(resp, "status", None) if not isinstance(resp, Exception) else "raised"
        ctx.count(f"raw-live:{status}")
        if status == "raised":
            ctx.violation({"kind": "request-raises", "phase": "handler", "family": "raw-route-missing-options", "exc": out.split()[1],
                           "handler": "/".join(str(x) for x in sh[-2:])},
                          f"[{label}] route {req} of the live tree, sent with the real handlers and no options, raised {out.split()[1]} "
                          f"({msg}) at {where} instead of answering",
                          dict(replay_base, ops=[], req=req, state="initial", raw_live=True, observed=out))
        elif status not in ("success", "failure", "unreachable", "pending"):
            ctx.violation({"kind": "undocumented-status", "family": "raw-route-missing-options", "status": str(status)},
                          f"[{label}] route {req} answered {type(resp).__name__} / status {status!r}", dict(replay_base, ops=[], req=req, state="initial"))
    ctx.case({"raw-live": label, "shapes": len(todo)}, True)


# ------------------------------------------------------------------------------------------ entry points used by props/c05.py
def search(ctx: Ctx, registry, scenario_paths: Dict[str, Any], zoo_seeds: List[int], gen_families: List[Tuple[str, int]]) -> Optional[Contract]:
    """The contract search over: zoo games (every route-owning class), shipped scenarios, generated scenario families."""
    from harness.gen import scenario as gs
    from harness.lib import scen
    try:
        contract = Contract(sorted(registry))
    except Exception as e:
        ctx.oblige("rig:R-contract reads the contract tables from drv_c05", "correspondence", False, f"{type(e).__name__}: {e}")
        return None
    rng = ctx.rng.fork("contract")
    for seed in zoo_seeds:
        game, cfg, notes = zoo_game(seed)
        for n in notes:
            ctx.notes.append(n)
        sweep(ctx, f"zoo#{seed}", game.simulation, registry, contract, {"zoo_seed": seed}, rng.fork(f"zoo{seed}"))
        raw_live(ctx, f"zoo#{seed}", zoo_game(seed)[0].simulation, {"zoo_seed": seed})
    for name, path in scenario_paths.items():
        try:
            game = scen.make_game(scen.load_cfg(path))
        except Exception:
            continue
        sweep(ctx, name, game.simulation, registry, contract, {"scenario": name}, rng.fork(name))
    for fam, seed in gen_families:
        cfg = gs.gen_scenario(Rng(seed), size=1, family=fam)
        game = scen.make_game(cfg)
        sweep(ctx, f"gen:{fam}#{seed}", game.simulation, registry, contract, {"gen_family": fam, "gen_seed": seed}, rng.fork(f"{fam}{seed}"))
    return contract


def rebuild(rp: dict):
    """the game a contract replay was recorded on"""
    from harness.gen import scenario as gs
    from harness.lib import scen
    if "zoo_seed" in rp:
        return zoo_game(rp["zoo_seed"])[0]
    if "gen_family" in rp:
        return scen.make_game(gs.gen_scenario(Rng(rp["gen_seed"]), size=1, family=rp["gen_family"]))
    return scen.make_game(scen.load_cfg(scen.shipped()[rp["scenario"]]))


def replay(rp: dict, registry) -> bool:
    """True if the recorded request no longer disagrees with the contract (and, when refused, changes nothing)"""
    game = rebuild(rp)
    sim = game.simulation
    apply_ops(sim, rp.get("ops") or [])
    contract = Contract(sorted(registry))
    req = rp["req"]
    rules, exists = route_contract(sim, Roots(sim), contract, req)
    before = rstate.fingerprint(sim)
    with rreq.Probe(sim, rreq.Snap(sim._request_manager), stub=False) as probe:
        out, resp = probe.call(req)
    after = rstate.fingerprint(sim)
    if out.startswith("raised"):
        return False
    if rp.get("raw_live"):
        return getattr(resp, "status", None) in ("success", "failure", "unreachable", "pending")
    bad = judge_request(rules, exists, out, contract.guards.get(rp.get("action")) if rp.get("action") else None)
    if bad:
        return False
    if any(r[2] is False for r in rules) and rstate.diff(before, after):
        return False
    return True
