"""R-env, disturbed long episodes (C01).

For a scenario with scripted RED agents: run episodes up to the configured `max_episode_length` in which the blue agent takes
ONE or TWO disturbance actions of its OWN action map at chosen times and does nothing otherwise.  These states are reachable
by construction.  What is chosen:

* actions: every entry of the blue action map gets its turn (thorough: the full action x time-bucket grid; quick: all
  entries that are RELEVANT to the red agents plus a seeded sample of the others).  Relevance is read from the scenario
  file, not hard-coded: the strings in the RED agents' settings (start nodes, target addresses, servers, routers,
  credentials), closed under "node name <-> its addresses" and "software of a start node that the agent targets -> its
  options" using the scenario's `simulation.network.nodes`; a blue action is relevant when one of its option values is such
  a string.
* times: an UNDISTURBED probe episode (blue idle, same reset seed) is run first; its red time-line gives the buckets: before
  the first red action, inside each kill-chain stage (TAP agents: intervals of `current_kill_chain_stage`; other agents:
  between consecutive red actions), and after the last one.  A disturbance time is drawn inside a bucket.
"""
from __future__ import annotations

import copy
from typing import Any, Dict, List, Optional, Tuple

from harness.lib.core import Rng
from harness.rigs import envrig

MAX_BUCKETS = 9


# ------------------------------------------------------------------------------------------------ which scenarios
def red_agents(cfg: Dict) -> List[Dict]:
    return [a for a in cfg.get("agents", []) if a.get("team") == "RED" and a.get("type") != "proxy-agent"]


def do_nothing_action(cfg: Dict) -> int:
    amap = (envrig.proxy_agent_cfg(cfg) or {}).get("action_space", {}).get("action_map", {})
    for k, v in amap.items():
        if v.get("action") == "do-nothing":
            return int(k)
    return 0


def blue_map(cfg: Dict) -> Dict[int, Dict]:
    amap = (envrig.proxy_agent_cfg(cfg) or {}).get("action_space", {}).get("action_map", {})
    return {int(k): v for k, v in amap.items()}


# ------------------------------------------------------------------------------------------------ relevance
def _strings(x, out: set):
    if isinstance(x, str):
        out.add(x)
    elif isinstance(x, dict):
        for k, v in x.items():
            if isinstance(k, str) and k.endswith("wildcard"):
                continue
            if isinstance(k, str):
                out.add(k)
            _strings(v, out)
    elif isinstance(x, (list, tuple)):
        for v in x:
            _strings(v, out)


def _node_addresses(node: Dict) -> List[str]:
    out = []
    if node.get("ip_address"):
        out.append(str(node["ip_address"]))
    for port in (node.get("ports") or {}).values() if isinstance(node.get("ports"), dict) else []:
        if isinstance(port, dict) and port.get("ip_address"):
            out.append(str(port["ip_address"]))
    for key in ("network_interfaces", "external_port", "internal_port", "dmz_port"):
        v = node.get(key)
        if isinstance(v, dict):
            for port in ([v] if "ip_address" in v else v.values()):
                if isinstance(port, dict) and port.get("ip_address"):
                    out.append(str(port["ip_address"]))
    return out


def _leaf_strings(x) -> List[str]:
    if isinstance(x, str):
        return [x]
    if isinstance(x, dict):
        return [s for v in x.values() for s in _leaf_strings(v)]
    if isinstance(x, (list, tuple)):
        return [s for v in x for s in _leaf_strings(v)]
    return []


GENERIC = {"ALL", "NONE", "TCP", "UDP", "ICMP", "HTTP", "DNS", "PERMIT", "DENY", "", "change_password"}


def red_tokens(cfg: Dict) -> set:
    """Strings that name what the red agents use, closed under the scenario's own node table."""
    toks: set = set()
    for a in red_agents(cfg):
        _strings(a.get("agent_settings") or {}, toks)
        _strings(((a.get("action_space") or {}).get("action_map")) or {}, toks)
    vocab = {str(x) for x in ((cfg.get("game") or {}).get("ports") or []) + ((cfg.get("game") or {}).get("protocols") or [])}
    toks -= GENERIC | vocab
    nodes = (((cfg.get("simulation") or {}).get("network") or {}).get("nodes")) or []
    for _ in range(2):   # name -> addresses -> names of other nodes that carry a targeted address
        for n in nodes:
            name, addrs = n.get("hostname"), _node_addresses(n)
            if name in toks:
                toks.update(addrs)
                for sw in (n.get("applications") or []) + (n.get("services") or []):
                    if isinstance(sw, dict) and sw.get("type") in toks:
                        _strings(sw.get("options") or {}, toks)
            if any(a in toks for a in addrs):
                toks.add(name)
        toks -= GENERIC | vocab
    return toks


def relevant_actions(cfg: Dict) -> List[int]:
    toks = red_tokens(cfg)
    out = []
    for k, v in sorted(blue_map(cfg).items()):
        if v.get("action") == "do-nothing":
            continue
        vals = set(_leaf_strings(v.get("options") or {}))
        if vals & toks:
            out.append(k)
    return out


# ------------------------------------------------------------------------------------------------ probe and buckets
def probe(cfg: Dict, seed: int, length: Optional[int] = None) -> Tuple[envrig.Play, List[Tuple[str, int, int]]]:
    """One undisturbed full-length episode (blue idle).  Returns the play and the time buckets [(label, lo, hi)), hi exclusive.
    `length` shortens the episode (only used for scenarios whose every step costs seconds)."""
    max_len = int((cfg.get("game") or {}).get("max_episode_length", 256))
    idle = do_nothing_action(cfg)
    n = min(max_len, length) if length else max_len
    p = envrig.run_ops(cfg, [["reset", seed, None]] + [idle] * n)
    return p, buckets_of(cfg, p, max_len)


def buckets_of(cfg: Dict, p: envrig.Play, max_len: int) -> List[Tuple[str, int, int]]:
    reds = {a.get("ref") for a in red_agents(cfg)}
    cuts: List[Tuple[int, str]] = []     # (time at which a new bucket starts, label)
    for name, st in p.scripted.items():
        if name not in reds:
            continue
        samples = st.get("stage_samples") or []
        if samples:
            # sample j is the stage AFTER step j; the stage is entered by the get_action of tick j
            prev = None
            for j, s in enumerate(samples):
                if s != prev:
                    cuts.append((j, f"{st['type']}:{s}"))
                    prev = s
        else:
            for k, (t, act, _) in enumerate(st.get("timeline") or []):
                cuts.append((t, f"{st['type']}:action#{k + 1}"))
    cuts = sorted(set(cuts))
    if not cuts:
        third = max(1, max_len // 3)
        return [("early", 0, third), ("middle", third, 2 * third), ("late", 2 * third, max_len)]
    out: List[Tuple[str, int, int]] = []
    if cuts[0][0] > 0:
        out.append(("before-red-starts", 0, cuts[0][0]))
    for (t, label), nxt in zip(cuts, cuts[1:] + [(max_len, "")]):
        if nxt[0] > t:
            out.append((label, t, nxt[0]))
    out = [b for b in out if b[1] < max_len]
    while len(out) > MAX_BUCKETS:     # merge the shortest neighbouring pair
        i = min(range(len(out) - 1), key=lambda j: out[j + 1][2] - out[j][1])
        out[i:i + 2] = [(out[i][0] + "+" + out[i + 1][0].split(":")[-1], out[i][1], out[i + 1][2])]
    return out


# ------------------------------------------------------------------------------------------------ episodes
def episode_ops(cfg: Dict, seed: int, disturbances: List[Tuple[int, int]], length: Optional[int] = None) -> List[Any]:
    """reset(seed), then `length` steps: action a at time t for every (t, a) in `disturbances`, do-nothing otherwise."""
    max_len = int(length if length is not None else (cfg.get("game") or {}).get("max_episode_length", 256))
    idle = do_nothing_action(cfg)
    at = {int(t): int(a) for t, a in disturbances}
    return [["reset", seed, None]] + [at.get(t, idle) for t in range(max_len)]


def pick_time(rng: Rng, bucket: Tuple[str, int, int]) -> int:
    _, lo, hi = bucket
    return rng.range(lo, max(lo, hi - 1))


def diverse(cfg: Dict, actions: List[int], rng: Rng, cap: int) -> List[int]:
    """At most `cap` of `actions`, different action types (and different targets of one type) first."""
    amap = blue_map(cfg)
    groups: Dict[str, List[int]] = {}
    for a in rng.shuffle(actions):
        groups.setdefault(amap[a].get("action", "?"), []).append(a)
    keys = rng.shuffle(sorted(groups))
    out: List[int] = []
    while len(out) < cap and any(groups[k] for k in keys):
        for k in keys:
            if groups[k] and len(out) < cap:
                out.append(groups[k].pop(0))
    return out


def plan(cfg: Dict, buckets: List[Tuple[str, int, int]], rng: Rng, thorough: bool, n_sample: int, n_pairs: int, cap: int = 10 ** 6) -> List[dict]:
    """The disturbance episodes of one scenario.  Every item: {"dist": [(t, a), …], "why": str, "buckets": [labels]}."""
    amap = blue_map(cfg)
    acts = [k for k, v in sorted(amap.items()) if v.get("action") != "do-nothing"]
    rel = relevant_actions(cfg)
    rel_set = set(rel)
    items: List[dict] = []
    if thorough:
        # the grid: every relevant action in EVERY bucket; every other action of the map in three buckets (the first, the longest of
        # the inner ones, the last).  If that is more than `cap` cells, every action keeps an equal share of its cells (seeded).
        inner = buckets[1:-1] or buckets
        three = [buckets[0], max(inner, key=lambda b: b[2] - b[1]), buckets[-1]]
        three = [b for i, b in enumerate(three) if b not in three[:i]]
        per_action: List[List[dict]] = []
        for a in acts:
            bs = buckets if a in rel_set else three
            cells = [{"dist": [(pick_time(rng, b), a)], "why": "grid" + (":relevant" if a in rel_set else ""), "buckets": [b[0]]} for b in bs]
            per_action.append(rng.shuffle(cells) if sum(len(buckets) if x in rel_set else len(three) for x in acts) > cap else cells)
        while any(per_action) and len(items) < cap:
            for cells in per_action:
                if cells and len(items) < cap:
                    items.append(cells.pop(0))
    else:
        # every relevant action once; the buckets are dealt round-robin from a seeded starting point so that all of them are
        # used across the relevant actions, and every second one is placed early (the whole red chain runs disturbed)
        order = rng.shuffle(list(range(len(buckets))))
        for i, a in enumerate(diverse(cfg, rel, rng, cap)):
            b = buckets[order[i % len(order)]]
            items.append({"dist": [(pick_time(rng, b), a)], "why": "relevant", "buckets": [b[0]]})
        others = [a for a in acts if a not in rel_set]
        for a in rng.shuffle(others)[:n_sample]:
            b = rng.choice(buckets)
            items.append({"dist": [(pick_time(rng, b), a)], "why": "sampled", "buckets": [b[0]]})
    pool = rel or acts
    for _ in range(n_pairs if acts else 0):
        a1, a2 = rng.choice(pool), rng.choice(acts)
        b1, b2 = rng.choice(buckets), rng.choice(buckets)
        t1, t2 = pick_time(rng, b1), pick_time(rng, b2)
        if t1 == t2:
            t2 = min(t2 + 1, buckets[-1][2] - 1)
        if t1 != t2:
            items.append({"dist": [(t1, a1), (t2, a2)], "why": "pair", "buckets": [b1[0], b2[0]]})
    return items


def search_plan(cfg: Dict, buckets: List[Tuple[str, int, int]], rng: Rng, stage: Optional[str], budget: int) -> List[dict]:
    """Search stage (DESIGN 3.5) for a broken 'agent is total' obligation that names a kill-chain stage: relevant actions
    first, placed in the bucket of the failing stage, then in the buckets before it (latest first), then the other actions."""
    amap = blue_map(cfg)
    acts = [k for k, v in sorted(amap.items()) if v.get("action") != "do-nothing"]
    rel = relevant_actions(cfg)
    def stages_of(b):     # "tap-001:PROPAGATE+COMMAND_AND_CONTROL" -> {"PROPAGATE", "COMMAND_AND_CONTROL"}
        return set(b[0].split(":")[-1].split("+"))
    idx = next((i for i, b in enumerate(buckets) if stage and stage in stages_of(b)), len(buckets) - 1)
    order = list(range(idx, -1, -1)) + list(range(idx + 1, len(buckets)))
    items: List[dict] = []
    for group in (rel, [a for a in acts if a not in set(rel)]):
        for bi in order:
            for a in rng.shuffle(group):
                items.append({"dist": [(pick_time(rng, buckets[bi]), a)], "why": "search", "buckets": [buckets[bi][0]]})
    # interleave so that the budget reaches several buckets: round-robin over the first len(rel) items of each bucket
    per_bucket: Dict[str, List[dict]] = {}
    for it in items:
        per_bucket.setdefault(it["buckets"][0], []).append(it)
    out: List[dict] = []
    keys = [buckets[bi][0] for bi in order]
    rounds = 0
    while len(out) < budget and any(per_bucket.get(k) for k in keys):
        # the failing stage's bucket gets two picks per round
        for k in ([keys[0]] + keys):
            if per_bucket.get(k):
                out.append(per_bucket[k].pop(0))
        rounds += 1
    return out[:budget]
