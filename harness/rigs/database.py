"""R-db: drive real DatabaseService / DatabaseClient / FTP pair / RansomwareScript objects on a routed network
(clients - switch - router - database host, router - backup host) and the Lean model (Drivers/C17.lean) with the
same operation sequences; every answer and a digest of the property-relevant state are compared after every op.

Observables: return value of the call / request status; the status codes the database service sent while the op ran
(recorded by an in-process wrapper around DatabaseService.send); server-side connection table (ids renamed to issue
order, originating client), operating + health state, health of database/database.db, of downloads/database.db and of
the copy on the backup host; per client: installed?, application state, client_connections, native connection; the
is_active flag of every DatabaseClientConnection ever created.
"""
from __future__ import annotations

from contextlib import contextmanager
from typing import Any, Dict, List, Optional

from harness.lib.core import Rng

SQL = {"SELECT": "SELECT", "DELETE": "DELETE", "ENCRYPT": "ENCRYPT", "INSERT": "INSERT",
       "PGSTAT": "SELECT * FROM pg_stat_activity", "OTHER": "DROP TABLE users"}
SVC_REQS = ["stop", "start", "pause", "resume", "restart", "disable", "enable", "fix", "compromise", "scan"]
JUNK = {"notdict": "hello", "notype": {"sql": "SELECT", "connection_id": None}, "unknown": {"type": "ping", "sql": "SELECT"}}
SERVER_IP, BACKUP_IP = "10.0.2.10", "10.0.3.10"
BIG = 10 ** 7  # link bandwidth (Mbit): link saturation belongs to C18, not to this rig


def o(x) -> str:
    return "-" if x is None else str(x)


def pw_str(p: Optional[int]) -> Optional[str]:
    """Password vocabulary: None (no password), 0 = the empty string (falsy but not None), k = 'pwk'."""
    return None if p is None else ("" if p == 0 else f"pw{p}")


# ------------------------------------------------------------------------------------------ model side
def model_lines(case: dict) -> List[str]:
    d = case["durs"]
    lines = ["reset", f"new {len(case['clients'])} {case['max']} {case['fix']} {case['restart']} {d['sUp']} {d['sDown']} "
             f"{d['bUp']} {d['bDown']} {d['cUp']} {d['cDown']} {o(case['srv_pw'])} {1 if case.get('bkcfg', True) else 0}"]
    for i, c in enumerate(case["clients"]):
        lines.append(f"cfg {i} {o(c['pw'])} {1 if c['rs'] else 0} {o(c['rs_pw'])} {1 if c.get('dm') else 0} {o(c.get('dm_pw'))} "
                     f"{1 if c.get('dm_repeat', True) else 0}")
    for op in case["ops"]:
        if op[0] == "dmp":   # the bot with probabilities strictly between 0 and 1: the trial outcomes (predicted from the seed) are the model's inputs
            op = ["dm", op[1], op[2], op[7], op[8], op[6]]
        lines.append(" ".join(o(x) if x is None else (("1" if x else "0") if isinstance(x, bool) else str(x)) for x in op))
    return lines


# ------------------------------------------------------------------------------------------ implementation side
class Rec:
    def __init__(self):
        self.statuses: List[int] = []
        self.ids: List[str] = []
        self.handles: List[Any] = []
        self.drops: List[tuple] = []     # (source ip, refused by the sender's own link?) of file-transfer frames refused for capacity
        self.small_drops: int = 0        # any other frame refused for capacity (the saturation abstraction does not cover it)
        self.trials: List[bool] = []     # outcomes of the data-manipulation bot's Bernoulli trials while the op ran


@contextmanager
def instrumented(rec: Rec):
    """In-process wrappers (class level, restored on exit); nothing in /repo is touched."""
    from primaite.simulator.system.applications.database_client import DatabaseClient
    from primaite.simulator.system.services.database.database_service import DatabaseService
    from primaite.simulator.network.hardware.base import Link
    o_send, o_gen, o_create = DatabaseService.send, DatabaseService._generate_connection_id, DatabaseClient._create_client_connection
    o_can = Link.can_transmit_frame
    from primaite.simulator.system.applications.red_applications import data_manipulation_bot as dmb
    o_trial = dmb.simulate_trial

    def trial(p):
        r = o_trial(p)
        rec.trials.append(bool(r))
        return r

    def can(self, frame):
        r = o_can(self, frame)
        if not r and self.is_up:
            pl = getattr(frame, "payload", None)
            src = str(frame.ip.src_ip_address) if getattr(frame, "ip", None) is not None else "?"
            if type(pl).__name__ == "FTPPacket" and getattr(pl.ftp_command, "name", "") == "STOR":
                near = any(str(getattr(e, "ip_address", "")) == src for e in (self.endpoint_a, self.endpoint_b))
                rec.drops.append((src, near))
            else:
                rec.small_drops += 1
        return r

    def send(self, payload, session_id, **kw):
        rec.statuses.append(payload.get("status_code") if isinstance(payload, dict) else None)
        return o_send(self, payload, session_id, **kw)

    def gen(self):
        cid = o_gen(self)
        rec.ids.append(cid)
        return cid

    def create(self, connection_id, connection_request_id):
        r = o_create(self, connection_id, connection_request_id)
        rec.handles.append(self.client_connections[connection_id])
        return r

    DatabaseService.send, DatabaseService._generate_connection_id, DatabaseClient._create_client_connection = send, gen, create
    Link.can_transmit_frame = can
    dmb.simulate_trial = trial
    try:
        yield
    finally:
        dmb.simulate_trial = o_trial
        DatabaseService.send, DatabaseService._generate_connection_id, DatabaseClient._create_client_connection = o_send, o_gen, o_create
        Link.can_transmit_frame = o_can


class World:
    def __init__(self, case: dict, rec: Rec):
        from ipaddress import IPv4Address
        from primaite.simulator.network.container import Network
        from primaite.simulator.network.hardware.nodes.host.computer import Computer
        from primaite.simulator.network.hardware.nodes.host.server import Server
        from primaite.simulator.network.hardware.nodes.network.router import ACLAction, Router
        from primaite.simulator.network.hardware.nodes.network.switch import Switch
        from primaite.simulator.system.applications.database_client import DatabaseClient
        from primaite.simulator.system.applications.red_applications.data_manipulation_bot import DataManipulationBot
        from primaite.simulator.system.applications.red_applications.ransomware_script import RansomwareScript
        from primaite.simulator.system.services.database.database_service import DatabaseService
        from primaite.simulator.system.services.ftp.ftp_server import FTPServer
        from primaite.utils.validation.ip_protocol import PROTOCOL_LOOKUP
        from primaite.utils.validation.port import PORT_LOOKUP
        self.IPv4Address, self.ACLAction, self.DatabaseClient = IPv4Address, ACLAction, DatabaseClient
        from primaite.simulator.system.services.ftp.ftp_client import FTPClient
        self.DatabaseService, self.FTPClient = DatabaseService, FTPClient
        self.rec = rec
        self.t = 0
        self.looped = False
        d = case["durs"]
        n = len(case["clients"])
        net = Network()
        r = Router.from_config(config={"type": "router", "hostname": "router", "num_ports": 3, "start_up_duration": 0})
        r.power_on()
        r.configure_port(1, "10.0.1.1", "255.255.255.0")
        r.configure_port(2, "10.0.2.1", "255.255.255.0")
        r.configure_port(3, "10.0.3.1", "255.255.255.0")
        sw = Switch.from_config(config={"type": "switch", "hostname": "sw", "num_ports": 8, "start_up_duration": 0})
        sw.power_on()
        net.connect(r.network_interface[1], sw.network_interface[8], bandwidth=BIG)  # node order in the Network: router, switch,

        def host(cls, kind, name, ip, gw, up, down):
            h = cls.from_config(config={"type": kind, "hostname": name, "ip_address": ip, "subnet_mask": "255.255.255.0",
                                        "default_gateway": gw, "start_up_duration": 0, "shut_down_duration": down})
            h.power_on()
            h.config.start_up_duration = up
            return h
        self.clients = []
        for i in range(n):                                                           # clients in index order,
            c = host(Computer, "computer", f"c{i}", f"10.0.1.{10 + i}", "10.0.1.1", d["cUp"], d["cDown"])
            net.connect(c.network_interface[1], sw.network_interface[i + 1], bandwidth=BIG)
            self.clients.append(c)
        srv = host(Server, "server", "db", SERVER_IP, "10.0.2.1", d["sUp"], d["sDown"])    # the database host,
        bw = case.get("bw") or BIG   # narrow links on the database host and the backup host: the file transfers can saturate them
        net.connect(srv.network_interface[1], r.network_interface[2], bandwidth=bw)
        bk = host(Server, "server", "bk", BACKUP_IP, "10.0.3.1", d["bUp"], d["bDown"])     # the backup host
        net.connect(bk.network_interface[1], r.network_interface[3], bandwidth=case.get("bw_bk") or BIG)
        for p in (1, 2, 3):
            r.enable_port(p)
        r.acl.add_rule(action=ACLAction.PERMIT, src_port=PORT_LOOKUP["ARP"], dst_port=PORT_LOOKUP["ARP"], position=22)
        r.acl.add_rule(action=ACLAction.PERMIT, protocol=PROTOCOL_LOOKUP["ICMP"], position=23)
        r.acl.add_rule(action=ACLAction.PERMIT, position=21)
        srv.software_manager.install(DatabaseService)
        db = srv.software_manager.software["database-service"]
        if case.get("bkcfg", True):
            db.configure_backup(IPv4Address(BACKUP_IP))
        db.max_sessions = case["max"]
        db.config.fixing_duration = case["fix"]
        db.restart_duration = case["restart"]
        db.password = pw_str(case["srv_pw"])
        # co-listener (second shift, blind change C17-h): ANOTHER running software of the database host listens on the Postgres port
        # (the documented common option `listen_on_ports`, set the way PrimaiteGame.from_config sets it), so the node keeps the port
        # open while the database service is down and frames still reach the service: the SERVICE's own guard has to refuse.
        # The model is unchanged: it never relied on the node's port demultiplexing.
        if case.get("colisten"):
            name = case["colisten"]
            if name not in srv.software_manager.software:
                from primaite.simulator.system.services.dns.dns_client import DNSClient
                srv.software_manager.install({"dns-client": DNSClient}[name])
            srv.software_manager.software[name].listen_on_ports = {PORT_LOOKUP["POSTGRES_SERVER"]}
        bk.software_manager.install(FTPServer)
        for i, (c, cc) in enumerate(zip(self.clients, case["clients"])):
            c.software_manager.install(DatabaseClient)
            dc = c.software_manager.software["database-client"]
            dc.configure(server_ip_address=IPv4Address(SERVER_IP))
            dc.server_password = pw_str(cc["pw"])
            dc.run()
            if cc["rs"]:
                c.software_manager.install(RansomwareScript)
                rs = c.software_manager.software["ransomware-script"]
                rs.configure(server_ip_address=IPv4Address(SERVER_IP))
                rs.server_password = pw_str(cc["rs_pw"])
                rs.run()
            if cc.get("dm"):
                c.software_manager.install(DataManipulationBot)
                bot = c.software_manager.software["data-manipulation-bot"]
                bot.configure(server_ip_address=IPv4Address(SERVER_IP), server_password=pw_str(cc.get("dm_pw")), payload="DELETE",
                              port_scan_p_of_success=1.0, data_manipulation_p_of_success=1.0, repeat=bool(cc.get("dm_repeat", True)))
                bot.run()
        self.net, self.router, self.srv, self.bk, self.db = net, r, srv, bk, db
        self.ip_owner = {f"10.0.1.{10 + i}": i for i in range(n)}
        net.pre_timestep(0)

    # ---- helpers
    def dc(self, i):
        return self.clients[i].software_manager.software.get("database-client") if i < len(self.clients) else None

    def cid(self, k):
        if k is None or k >= len(self.rec.ids):
            return "00000000-0000-0000-0000-00000000f0f0"  # never issued
        return self.rec.ids[k]

    def idx(self, cid):
        return self.rec.ids.index(cid) if cid in self.rec.ids else "?"

    @staticmethod
    def req(resp):
        """RequestResponse → (res, rej)"""
        if resp.status == "success":
            return True, False
        if resp.status == "failure" and not (resp.data or {}).get("reason"):
            return False, False
        return None, True

    def block(self, what: int, on: bool):
        acl = self.router.acl
        ip = self.IPv4Address
        if what == 0:
            src, dst = SERVER_IP, BACKUP_IP
        elif what == 1:
            src, dst = BACKUP_IP, SERVER_IP
        elif what % 2 == 0:
            src, dst = f"10.0.1.{10 + (what - 2) // 2}", SERVER_IP
        else:
            src, dst = SERVER_IP, f"10.0.1.{10 + (what - 3) // 2}"
        if acl.acl[what] is not None:
            acl.remove_rule(what)
        if on:
            acl.add_rule(action=self.ACLAction.DENY, src_ip_address=ip(src), dst_ip_address=ip(dst), position=what)

    # ---- digest
    def digest(self) -> str:
        db, srv, bk = self.db, self.srv, self.bk

        def fh(f):
            return "-" if f is None else f.health_status.name
        conns = ",".join(f"{self.idx(cid)}@{self.ip_owner.get(str(v['ip_address']), '?')}" for cid, v in db._connections.items())
        sw = srv.software_manager
        inst = sw.software.get("database-service") is db
        ftpc = sw.software.get("ftp-client")
        port = inst and any(v is db for v in sw.port_protocol_mapping.values())
        def cds(x):
            # the countdowns, shown while they are live: RESTARTING(n) / FIXING(n); a FIXING service without a number shows FIXING(None)
            rst = f"({x.restart_countdown})" if x.operating_state.name == "RESTARTING" else ""
            fix = f"({x._fixing_countdown})" if x.health_state_actual.name == "FIXING" else ""
            return rst, fix
        if inst:
            rst, fix = cds(db)
            svc = f"{db.operating_state.name}{rst},{db.health_state_actual.name}{fix}"
        else:
            svc = "absent,absent"
        if ftpc is None:
            fcs = "-"
        else:
            rst, fix = cds(ftpc)
            fcs = f"{ftpc.operating_state.name}{rst}:{ftpc.health_state_actual.name}{fix}:{1 if len(ftpc.connections) else 0}"
        def dels(name):
            fo = srv.file_system.get_folder(name)
            return "" if fo is None else "/".join(f.health_status.name for f in fo.deleted_files.values() if f.name == "database.db")
        parts = [f"srv:{srv.operating_state.name},{svc},{fh(db.db_file)},"
                 f"{fh(srv.file_system.get_file('downloads', 'database.db'))},[{conns}],"
                 f"ftpc={fcs},port={1 if port else 0},dl={1 if srv.file_system.get_folder('downloads') is not None else 0},"
                 f"del={dels('database')};{dels('downloads')}"]
        ftps = bk.software_manager.software["ftp-server"]
        orph = sum(1 for fo in bk.file_system.folders.values() if fo.name != str(db.uuid) and fo.get_file("database.db") is not None)
        parts.append(f"bk:{bk.operating_state.name},{ftps.operating_state.name},{fh(bk.file_system.get_file(str(db.uuid), 'database.db'))},orph={orph}")
        for i, c in enumerate(self.clients):
            dc = self.dc(i)
            bot = c.software_manager.software.get("data-manipulation-bot")
            dm = "" if bot is None else f",dm{int(bot.attack_stage)}"
            if dc is None:
                parts.append(f"c:{c.operating_state.name},absent{dm}")
            else:
                nat = "-"
                if dc.native_connection is not None:
                    nat = next((str(k) for k, h in enumerate(self.rec.handles) if h is dc.native_connection), "?")
                ids = ",".join(str(self.idx(k)) for k in dc.client_connections)
                parts.append(f"c:{c.operating_state.name},{dc.operating_state.name},[{ids}],{nat}{dm}")
        parts.append("H:" + "".join("1" if h.is_active else "0" for h in self.rec.handles))
        return " ".join(parts)

    # ---- one op
    def flags(self, k: str) -> list:
        """Saturation inputs observed while the op ran (see Model/Database.lean `backupDatabase` / `restoreBackup`)."""
        d = self.rec.drops
        big = not any(src == SERVER_IP for src, _ in d)
        down_ok = not any(src == BACKUP_IP and not near for src, near in d)
        send_ok = not any(src == BACKUP_IP and near for src, near in d)
        return {"backup": [big], "restore": [down_ok, send_ok], "tick": [big, down_ok, send_ok]}[k]

    def do(self, op: list) -> str:
        rec = self.rec
        rec.statuses = []
        rec.drops = []
        rec.small_drops = 0
        rec.trials = []
        inst = self.srv.software_manager.software.get("database-service") is self.db
        res: Optional[bool] = None
        handle = None
        rej = False
        raised = False
        rng_note = ""
        k = op[0]
        if k == "connect":
            dc = self.dc(op[1])
            h = dc.get_new_connection() if dc is not None else None
            res = h is not None
            if h is not None:
                handle = next(j for j, x in enumerate(rec.handles) if x is h)
        elif k == "rq":
            dc = self.dc(op[1])
            if dc is None:
                rej = True
            else:
                res = bool(dc._query(SQL[op[3]], connection_id=self.cid(op[2])))
        elif k == "rd":
            dc = self.dc(op[1])
            if dc is None:
                rej = True
            else:
                dc.software_manager.send_payload_to_session_manager(
                    payload={"type": "disconnect", "connection_id": self.cid(op[2])},
                    dest_ip_address=self.IPv4Address(SERVER_IP), dest_port=dc.port)
        elif k == "rj":
            dc = self.dc(op[1])
            if dc is None:
                rej = True
            else:
                import copy
                dc.software_manager.send_payload_to_session_manager(
                    payload=copy.deepcopy(JUNK[op[2]]), dest_ip_address=self.IPv4Address(SERVER_IP), dest_port=dc.port)
        elif k == "dl":
            from primaite.simulator.file_system.file_system_item_abc import FileSystemItemHealthStatus as FH
            fs = self.srv.file_system
            a = op[1]
            f = fs.get_file("downloads", "database.db")
            if a == "del":
                res = bool(fs.delete_file("downloads", "database.db"))
            elif a in ("cor", "rep"):
                if f is None:
                    rej = True
                else:
                    res = bool(f.corrupt() if a == "cor" else f.repair())
            elif a == "fodel":
                res = bool(fs.delete_folder("downloads"))
            elif a == "plant":
                try:
                    nf = fs.create_file(folder_name="downloads", file_name="database.db")
                    nf.health_status = FH[op[2]]
                    res = True
                except Exception as e:  # noqa: BLE001 - `create_file` raises on an existing name
                    if "already exists" not in str(e):
                        raise
                    rej = True
            else:
                raise ValueError(f"unknown op {op}")
        elif k == "fsr":
            folder = "database" if op[1] == "db" else "downloads"
            req = {"fcorrupt": ["file", folder, "database.db", "corrupt"], "frepair": ["file", folder, "database.db", "repair"],
                   "frestore": ["file", folder, "database.db", "restore"], "fscan": ["file", folder, "database.db", "scan"],
                   "fdelete": ["delete", "file", folder, "database.db"], "fundelete": ["restore", "file", folder, "database.db"],
                   "focorrupt": ["folder", folder, "corrupt"], "forepair": ["folder", folder, "repair"],
                   "fodelete": ["delete", "folder", folder], "fofdelete": ["folder", folder, "delete", "database.db"]}[op[2]]
            res, rej = self.req(self.srv.apply_request(["file_system"] + req))
        elif k == "svcin":
            sm = self.srv.software_manager
            old = sm.software.get("database-service")
            try:
                if len(op) > 3:
                    from primaite.simulator.system.software import SoftwareHealthState
                    sm.install(self.DatabaseService, self.DatabaseService.ConfigSchema(
                        db_password=pw_str(op[1]), backup_server_ip=self.IPv4Address(BACKUP_IP) if op[2] else None,
                        fixing_duration=op[3], starting_health_state=SoftwareHealthState[op[4]]))
                elif len(op) > 1:
                    sm.install(self.DatabaseService, self.DatabaseService.ConfigSchema(
                        db_password=pw_str(op[1]), backup_server_ip=self.IPv4Address(BACKUP_IP) if op[2] else None))
                else:
                    sm.install(self.DatabaseService)
                new = sm.software.get("database-service")
                if new is None or new is old:
                    rej = True
                else:
                    self.db = new
                    res = True
            except Exception as e:  # noqa: BLE001 - the constructor raises while a live database.db exists
                if "already exists" not in str(e):
                    raise
                raised = True
        elif k == "co":
            co = self.srv.software_manager.software.get("database-client")
            try:
                if co is None:
                    rej = True
                elif op[1] == 0:
                    res = co.get_new_connection() is not None
                elif op[1] == 1:
                    res = bool(co.query("SELECT"))
                else:
                    res, rej = self.req(self.srv.apply_request(["application", "database-client", "execute"]))
            except (RecursionError, Exception) as e:  # noqa: BLE001
                # the service answers its own answers for ever (it owns port 5432 on the host the client addresses): the call
                # does not return. Explicit outcome; the state afterwards is not compared and the trace ends here.
                if isinstance(e, RecursionError) or "recursion" in str(e).lower():
                    self.looped = True
                    return "res=- h=- st=[] rej=R | LOOP"
                raise
        elif k == "hq":
            if op[1] >= len(rec.handles):
                rej = True
            else:
                res = bool(rec.handles[op[1]].query(SQL[op[2]]))
        elif k == "hd":
            if op[1] >= len(rec.handles):
                rej = True
            else:
                rec.handles[op[1]].disconnect()
        elif k in ("nc", "nq", "nd"):
            dc = self.dc(op[1])
            if dc is None:
                rej = True
            elif k == "nc":
                res = bool(dc.connect())
            elif k == "nq":
                res = bool(dc.query(SQL[op[2]]))
            else:
                dc.disconnect()
        elif k == "ex":
            if op[1] >= len(self.clients):
                rej = True
            else:
                res, rej = self.req(self.clients[op[1]].apply_request(["application", "database-client", "execute"]))
        elif k == "un":
            if self.dc(op[1]) is not None:
                self.clients[op[1]].software_manager.uninstall("database-client")
        elif k == "in":
            if op[1] < len(self.clients) and self.dc(op[1]) is None:
                self.clients[op[1]].software_manager.install(self.DatabaseClient)
                self.dc(op[1]).configure(server_ip_address=self.IPv4Address(SERVER_IP))
        elif k == "run":
            dc = self.dc(op[1])
            if dc is None:
                rej = True
            else:
                dc.run()
        elif k == "close":
            if op[1] >= len(self.clients):
                rej = True
            else:
                res, rej = self.req(self.clients[op[1]].apply_request(["application", "database-client", "close"]))
        elif k == "cpw":
            dc = self.dc(op[1])
            if dc is None:
                rej = True
            else:
                dc.server_password = pw_str(op[2])
        elif k == "rs":
            rs = self.clients[op[1]].software_manager.software.get("ransomware-script") if op[1] < len(self.clients) else None
            if rs is None:
                res = False
            else:
                rs.payload = SQL[op[2]]
                res = bool(rs.attack())
        elif k == "svc":
            res, rej = self.req(self.srv.apply_request(["service", "database-service", op[1]]))
        elif k == "spw":
            self.db.password = pw_str(op[1])
        elif k == "backup":
            if inst:
                res = bool(self.db.backup_database())
            else:
                rej = True
            op[1:] = self.flags("backup")
        elif k == "restore":
            if inst:
                res = bool(self.db.restore_backup())
            else:
                rej = True
            op[1:] = self.flags("restore")
        elif k == "fodel":
            res = bool(self.srv.file_system.delete_folder("database"))
        elif k == "bkdel":
            res = bool(self.bk.file_system.delete_file(str(self.db.uuid), "database.db"))
        elif k == "adm":
            sm = self.srv.software_manager
            if op[1] == "ftpc":
                res, rej = self.req(self.srv.apply_request(["service", "ftp-client", op[2]]))
            elif op[1] in ("ftpcun", "svcun", "coun"):
                name = {"ftpcun": "ftp-client", "svcun": "database-service", "coun": "database-client"}[op[1]]
                if name in sm.software:
                    sm.uninstall(name)
                    res = True
                else:
                    rej = True
            elif op[1] == "bkcfg":
                self.db.backup_server_ip = self.IPv4Address(BACKUP_IP) if op[2] else None
                res = True
            elif op[1] == "ftpcin":
                old = sm.software.get("ftp-client")
                if op[2]:
                    sm.install(self.FTPClient, self.FTPClient.ConfigSchema())
                else:
                    sm.install(self.FTPClient)
                if sm.software.get("ftp-client") is old:
                    rej = True
                else:
                    res = True
            elif op[1] == "corun":
                co = sm.software.get("database-client")
                if co is None:
                    rej = True
                else:
                    co.run()
                    res = True
            elif op[1] == "coin":
                if "database-client" in sm.software:
                    rej = True
                else:
                    sm.install(self.DatabaseClient)
                    sm.software["database-client"].configure(server_ip_address=self.IPv4Address(SERVER_IP))
                    res = True
            else:
                raise ValueError(f"unknown op {op}")
        elif k == "dm":
            bot = self.clients[op[1]].software_manager.software.get("data-manipulation-bot") if op[1] < len(self.clients) else None
            if bot is None:
                rej = True
            else:
                bot.payload = SQL[op[2]]
                # the two Bernoulli trials of the kill chain, made certain / impossible: the real `simulate_trial` still runs
                bot.port_scan_p_of_success = 1.0 if op[3] else 0.0
                bot.data_manipulation_p_of_success = 1.0 if op[4] else 0.0
                if op[5]:
                    res, rej = self.req(self.clients[op[1]].apply_request(["application", "data-manipulation-bot", "execute"]))
                else:
                    res = bool(bot.attack())
        elif k == "dmp":
            # the bot with probabilities strictly between 0 and 1 through the seeded `random` module: the outcomes are
            # PREDICTED from the seed (first draw = port scan if the stage after logon is LOGON, next draw = attack if the
            # stage is then PORT_SCAN) and fed to the model; the draws the real `simulate_trial` made must be a prefix of them
            import random
            bot = self.clients[op[1]].software_manager.software.get("data-manipulation-bot") if op[1] < len(self.clients) else None
            ps, pa = op[4] / 1000.0, op[5] / 1000.0
            if bot is None:
                rej = True
                op[7:] = [False, False]
            else:
                stage = int(bot.attack_stage)
                s1 = 1 if stage == 0 else stage
                pr = random.Random(op[3])
                scan = atk = False
                expect = []
                if s1 == 1:
                    scan = pr.random() < ps
                    expect.append(scan)
                    if scan:
                        atk = pr.random() < pa
                        expect.append(atk)
                elif s1 == 2:
                    atk = pr.random() < pa
                    expect.append(atk)
                op[7:] = [scan, atk]
                bot.payload = SQL[op[2]]
                bot.port_scan_p_of_success, bot.data_manipulation_p_of_success = ps, pa
                random.seed(op[3])
                if op[6]:
                    res, rej = self.req(self.clients[op[1]].apply_request(["application", "data-manipulation-bot", "execute"]))
                else:
                    res = bool(bot.attack())
                if rec.trials != expect[:len(rec.trials)]:   # (fewer draws than predicted: the kill chain stopped earlier, e.g. no host client)
                    rng_note = f" UNMODELLED-RNG:{rec.trials}!={expect}"
        elif k == "rsx":
            rs = self.clients[op[1]].software_manager.software.get("ransomware-script") if op[1] < len(self.clients) else None
            if rs is None:
                rej = True
            else:
                rs.payload = SQL[op[2]]
                res, rej = self.req(self.clients[op[1]].apply_request(["application", "ransomware-script", "execute"]))
        elif k == "fdel":
            res = bool(self.srv.file_system.delete_file("database", "database.db"))
        elif k in ("fcor", "frep"):
            f = self.db.db_file
            if f is None:
                rej = True
            else:
                res = bool(f.corrupt() if k == "fcor" else f.repair())
        elif k == "pow":
            node = self.srv if op[1] == 0 else self.bk if op[1] == 1 else (self.clients[op[1] - 2] if op[1] - 2 < len(self.clients) else None)
            if node is None:
                rej = True
            elif op[2]:
                node.power_on()
            else:
                node.power_off()
        elif k == "ftps":
            res, rej = self.req(self.bk.apply_request(["service", "ftp-server", "start" if op[1] else "stop"]))
            if rej:
                res = None
        elif k == "blk":
            self.block(op[1], op[2])
        elif k == "tick":
            self.t += 1
            self.net.apply_timestep(self.t)
            self.net.pre_timestep(self.t)
            op[1:] = self.flags("tick")
        else:
            raise ValueError(f"unknown op {op}")
        sts = ",".join(str(s) for s in rec.statuses if s is not None)
        r = "-" if res is None else ("1" if res else "0")
        extra = (f" UNMODELLED-DROP:{rec.small_drops}" if rec.small_drops else "") + rng_note
        return f"res={r} h={o(handle)} st=[{sts}] rej={'R' if raised else (1 if rej else 0)}{extra} | {self.digest()}"


def run_impl(case: dict) -> List[str]:
    """Answers aligned with model_lines(case): 'ok' for reset/new/cfg, then one line per op. An exception out of the
    implementation is reported as a line `raised <Type>` (and ends the trace).  The saturation inputs of backup /
    restore / tick operations are OBSERVED (which link refused the file-transfer frame) and written back into the
    operation, so `model_lines(case)` must be built after this call."""
    rec = Rec()
    out = ["ok", "ok"] + ["ok"] * len(case["clients"])
    with instrumented(rec):
        w = World(case, rec)
        for op in case["ops"]:
            try:
                out.append(w.do(op))
            except Exception as e:  # noqa: BLE001 - any exception out of the implementation is an observable
                out.append(f"raised {type(e).__name__}: {str(e)[:120]}")
                break
            if w.looped:
                break
    return out


def align(impl: List[str], model: List[str]) -> List[str]:
    """The one outcome whose state is not compared: a call that does not return (`| LOOP`, see `World.do` / `step (.co k)`).
    The model's line for that op must be the explicit outcome `rej=R`; the model's lines after it are dropped."""
    for j, a in enumerate(impl):
        if a.endswith("| LOOP") and j < len(model) and model[j].split(" | ")[0] == a.split(" | ")[0]:
            return model[:j] + [a]
    return model


# ------------------------------------------------------------------------------------------ generation
PROFILES = ["mixed", "mixed", "capacity", "damage", "faults", "lifecycle", "red", "saturation", "admin", "restore", "restore", "reinstall"]
FS_ACTS = ["fcorrupt", "frepair", "frestore", "fscan", "fdelete", "fundelete", "fundelete", "focorrupt", "forepair", "fodelete", "fofdelete"]
BASE_W = {"fsr": 3, "connect": 16, "hq": 18, "rq": 7, "rd": 3, "rj": 2, "hd": 6, "nc": 3, "nq": 5, "nd": 2, "ex": 5, "un": 2, "in": 2, "run": 3,
          "close": 2, "cpw": 4, "rs": 3, "rsx": 2, "dm": 4, "dmp": 2, "svc": 10, "spw": 2, "backup": 4, "restore": 6, "fdel": 1, "fcor": 2,
          "frep": 2, "fodel": 1, "bkdel": 1, "adm": 2, "dl": 2, "svcin": 1, "co": 1, "pow": 4, "ftps": 2, "blk": 5, "tick": 12}
PROFILE_W = {
    "mixed": {},
    "capacity": {"connect": 40, "hd": 14, "nd": 4, "svc": 6, "restore": 8, "nc": 6},
    "damage": {"fsr": 10, "hq": 30, "backup": 8, "restore": 12, "fdel": 3, "fcor": 4, "frep": 4, "tick": 14, "svc": 12, "rs": 8},
    "faults": {"pow": 12, "blk": 14, "ftps": 5, "tick": 20, "un": 4, "in": 4, "close": 4, "run": 5},
    "lifecycle": {"svc": 30, "tick": 20, "cpw": 8, "spw": 5},
    "red": {"rs": 12, "rsx": 8, "dm": 20, "dmp": 16, "rq": 10, "rd": 6, "rj": 5, "restore": 10, "tick": 14, "cpw": 6},
    "saturation": {"backup": 22, "restore": 30, "bkdel": 8, "tick": 8, "hq": 12, "svc": 8, "blk": 3, "pow": 2},
    "admin": {"adm": 22, "backup": 10, "restore": 14, "fodel": 4, "bkdel": 5, "fdel": 2, "tick": 14, "pow": 6, "hq": 14, "dl": 5, "co": 3},
    # repeated backup / damage / restore cycles with leftovers in downloads/, the backup path blocked in either direction,
    # the backup host off, its FTP server stopped, the FTP client restarting
    "restore": {"fsr": 14, "backup": 14, "restore": 34, "dl": 12, "hq": 16, "blk": 9, "pow": 5, "ftps": 5, "bkdel": 4, "fcor": 3, "frep": 2,
                "fdel": 2, "fodel": 1, "svc": 9, "tick": 12, "adm": 6, "connect": 8},
    # re-installing the database service / the FTP client at run time, the co-located client
    "reinstall": {"fsr": 6, "svcin": 16, "fdel": 7, "fodel": 4, "adm": 14, "connect": 18, "hq": 14, "rq": 8, "backup": 8, "restore": 10,
                  "tick": 14, "co": 6, "bkdel": 2, "dl": 3},
}
# bandwidth (Mbit) of the two server-side links: the database file is 38.15 Mbit, so 30 never carries it, 40 once per
# tick, 80 twice per tick; None = wide links (saturation impossible)
NARROW = [30, 40, 40, 80, 80, 100]


def gen_setup(rng: Rng) -> dict:
    n = rng.choice([1, 2, 2, 3, 3, 4])
    srv_pw = rng.choice([None, None, None, 1, 2, 0])
    clients = []
    for _ in range(n):
        good = rng.chance(4, 5)
        clients.append({"pw": srv_pw if good else rng.choice([None, 0, 1, 2, 3]),
                        "rs": rng.chance(1, 2), "rs_pw": srv_pw if rng.chance(4, 5) else rng.choice([None, 0, 1, 3]),
                        "dm": rng.chance(1, 2), "dm_pw": srv_pw if rng.chance(4, 5) else rng.choice([None, 0, 1, 3]),
                        "dm_repeat": rng.chance(2, 3)})
    return {"max": rng.choice([1, 2, 2, 3, 3, 4, 100]), "fix": rng.choice([0, 1, 2, 2, 3]), "restart": rng.choice([0, 1, 2, 5]),
            "durs": {"sUp": rng.choice([0, 1, 2]), "sDown": rng.choice([0, 1, 1, 2]), "bUp": rng.choice([0, 1, 2]),
                     "bDown": rng.choice([0, 1, 1, 2]), "cUp": rng.choice([0, 1, 2]), "cDown": rng.choice([0, 1, 1, 2])},
            "srv_pw": srv_pw, "bkcfg": rng.chance(9, 10), "bw": None, "bw_bk": None, "clients": clients, "ops": []}


def next_op(rng: Rng, w: "World", case: dict, W: dict, total: int) -> list:
    """Choose the next operation looking at the live world, so that most operations are meaningful (existing handles,
    issued ids, a power-on after a power-off ...), with a minority of deliberately invalid ones."""
    from primaite.simulator.network.hardware.node_operating_state import NodeOperatingState as NOS
    n = len(case["clients"])
    nh, nid = len(w.rec.handles), len(w.rec.ids)
    sqls = ["SELECT", "SELECT", "DELETE", "ENCRYPT", "INSERT", "PGSTAT", "OTHER"]
    pws = [None, 0, 1, 2, 3]
    # repair bias: something is off / stopped / blocked -> often undo it
    if rng.chance(1, 4):
        fixes = []
        for who, node in [(0, w.srv), (1, w.bk)] + [(2 + k, c) for k, c in enumerate(w.clients)]:
            if node.operating_state == NOS.OFF:
                fixes.append(["pow", who, True])
            elif node.operating_state in (NOS.BOOTING, NOS.SHUTTING_DOWN):
                fixes.append(["tick"])
        st = w.db.operating_state.name
        if w.srv.operating_state == NOS.ON:
            fixes += {"STOPPED": [["svc", "start"]], "PAUSED": [["svc", "resume"]], "DISABLED": [["svc", "enable"]],
                      "RESTARTING": [["tick"]]}.get(st, [])
            if w.db.health_state_actual.name == "FIXING":
                fixes.append(["tick"])
            if w.db.health_state_actual.name in ("OVERWHELMED", "COMPROMISED"):
                fixes += [["restore"], ["svc", "compromise"], ["svc", "fix"]]
            fc = w.srv.software_manager.software.get("ftp-client")
            if fc is not None:
                fixes += {"STOPPED": [["adm", "ftpc", "start"]], "PAUSED": [["adm", "ftpc", "resume"]],
                          "DISABLED": [["adm", "ftpc", "enable"]], "RESTARTING": [["tick"]]}.get(fc.operating_state.name, [])
            else:
                fixes.append(["adm", "ftpcin", False])
            if w.db.backup_server_ip is None:
                fixes.append(["adm", "bkcfg", True])
        for pos in range(2 + 2 * n):
            if w.router.acl.acl[pos] is not None:
                fixes.append(["blk", pos, False])
        for k in range(n):
            dc = w.dc(k)
            if dc is None:
                fixes.append(["in", k])
            elif dc.operating_state.name != "RUNNING":
                fixes.append(["run", k])
        if fixes:
            return rng.choice(fixes)
    x = rng.below(total)
    k = None
    for kk, wt in W.items():
        x -= wt
        if x < 0:
            k = kk
            break
    i = rng.below(n)
    wild = rng.chance(1, 10)  # deliberately out-of-range / stale references
    if k == "connect":
        return ["connect", i]
    if k == "hq":
        act = [j for j, h in enumerate(w.rec.handles) if h.is_active]
        if not act and not wild and rng.chance(3, 4):
            return ["connect", i]
        h = rng.choice(act) if act and not wild else rng.below(nh + 2)
        return ["hq", h, rng.choice(sqls)]
    if k == "rq":
        live = [w.rec.ids.index(c) for c in w.db._connections if c in w.rec.ids]
        if wild or not nid:
            cid = None if rng.chance(1, 2) else rng.below(nid + 3)
        elif live and rng.chance(2, 3):
            cid = rng.choice(live)      # a live id, possibly another client's
        else:
            cid = rng.below(nid)        # possibly closed
        return ["rq", i, cid, rng.choice(sqls)]
    if k == "rd":
        live = [w.rec.ids.index(c) for c in w.db._connections if c in w.rec.ids]
        return ["rd", i, rng.choice(live) if live and not wild else (None if not nid else rng.below(nid + 1))]
    if k == "hd":
        act = [j for j, h in enumerate(w.rec.handles) if h.is_active]
        if not act and not wild and rng.chance(3, 4):
            return ["connect", i]
        return ["hd", rng.choice(act) if act and not wild else rng.below(nh + 2)]
    if k in ("nc", "nd", "ex", "un", "in", "run", "close"):
        return [k, i]
    if k == "nq":
        dc = w.dc(i)
        if dc is not None and dc.native_connection is None and rng.chance(3, 4):
            return ["nc", i]
        return ["nq", i, rng.choice(sqls)]
    if k == "cpw":
        return ["cpw", i, pw_int(w.db.password) if rng.chance(2, 3) else rng.choice(pws)]
    if k in ("rs", "rsx"):
        with_rs = [j for j, c in enumerate(case["clients"]) if c["rs"]]
        return [k, rng.choice(with_rs) if with_rs and not wild else i, rng.choice(["ENCRYPT", "ENCRYPT", "DELETE", "SELECT"])]
    if k == "dm":
        with_dm = [j for j, c in enumerate(case["clients"]) if c.get("dm")]
        return ["dm", rng.choice(with_dm) if with_dm and not wild else i, rng.choice(["DELETE", "DELETE", "ENCRYPT", "SELECT", "OTHER"]),
                rng.chance(3, 4), rng.chance(3, 4), rng.chance(1, 3)]
    if k in ("fodel", "bkdel"):
        return [k]
    if k == "rj":
        return ["rj", i, rng.choice(["notdict", "notype", "unknown"])]
    if k == "fsr":
        return ["fsr", rng.choice(["db", "db", "dl"]), rng.choice(FS_ACTS)]
    if k == "dl":
        return ["dl", "plant", rng.choice(["GOOD", "CORRUPT", "COMPROMISED"])] if rng.chance(1, 4) else ["dl", rng.choice(["del", "cor", "cor", "rep", "fodel"])]
    if k == "svcin":
        # a re-install succeeds only while there is no live database.db: often delete it first
        if w.db.db_file is not None and rng.chance(1, 2):
            return [rng.choice(["fdel", "fdel", "fodel"])]
        absent = w.srv.software_manager.software.get("database-service") is None
        if not absent and rng.chance(1, 6):
            return ["adm", "svcun"]     # a bare install goes through only while the service is uninstalled
        if rng.chance(3, 4 if absent else 16):
            return ["svcin"]
        if rng.chance(1, 2):    # non-default configuration fields
            return ["svcin", rng.choice(pws), rng.chance(3, 4), rng.choice([0, 1, 2, 3]),
                    rng.choice(["GOOD", "GOOD", "COMPROMISED", "FIXING", "FIXING", "OVERWHELMED", "UNUSED"])]
        return ["svcin", rng.choice(pws), rng.chance(3, 4)]
    if k == "co":
        if "database-client" not in w.srv.software_manager.software and not wild:
            return ["adm", "coin"]
        if rng.chance(1, 4):
            return ["adm", "corun"]
        return ["co", rng.below(3)]
    if k == "dmp":
        with_dm = [j for j, c in enumerate(case["clients"]) if c.get("dm")]
        return ["dmp", rng.choice(with_dm) if with_dm and not wild else i, rng.choice(["DELETE", "DELETE", "ENCRYPT", "SELECT"]),
                rng.below(1 << 30), rng.choice([100, 300, 500, 700, 900]), rng.choice([100, 300, 500, 700, 900]), rng.chance(1, 3), False, False]
    if k == "adm":
        x = rng.below(24)
        if x >= 20:
            return ["adm", "ftpcin", rng.chance(1, 2)]
        if x < 9:
            return ["adm", "ftpc", rng.choice(["stop", "start", "stop", "start", "pause", "resume", "disable", "enable", "restart", "restart",
                                               "fix", "fix", "scan", "compromise", "compromise"])]
        if x < 12:
            return ["adm", "bkcfg", rng.chance(1, 2)]
        if x < 15:
            return ["adm", "coin"]
        if x < 17:
            return ["adm", "coun"]
        if x < 18:
            return ["adm", "corun"]
        return ["adm", rng.choice(["ftpcun", "svcun"])]
    if k == "svc":
        return ["svc", rng.choice(SVC_REQS + ["fix", "start", "stop", "compromise"])]
    if k == "spw":
        return ["spw", rng.choice(pws)]
    if k in ("backup", "restore", "fdel", "fcor", "frep", "tick"):
        return [k]
    if k == "pow":
        return ["pow", rng.choice([0, 0, 1, 2 + i]), rng.chance(1, 3)]
    if k == "ftps":
        return ["ftps", w.bk.software_manager.software["ftp-server"].operating_state.name != "RUNNING" or wild]
    if k == "blk":
        return ["blk", rng.choice([0, 1, 2 + 2 * i, 3 + 2 * i]), rng.chance(2, 3)]
    raise AssertionError(k)


def pw_int(p: Optional[str]) -> Optional[int]:
    return None if p is None else (0 if p == "" else int(p[2:]))


def gen_and_run(rng: Rng, max_ops: int = 40):
    """Generate a case op by op against the live implementation. Returns (case, impl answers)."""
    case = gen_setup(rng)
    if rng.chance(1, 4):
        case["colisten"] = rng.choice(COLISTENERS)
    profile = rng.choice(PROFILES)
    W = dict(BASE_W)
    W.update(PROFILE_W[profile])
    total = sum(W.values())
    case["profile"] = profile
    if profile == "saturation" or (profile in ("damage", "admin") and rng.chance(1, 4)):
        # either link may be the narrow one: a frame refused by the sender's own link is known to the sender, one refused
        # further down is not
        case["bw"], case["bw_bk"] = rng.choice([(rng.choice(NARROW), rng.choice(NARROW)), (rng.choice(NARROW), None),
                                                (None, rng.choice(NARROW))])
    rec = Rec()
    out = ["ok", "ok"] + ["ok"] * len(case["clients"])
    with instrumented(rec):
        w = World(case, rec)
        for _ in range(rng.range(6, max_ops)):
            op = next_op(rng, w, case, W, total)
            case["ops"].append(op)
            try:
                out.append(w.do(op))
            except Exception as e:  # noqa: BLE001
                out.append(f"raised {type(e).__name__}: {str(e)[:120]}")
                break
            if w.looped:
                break
    return case, out


class _Script:
    """Run a directed script against the live implementation (same World / same ops as the generated traces)."""

    def __init__(self, rng: Rng, profile: str, tweak=None):
        self.case = gen_setup(rng)
        self.case["profile"] = profile
        if tweak:
            tweak(self.case)
        self.rec = Rec()
        self.out = ["ok", "ok"] + ["ok"] * len(self.case["clients"])
        self.dead = False

    def emit(self, w: "World", op: list):
        if self.dead:
            return
        self.case["ops"].append(op)
        try:
            self.out.append(w.do(op))
        except Exception as e:  # noqa: BLE001
            self.out.append(f"raised {type(e).__name__}: {str(e)[:120]}")
            self.dead = True
        if w.looped:
            self.dead = True


def gen_boundary_and_run(rng: Rng):
    """`max_sessions` boundary: fill the table exactly, then one too many / a freed slot / a stopped-then-started or restarted
    or power-cycled service / an uninstalled client / foreign disconnects / recovery from OVERWHELMED, in random order."""
    def tweak(case):
        case["max"] = rng.choice([1, 2, 2, 3, 3, 4])
        for c in case["clients"]:
            if rng.chance(5, 6):
                c["pw"] = case["srv_pw"]
    sc = _Script(rng, "boundary", tweak)
    case = sc.case
    n, m = len(case["clients"]), case["max"]
    with instrumented(sc.rec):
        w = World(case, sc.rec)
        e = lambda op: sc.emit(w, op)   # noqa: E731
        if rng.chance(1, 2):
            e(["tick"])                  # the automatic backup at timestep 1 (needed to recover from OVERWHELMED by a restore)
        for _ in range(m):
            e(["connect", rng.below(n)])
        segs = rng.shuffle(["over", "free", "free", "stopstart", "restart", "power", "recover", "uninstall", "native", "foreign", "below"])
        for seg in segs[:rng.range(3, 6)]:
            i = rng.below(n)
            act = [j for j, h in enumerate(sc.rec.handles) if h.is_active]
            if seg == "over":
                e(["connect", i])
                e(["hq", rng.choice(act), "SELECT"] if act else ["connect", i])
            elif seg == "free":
                if act:
                    e(["hd", rng.choice(act)] if rng.chance(2, 3) else ["hq", rng.choice(act), "SELECT"])
                e(["connect", i])
                e(["connect", rng.below(n)])
            elif seg == "stopstart":
                e(["svc", rng.choice(["stop", "pause"])])
                e(["connect", i])
                e(["svc", "start"])
                e(["svc", "resume"])
                e(["connect", i])
            elif seg == "restart":
                e(["svc", "restart"])
                for _ in range(case["restart"] + 1):
                    e(["connect", i] if rng.chance(1, 3) else ["tick"])
                e(["tick"])
                e(["connect", i])
            elif seg == "power":
                e(["pow", 0, False])
                for _ in range(case["durs"]["sDown"] + 1):
                    e(["tick"])
                e(["connect", i])
                e(["pow", 0, True])
                for _ in range(case["durs"]["sUp"] + 1):
                    e(["tick"])
                e(["connect", i])
            elif seg == "recover":
                if rng.chance(1, 2):
                    e(["restore"])
                else:
                    e(["svc", "compromise"])
                    e(["svc", "fix"])
                    for _ in range(case["fix"] + 1):
                        e(["tick"])
                e(["connect", i])
            elif seg == "uninstall":
                e(["un", i])
                e(["connect", rng.below(n)])
                e(["in", i])
                e(["cpw", i, case["srv_pw"]])
                e(["run", i])
                e(["connect", i])
            elif seg == "native":
                e(["nc", i])
                e(["nq", i, "SELECT"])
                e(["nd", i])
                e(["connect", i])
            elif seg == "foreign":
                live = [w.rec.ids.index(c) for c in w.db._connections if c in w.rec.ids]
                if live:
                    e(["rd", i, rng.choice(live)])
                e(["connect", rng.below(n)])
            elif seg == "below":
                if len(act) >= 1:
                    e(["hd", act[0]])
                if len(act) >= 2:
                    e(["hd", act[1]])
                e(["connect", i])
    return case, sc.out


def gen_cycles_and_run(rng: Rng):
    """Repeated backup / damage / restore cycles: a leftover under downloads/ (kept, corrupted, planted, deleted), a fault on
    the way to the backup (request or answer direction blocked, backup host off, its FTP server stopped, the FTP client on the
    database host stopped / restarting / uninstalled), restore (directly or by a completing fix), the fault undone, restore."""
    def tweak(case):
        case["bkcfg"] = True
        case["max"] = max(case["max"], 2)
        case["clients"][0]["pw"] = case["srv_pw"]
    sc = _Script(rng, "cycles", tweak)
    case = sc.case
    with instrumented(sc.rec):
        w = World(case, sc.rec)
        e = lambda op: sc.emit(w, op)   # noqa: E731
        if rng.chance(1, 3):
            e(["fcor"])   # a backup of data that is already damaged restores to damaged data
        e(["tick"] if rng.chance(1, 2) else ["backup"])
        if rng.chance(1, 4):
            e(["frep"])
        e(["connect", 0])
        for _ in range(rng.range(2, 4)):
            act = [j for j, h in enumerate(sc.rec.handles) if h.is_active]
            dmg = rng.choice(["DELETE", "DELETE", "ENCRYPT", "fcor", "fdel", "fodel"])
            if dmg in ("DELETE", "ENCRYPT"):
                e(["hq", rng.choice(act), dmg] if act else ["connect", 0])
            else:
                e([dmg])
            lo = rng.choice(["keep", "keep", "cor", "plant", "del", "fodel"])
            if lo == "plant":
                e(["dl", "plant", rng.choice(["GOOD", "CORRUPT", "COMPROMISED"])])
            elif lo != "keep":
                e(["dl", lo])
            fault = rng.choice(["none", "none", "blk0", "blk1", "bkoff", "ftps", "ftpcstop", "ftpcrestart", "ftpcun", "bkdel"])
            undo = []
            if fault == "blk0":
                e(["blk", 0, True]); undo = [["blk", 0, False]]
            elif fault == "blk1":
                e(["blk", 1, True]); undo = [["blk", 1, False]]
            elif fault == "bkoff":
                e(["pow", 1, False])
                for _ in range(case["durs"]["bDown"] + rng.below(2)):
                    e(["tick"])
                undo = [["pow", 1, True]] + [["tick"]] * (case["durs"]["bUp"] + 1)
            elif fault == "ftps":
                e(["ftps", False]); undo = [["ftps", True]]
            elif fault == "ftpcstop":
                e(["adm", "ftpc", rng.choice(["stop", "pause", "disable"])])
                undo = [["adm", "ftpc", "enable"], ["adm", "ftpc", "start"], ["adm", "ftpc", "resume"]]
            elif fault == "ftpcrestart":
                e(["adm", "ftpc", "restart"]); undo = [["tick"]] * 6
            elif fault == "ftpcun":
                e(["adm", "ftpcun"]); undo = [["adm", "ftpcin", rng.chance(1, 2)]]
            elif fault == "bkdel":
                e(["bkdel"]); undo = [["backup"]]
            if rng.chance(2, 3):
                e(["restore"])
            else:
                e(["svc", "fix"])
                for _ in range(case["fix"] + 1):
                    e(["tick"])
            if act:
                e(["hq", rng.choice(act), "SELECT"])
            for op in undo:
                e(list(op))
            e(["restore"])
            if act:
                e(["hq", rng.choice(act), "SELECT"])
    return case, sc.out


FIXRACE_HALTS = ["stop", "pause", "disable", "restart", "poweroff", "ftpcstop", "none"]
# every (halt, j, c) with c in 0..3 and j <= c: 7 x 10 = 70 combinations - small enough to ENUMERATE (round 7)
FIXRACE_ALL = [(h, j, c) for h in FIXRACE_HALTS for c in range(4) for j in range(c + 1)]


def gen_fixrace_and_run(rng: Rng, force=None):
    """A FIXING countdown racing a lifecycle change: damage, `fix` (countdown c), after j <= c ticks the service is stopped /
    paused / disabled / restarted / its node powered off / (control) the FTP client stopped / nothing; ticks through the end of
    the countdown (a completing fix calls restore_backup()), a direct restore while halted, the halt undone, restore again.
    Every lifecycle state x countdown offset is drawn over the runs (histogram `fixrace:`)."""
    def tweak(case):
        case["bkcfg"] = True
        case["fix"] = force[2] if force else rng.choice([0, 1, 2, 3, 3])
        case["restart"] = rng.choice([0, 1, 2])
        case["clients"][0]["pw"] = case["srv_pw"]
    sc = _Script(rng, "fixrace", tweak)
    case = sc.case
    with instrumented(sc.rec):
        w = World(case, sc.rec)
        e = lambda op: sc.emit(w, op)   # noqa: E731
        e(["tick"] if rng.chance(1, 2) else ["backup"])
        e(["connect", 0])
        for rnd in range(rng.range(1, 3)):
            act = [j for j, h in enumerate(sc.rec.handles) if h.is_active]
            e(["hq", rng.choice(act), rng.choice(["DELETE", "DELETE", "ENCRYPT"])] if act else ["fcor"])
            if rng.chance(1, 3):
                e(["svc", "compromise"])
            e(["svc", "fix"])
            j = force[1] if force and rnd == 0 else rng.below(case["fix"] + 1)
            for _ in range(j):
                e(["tick"])
            halt = force[0] if force and rnd == 0 else rng.choice(FIXRACE_HALTS + ["stop", "pause"])
            case.setdefault("fixrace", []).append([halt, j, case["fix"]])
            undo = []
            if halt in ("stop", "pause", "disable", "restart"):
                e(["svc", halt])
                undo = {"stop": [["svc", "start"]], "pause": [["svc", "resume"]], "disable": [["svc", "enable"], ["svc", "start"]],
                        "restart": [["tick"]] * (case["restart"] + 1)}[halt]
            elif halt == "poweroff":
                e(["pow", 0, False])
                undo = [["tick"]] * case["durs"]["sDown"] + [["pow", 0, True]] + [["tick"]] * (case["durs"]["sUp"] + 1)
            elif halt == "ftpcstop":
                e(["adm", "ftpc", "stop"])
                undo = [["adm", "ftpc", "start"]]
            for _ in range(case["fix"] - j + 1 + rng.below(2)):
                e(["tick"])
                if act and rng.chance(1, 3):
                    e(["hq", rng.choice(act), "SELECT"])
            e(["restore"])
            for op in undo:
                e(list(op))
            if act:
                e(["hq", rng.choice(act), "SELECT"])
            e(["restore"])
            if act:
                e(["hq", rng.choice(act), "SELECT"])
    return case, sc.out


def gen_countdowns_and_run(rng: Rng, c: int, r: int):
    """ENUMERATED (round 7): the two countdowns of the database service for every pair (fixing_duration c, restart_duration r) in
    0..3 x 0..3, one tick at a time with the digest (which shows RESTARTING(n) / FIXING(n)) compared after every tick: `fix` from
    GOOD and from COMPROMISED (and refused while FIXING), through the end and two ticks beyond; `restart` from RUNNING (refused by
    the validator while PAUSED / RESTARTING), through the end and two beyond; then both at once; the same for the FTP client."""
    def tweak(case):
        case["bkcfg"] = True
        case["fix"], case["restart"] = c, r
        case["clients"][0]["pw"] = case["srv_pw"]
    sc = _Script(rng, "countdowns", tweak)
    with instrumented(sc.rec):
        w = World(sc.case, sc.rec)
        e = lambda op: sc.emit(w, op)   # noqa: E731
        e(["tick"])                      # timestep 1: the automatic backup
        e(["connect", 0])
        for first in rng.shuffle(["good", "compromised"]):
            if first == "compromised":
                e(["hq", 0, "DELETE"])
                e(["svc", "compromise"])
            e(["svc", "fix"])
            e(["svc", "fix"])            # refused while FIXING
            for _ in range(c + 2):
                e(["tick"])
                e(["hq", 0, "SELECT"])
        e(["svc", "pause"])
        e(["svc", "restart"])            # validator: RUNNING only
        e(["svc", "resume"])
        e(["svc", "restart"])
        e(["svc", "restart"])            # refused while RESTARTING
        for _ in range(r + 3):
            e(["tick"])
            e(["connect", 0])
        e(["hq", 0, "ENCRYPT"])
        e(["svc", "fix"])
        e(["svc", "restart"])            # both countdowns at once: the fix step runs first, the restore needs a RUNNING service
        for _ in range(max(c, r) + 3):
            e(["tick"])
        e(["hq", 0, "SELECT"])
        e(["adm", "ftpc", "fix"])
        e(["adm", "ftpc", "restart"])
        for _ in range(7):
            e(["tick"])
        e(["restore"])
    return sc.case, sc.out


SQLGRID_ALL = [(f, h, q) for f in ("GOOD", "COMPROMISED", "CORRUPT", "absent") for h in ("GOOD", "COMPROMISED", "FIXING")
               for q in ("SELECT", "DELETE", "ENCRYPT", "INSERT", "PGSTAT", "OTHER")]
PWGRID_ALL = [(sp, cp) for sp in (None, 0, 1, 2) for cp in (None, 0, 1, 2)]


def gen_sqlgrid_and_run(rng: Rng, fhealth: str, health: str, q: str):
    """ENUMERATED (round 7): `_process_sql` on the full grid file state (GOOD / COMPROMISED / CORRUPT / no live file) x service
    health (GOOD / COMPROMISED / FIXING) x query (the five known ones and an unknown one): 72 cells, each asked over a live
    connection, over a never-issued id, over a closed id, and followed by a SELECT."""
    def tweak(case):
        case["bkcfg"] = True
        case["fix"] = 3
        case["max"] = max(case["max"], 3)
        case["clients"][0]["pw"] = case["srv_pw"]
    sc = _Script(rng, "sqlgrid", tweak)
    with instrumented(sc.rec):
        w = World(sc.case, sc.rec)
        e = lambda op: sc.emit(w, op)   # noqa: E731
        e(["connect", 0])
        e(["connect", 0])
        e(["hd", 1])
        if fhealth == "COMPROMISED":
            e(["hq", 0, "DELETE"])
        elif fhealth == "CORRUPT":
            e(["fcor"] if rng.chance(1, 2) else ["hq", 0, "ENCRYPT"])
        elif fhealth == "absent":
            e(["fdel"])
        if health == "COMPROMISED":
            e(["svc", "compromise"])
        elif health == "FIXING":
            e(["svc", "fix"])
        e(["hq", 0, q])
        e(["rq", 0, 7, q])      # never issued
        e(["rq", 0, 1, q])      # closed
        e(["rq", 0, None, q])   # no id at all
        e(["hq", 0, "SELECT"])
    return sc.case, sc.out


COLISTENERS = ["ntp-client", "web-browser", "dns-client", "terminal"]
COLISTEN_HALTS = ["stop", "pause", "restart", "disable"]
COLISTEN_QUERIES = ["SELECT", "INSERT", "DELETE", "ENCRYPT", "PGSTAT", "OTHER"]
COLISTEN_ALL = [(l, h, q) for l in COLISTENERS for h in COLISTEN_HALTS for q in COLISTEN_QUERIES]


def gen_colisten_and_run(rng: Rng, listener: str, halt: str, q: str):
    """ENUMERATED (second shift): another running software of the database host listens on port 5432 (4 shipped classes) x the service
    is stopped / paused / restarting / disabled x the six queries: a connection is opened and KEPT, the service halted, then the query
    over the kept handle, over the raw kept id, a SELECT, a new connect, a disconnect of the kept id, the ransomware script / native
    query of the host; then the service is brought back and the kept connection is used again.  96 cells."""
    def tweak(case):
        case["colisten"] = listener
        case["max"] = max(case["max"], 3)
        case["restart"] = 2
        case["clients"][0]["pw"] = case["srv_pw"]
        case["durs"]["sUp"] = case["durs"]["sDown"] = 1
    sc = _Script(rng, "colisten", tweak)
    with instrumented(sc.rec):
        w = World(sc.case, sc.rec)
        e = lambda op: sc.emit(w, op)   # noqa: E731
        e(["connect", 0])
        e(["hq", 0, "SELECT"])
        e(["connect", 0])
        e(["svc", halt])
        e(["hq", 0, q])
        e(["rq", 0, 0, q])
        e(["hq", 0, "SELECT"])
        e(["connect", 0])
        e(["hd", 1])
        e(["rq", 0, 7, q])
        if rng.chance(1, 2):
            e(["tick"])
            e(["hq", 0, q])
        back = {"stop": [["svc", "start"]], "pause": [["svc", "resume"]], "restart": [["tick"], ["tick"], ["tick"]],
                "disable": [["svc", "enable"], ["svc", "start"]]}[halt]
        for op in back:
            e(op)
        e(["hq", 0, "SELECT"])
        e(["hq", 0, q])
        e(["connect", 0])
    return sc.case, sc.out


def gen_pwgrid_and_run(rng: Rng, spw, cpw):
    """ENUMERATED (round 7): server password x client password over {None, "", two distinct strings}: 16 cells; connect, then the
    other red / native paths with the same pair, then wrong-then-right and right-then-changed-on-the-server."""
    def tweak(case):
        case["srv_pw"] = spw
        case["max"] = 100
        for c in case["clients"]:
            c["pw"] = cpw
    sc = _Script(rng, "pwgrid", tweak)
    with instrumented(sc.rec):
        w = World(sc.case, sc.rec)
        e = lambda op: sc.emit(w, op)   # noqa: E731
        e(["connect", 0])
        e(["nc", 0])
        e(["ex", 0])
        e(["cpw", 0, spw])
        e(["connect", 0])
        for other in (None, 0, 1, 2):
            e(["spw", other])
            e(["connect", 0])
            e(["hq", 0, "SELECT"])
        e(["spw", spw])
        e(["cpw", 0, cpw])
        e(["connect", 0])
    return sc.case, sc.out


def gen_backups_and_run(rng: Rng):
    """Repeated backups taken in different health: (damage | repair)* backup, change the health, backup again (refused while a
    copy exists), sometimes delete the copy on the backup host / take the timestep-1 backup by a tick, then damage and restore:
    what comes back must be the health of the backup that was STORED."""
    def tweak(case):
        case["bkcfg"] = True
        case["clients"][0]["pw"] = case["srv_pw"]
    sc = _Script(rng, "backups", tweak)
    with instrumented(sc.rec):
        w = World(sc.case, sc.rec)
        e = lambda op: sc.emit(w, op)   # noqa: E731
        e(["connect", 0])
        for _ in range(rng.range(2, 5)):
            act = [j for j, h in enumerate(sc.rec.handles) if h.is_active]
            ch = rng.choice(["fcor", "frep", "DELETE", "ENCRYPT", "none", "frep"])
            if ch in ("DELETE", "ENCRYPT"):
                e(["hq", rng.choice(act), ch] if act else ["fcor"])
            elif ch != "none":
                e([ch])
            e(["tick"] if rng.chance(1, 3) else ["backup"])
            if rng.chance(1, 4):
                e(["bkdel"])
            if rng.chance(1, 3):
                e(["tick"])
        act = [j for j, h in enumerate(sc.rec.handles) if h.is_active]
        e(["hq", rng.choice(act), rng.choice(["DELETE", "ENCRYPT"])] if act else ["fcor"])
        e(["restore"])
        if act:
            e(["hq", rng.choice(act), "SELECT"])
        e(["backup"])
    return sc.case, sc.out


def nontrivial(model: List[str]) -> bool:
    """A trace is non-trivial when it exercised something beyond plain successful connects/queries."""
    joined = "\n".join(model)
    return any(t in joined for t in ("st=[401", "st=[500", "st=[503", "st=[404", "COMPROMISED", "CORRUPT", "OVERWHELMED", "rej=1",
                                     "OFF", "STOPPED", "absent", "port=0", "ftpc=-", "PAUSED", "DISABLED"))
