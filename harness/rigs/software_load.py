"""C13 rig family R-load: the glue between CONFIGURATION and the lifecycle FSM.

A case is a generated scenario dict (one host with a `services:` / `applications:` list and per-service options, a top-level
`defaults:` section in which every duration key takes a value from a boundary pool — absent, 0, 1, 2, the class default, 7,
negative, quoted integers, YAML booleans, and a malformed stream) plus an operation sequence.  The REAL objects are built THROUGH
`PrimaiteGame.from_config`; then
  * the attributes the loader's defaults block wrote on every listed service are compared with the proved specification
    `C13Loader.specService` evaluated by the Lean driver (line `loadall`), and with an independent statement of the property
    ("configured = effective") as an oracle on the implementation;
  * the loaded node is described to the lifecycle / registry model (one install line per program in `software` order, the
    loader's `start()` / `run()`, and `setdur` with the CONFIGURED durations), and requests (through the simulation's request
    tree), whole-game steps, run-time application installs and power events are diffed against it operation by operation.
Every random choice from the seeded `Rng`."""
from __future__ import annotations

import copy
from typing import Any, Dict, List, Optional, Tuple

from harness.lib.core import Rng
from harness.rigs import software as base

IO = {"save_agent_actions": False, "save_step_metadata": False, "save_pcap_logs": False, "save_sys_logs": False,
      "save_agent_logs": False, "write_sys_log_to_terminal": False, "write_agent_log_to_terminal": False}
HOST = "host0"
RESTART_DEFAULT = 5       # class default; tied to Gen.Software.restartDuration by C13_gen_loader_class_defaults
FIX_DEFAULT = 2
SVC_TYPES = ["dns-server", "dns-client", "ftp-server", "ftp-client", "ntp-server", "ntp-client", "web-server", "terminal", "icmp"]
APP_TYPES = ["web-browser", "database-client", "dos-bot", "data-manipulation-bot", "ransomware-script", "nmap", "c2-beacon", "c2-server"]
# boundary pool of a configured duration ("A" = key absent)
POOL = ["A", 0, 1, 2, RESTART_DEFAULT, 7, -1, "0", "3", True]
MALFORMED = [None, "abc", ""]
KEYS = ["service_restart_duration", "service_install_duration", "service_fix_duration"]


# ------------------------------------------------------------------------------------------------------------ wire
def show_val(v: Any) -> str:
    if v is None:
        return "n"
    if isinstance(v, bool):
        return "b:1" if v else "b:0"
    if isinstance(v, int):
        return f"i:{v}"
    if isinstance(v, str):
        if any(c in v for c in " ;=|") or v == "":
            return "s:" if v == "" else "s:?"
        return "s:" + v
    return "?:" + type(v).__name__


def show_dict(d: Dict[str, Any]) -> str:
    return ";".join(f"{k}={show_val(v)}" for k, v in d.items()) or "-"


def configured(defaults: Dict[str, Any], key: str, old: Any):
    """the property's own reading of the configuration: a present key is the configured value, as an integer"""
    if key in defaults:
        return int(defaults[key])
    return old


# ------------------------------------------------------------------------------------------------------------ generation
def _pick(rng: Rng, malformed_ok: bool):
    if malformed_ok and rng.chance(1, 12):
        return rng.choice(MALFORMED)
    return rng.choice(POOL)


def _sample(rng: Rng, xs: List[str], k: int) -> List[str]:
    return rng.shuffle(list(xs))[:k]


def gen_load_case(rng: Rng, max_ops: int = 24, multi: bool = False) -> dict:
    defaults: Dict[str, Any] = {}
    malformed_ok = rng.chance(1, 5)
    for k in KEYS:
        v = _pick(rng, malformed_ok)
        if v != "A":
            defaults[k] = v
    for k in ("node_start_up_duration", "node_shut_down_duration"):
        if rng.chance(1, 3):
            defaults[k] = rng.choice([0, 1, 2])
    section = "present" if (defaults or rng.chance(1, 2)) else "absent"
    svcs = []
    for t in _sample(rng, SVC_TYPES, rng.range(1, 3)):
        e: Dict[str, Any] = {"type": t}
        if rng.chance(1, 2):
            e["options"] = {}
            if rng.chance(1, 2):
                e["options"]["fixing_duration"] = rng.choice([0, 1, 2, 3])
        svcs.append(e)
    apps = [{"type": t} for t in _sample(rng, APP_TYPES, rng.range(0, 2))]
    node = {"kind": rng.choice(["computer", "server"]), "services": svcs, "applications": apps}
    if rng.chance(1, 3):
        node["up"] = rng.choice([0, 1, 2])
        node["down"] = rng.choice([0, 1, 2])
    names = [e["type"] for e in svcs] + ["ntp-client", "dns-client", "ftp-client", "terminal"]
    ops: List[dict] = []
    n = rng.range(4, max_ops)
    while len(ops) < n:
        k = rng.below(100)
        if k < 30:     # the timed transition, then ticks around its configured length
            nm = rng.choice(names[:len(svcs)]) if rng.chance(4, 5) else rng.choice(names)
            ops.append({"op": "sreq", "name": nm, "r": "restart"})
            for _ in range(rng.range(0, 3)):
                ops.append({"op": "tick"})
        elif k < 55:
            ops.append({"op": "tick"})
        elif k < 75:
            ops.append({"op": "sreq", "name": rng.choice(names), "r": rng.choice(base.SVC_REQS)})
        elif k < 85:   # node-level install at run time, through the request
            ops.append({"op": "rinst", "name": rng.choice(APP_TYPES)})
        elif k < 92:
            ops.append({"op": "areq", "name": rng.choice(APP_TYPES), "r": rng.choice(["close", "scan", "fix"])})
        elif k < 96:
            ops.append({"op": "runinst", "name": rng.choice(APP_TYPES)})
        else:
            ops.append({"op": rng.choice(["rshut", "rstart"])})
    case = {"defaults": defaults, "section": section, "node": node, "ops": ops[:n], "focus": "load-random"}
    if multi:
        _add_peers(rng, case)
    return case


PEER_SVC = ["database-service", "dns-server", "ftp-server", "ntp-server", "web-server", "ntp-client"]


def _add_peers(rng: Rng, case: dict):
    """1-2 further hosts, a switch and links; a server among them lists `database-service` (most of the time), another host may
    list a `database-client` pointing at it; a share of the operations is redirected to the peers"""
    peers = []
    for i in range(rng.range(1, 2)):
        kind = "server" if i == 0 else rng.choice(["computer", "server"])
        types = _sample(rng, PEER_SVC[1:], rng.range(0, 2))
        if i == 0 and rng.chance(3, 4):
            types = ["database-service"] + types
        svcs = []
        for t in types:
            e: Dict[str, Any] = {"type": t}
            if t != "database-service" and rng.chance(1, 3):
                e["options"] = {"fixing_duration": rng.choice([0, 1, 3])}
            svcs.append(e)
        apps = []
        if i == 1 and rng.chance(1, 2):
            apps.append({"type": "database-client", "options": {"db_server_ip": "192.168.1.3"}})
        elif rng.chance(1, 3):
            apps.append({"type": rng.choice(["web-browser", "nmap", "dos-bot"])})
        peers.append({"hostname": f"peer{i + 1}", "kind": kind, "services": svcs, "applications": apps})
    case["peers"] = peers
    case["focus"] = "load-multi"
    hosts = [HOST] + [p_["hostname"] for p_ in peers]
    for op in case["ops"]:
        if op["op"] != "tick" and rng.chance(2, 5):
            h = rng.choice(hosts[1:])
            nd = next(p_ for p_ in peers if p_["hostname"] == h)
            if op["op"] == "sreq":
                names = [e["type"] for e in nd["services"]] + ["ntp-client", "dns-client", "ftp-client"]
                op["name"] = rng.choice(names)
            op["host"] = h


def enum_load_cases() -> List[dict]:
    """ENUMERATED: every pool value of `service_restart_duration` (and, rotating, of the other two keys) × a timed restart of a
    listed service followed by enough whole-game steps to see it complete, with a refused request and an unrelated call in
    between; plus a run-time application install (class default) in the same scenario"""
    out = []
    for i, v in enumerate(POOL):
        for j, t in enumerate(["dns-server", "ntp-client", "web-server"]):
            defaults: Dict[str, Any] = {}
            if v != "A":
                defaults["service_restart_duration"] = v
            w = POOL[(i + j + 1) % len(POOL)]
            if w != "A":
                defaults[KEYS[1 + (i + j) % 2]] = w
            d = 0 if v == "A" else int(v)
            e: Dict[str, Any] = {"type": t}
            if j == 1:
                e["options"] = {"fixing_duration": 1}
            svcs = [e] + ([{"type": "ftp-server"}] if j == 2 else [])
            ops = [{"op": "sreq", "name": t, "r": "restart"}, {"op": "tick"}, {"op": "sreq", "name": t, "r": "pause"}] + \
                  [{"op": "tick"}] * (max(d, 0) + 1 if v != "A" else RESTART_DEFAULT + 1) + \
                  [{"op": "rinst", "name": "dos-bot"}, {"op": "tick"}, {"op": "tick"}, {"op": "sreq", "name": t, "r": "restart"}, {"op": "tick"}]
            out.append({"defaults": defaults, "section": "present" if defaults or j else "absent",
                        "node": {"kind": "computer" if j != 1 else "server", "services": svcs,
                                 "applications": [{"type": "web-browser"}] if j == 0 else []},
                        "ops": ops, "focus": "load-enum"})
    # no `defaults:` section at all: the class default, 5 ticks RESTARTING, RUNNING at the 6th
    out.append({"defaults": {}, "section": "absent",
                "node": {"kind": "computer", "services": [{"type": "dns-server"}, {"type": "ntp-server", "options": {}}], "applications": []},
                "ops": [{"op": "sreq", "name": "dns-server", "r": "restart"}] + [{"op": "tick"}] * (RESTART_DEFAULT + 1) +
                       [{"op": "sreq", "name": "ntp-server", "r": "restart"}, {"op": "tick"}], "focus": "load-enum"})
    # several hosts on a switch, `database-service` listed on a server, a database client on another host: every pool value of the
    # restart duration reaches every listed service of EVERY host
    for i, v in enumerate(POOL):
        defaults = {} if v == "A" else {"service_restart_duration": v}
        d = RESTART_DEFAULT if v == "A" else max(int(v), 0)
        ops = [{"op": "sreq", "name": "database-service", "r": "restart", "host": "peer1"}, {"op": "sreq", "name": "dns-server", "r": "restart"},
               {"op": "tick"}, {"op": "sreq", "name": "database-service", "r": "pause", "host": "peer1"}] + [{"op": "tick"}] * (d + 1) + \
              [{"op": "rinst", "name": "dos-bot", "host": "peer2"}, {"op": "tick"}, {"op": "sreq", "name": "ftp-server", "r": "restart", "host": "peer2"},
               {"op": "tick"}]
        out.append({"defaults": defaults, "section": "present" if defaults or i % 2 else "absent",
                    "node": {"kind": "computer", "services": [{"type": "dns-server"}], "applications": []},
                    "peers": [{"hostname": "peer1", "kind": "server", "services": [{"type": "database-service"}, {"type": "web-server"}], "applications": []},
                              {"hostname": "peer2", "kind": "computer", "services": [{"type": "ftp-server", "options": {"fixing_duration": 1}}],
                               "applications": [{"type": "database-client", "options": {"db_server_ip": "192.168.1.3"}}]}],
                    "ops": ops, "focus": "load-multi-enum"})
    for bad in MALFORMED:   # a value the loader cannot convert: the load raises (and the specification says so)
        out.append({"defaults": {"service_restart_duration": bad}, "section": "present",
                    "node": {"kind": "computer", "services": [{"type": "dns-server"}], "applications": []}, "ops": [], "focus": "load-enum"})
    return out


def build_cfg(case: dict) -> dict:
    nd = case["node"]
    node = {"hostname": HOST, "type": nd["kind"], "ip_address": "192.168.1.2", "subnet_mask": "255.255.255.0",
            "services": copy.deepcopy(nd["services"]), "applications": copy.deepcopy(nd["applications"])}
    if "up" in nd:
        node["start_up_duration"] = nd["up"]
        node["shut_down_duration"] = nd["down"]
    nodes, links = [node], []
    if case.get("peers"):
        for i, p_ in enumerate(case["peers"]):
            nodes.append({"hostname": p_["hostname"], "type": p_["kind"], "ip_address": f"192.168.1.{3 + i}", "subnet_mask": "255.255.255.0",
                          "services": copy.deepcopy(p_["services"]), "applications": copy.deepcopy(p_["applications"])})
        nodes.append({"hostname": "sw0", "type": "switch", "num_ports": 4})
        for i, h in enumerate([HOST] + [p_["hostname"] for p_ in case["peers"]]):
            links.append({"endpoint_a_hostname": "sw0", "endpoint_a_port": i + 1, "endpoint_b_hostname": h, "endpoint_b_port": 1})
    cfg = {"io_settings": dict(IO), "game": {"max_episode_length": 256, "ports": [], "protocols": []}, "agents": [],
           "simulation": {"network": {"nodes": nodes, "links": links}}}
    if case.get("section", "present") == "present":
        cfg["defaults"] = copy.deepcopy(case["defaults"])
    return cfg


# ------------------------------------------------------------------------------------------------------------ implementation
class LoadedImpl(base.Impl):
    """the bookkeeping of `software.Impl` around a node that `PrimaiteGame.from_config` built"""

    def __init__(self, game, node, case: dict, guards: Dict[str, bool], nd: Optional[dict] = None, hostname: str = HOST):  # noqa  (no Impl.__init__)
        from primaite.simulator.system.applications.application import Application
        nd = nd or case["node"]
        self.hostname = hostname
        self.game = game
        self.kind = nd["kind"]
        self.node = node
        self.is_host = True
        self.sm = node.software_manager
        self.guards = guards
        self.objs = []
        self.t = 0
        self.recv_log = []
        self.dup_install = False
        self.skipped_installs = self.refused_installs = self.replaced_installs = 0
        self.payload_hits = []
        defaults = case["defaults"] if case.get("section", "present") == "present" else {}
        listed = {e["type"]: e for e in nd["services"]}
        listed_apps = {e["type"] for e in nd["applications"]}
        # the loader builds the node with both power durations 0, installs, then `power_on()` (start-up actions), then writes the durations
        self.model_init = ["node ON 0 0"]
        self.init_impl: List[Optional[str]] = ["ok"]
        post: List[str] = []
        # order of description = order of `software`, except that services / applications come in the order of `node.services` /
        # `node.applications`: `DatabaseService.install()` installs an FTP client INSIDE its own installation (nested install: the
        # client enters `software` first, the database service enters `node.services` first).  The model has no nested install; the
        # rig describes the two as consecutive installs in `node.services` order (what ticks and power events follow); the dump
        # lists `software` sorted by name, so the one order the model cannot reproduce here is not compared (noted as a gap).
        from primaite.simulator.system.services.service import Service
        s_it, a_it = iter(list(node.services.values())), iter(list(node.applications.values()))
        ordered = []
        for obj in self.sm.software.values():
            ordered.append(next(s_it, obj) if isinstance(obj, Service) else (next(a_it, obj) if isinstance(obj, Application) else obj))
        if sorted(map(id, ordered)) != sorted(map(id, self.sm.software.values())):
            ordered = list(self.sm.software.values())   # registries disagree: the oracle reports it
        self.nested_order = [o.name for o in ordered] != list(self.sm.software)
        for obj in ordered:
            self._adopt(obj)
            u = self.uid(obj)
            if obj.name in listed and not isinstance(obj, Application):
                opts = listed[obj.name].get("options", {})
                fix0 = opts.get("fixing_duration", FIX_DEFAULT)
                self.model_init.append(self._install_line(obj, sorted(obj.listen_on_ports), obj.config.starting_health_state.name, fix0, True))
                # the loader: new_service.start(); then the defaults block — the model gets the CONFIGURED values
                r = configured(defaults, "service_restart_duration", RESTART_DEFAULT)
                f = fix0 if "fixing_duration" in opts else configured(defaults, "service_fix_duration", fix0)
                post += [f"sapi {u} start", f"sapi {u} setdur {r} {f}"]
            elif obj.name in listed_apps and isinstance(obj, Application):
                self.model_init.append(self._install_line(obj, sorted(obj.listen_on_ports), obj.config.starting_health_state.name, FIX_DEFAULT, True))
                post.append(f"aapi {u} run")
            else:
                self.model_init.append(self._install_line(obj, sorted(obj.listen_on_ports), "GOOD", FIX_DEFAULT, False))
            self.init_impl.append("ok")
        post += ["pon", f"nodedur {node.config.start_up_duration} {node.config.shut_down_duration}"]
        self.model_init += post
        self.init_impl += [None] * len(post)

    def do(self, op: dict):
        k = op["op"]
        if k == "tick":   # a whole environment step of the loaded game (no agents): pre_timestep, apply_timestep of the simulation
            self.t += 1
            try:
                self.game.step()
                return "ok", "tick"
            except TypeError:
                return "raised", "tick"
        if k == "sreq" and op["name"]:
            r = self.game.simulation.apply_request(["network", "node", self.hostname, "service", op["name"], op["r"]])
            return r.status, f"sreq {base._w(op['name'])} {op['r']}"
        return super().do(op)


def run_load_case(case: dict, guards: Dict[str, bool]) -> dict:
    base.load()
    from primaite.game.game import PrimaiteGame
    defaults = case["defaults"] if case.get("section", "present") == "present" else {}
    view = case.get("view", HOST)
    descr = {HOST: case["node"], **{p_["hostname"]: p_ for p_ in case.get("peers", [])}}
    svcs = descr[view]["services"]
    # -- the specification's answer for every listed service (one driver line)
    words = ["loadall", show_dict(defaults), str(RESTART_DEFAULT)]
    for e in svcs:
        opts = e.get("options", {})
        words += [show_dict(opts), str(opts.get("fixing_duration", FIX_DEFAULT))]
    lines = [" ".join(words)]
    oracle: List[Tuple[int, str, str, Any]] = []
    try:
        game = PrimaiteGame.from_config(build_cfg(case))
    except (TypeError, ValueError) as e:   # int(None) / int("abc"): the loader's conversion raised
        if "int()" not in str(e):
            raise
        # the load is one act for the whole scenario: it raises at the FIRST host (in file order) that lists a service; the
        # specification line of a failed load is therefore that host's, whatever the view
        if len(descr) > 1:
            from harness.lib.core import run_driver
            cands = []
            for h in descr:
                if descr[h]["services"]:
                    words = ["loadall", show_dict(defaults), str(RESTART_DEFAULT)]
                    for e2 in descr[h]["services"]:
                        opts = e2.get("options", {})
                        words += [show_dict(opts), str(opts.get("fixing_duration", FIX_DEFAULT))]
                    cands.append(" ".join(words))
            # the first host for which the SPECIFICATION raises (asked of the driver); none: the first host with services, and the
            # comparison reports the difference
            spec = run_driver("drv_c13", cands) if cands else []
            pick = next((l for l, a in zip(cands, spec) if a == "raised"), cands[0] if cands else lines[0])
            lines = [pick]
        return {"impl": ["raised"], "lines": lines, "oracle": oracle, "loaded": False}
    node = game.simulation.network.get_node_by_hostname(view)
    unconvertible = False
    for k in KEYS:
        try:
            configured(defaults, k, 0)
        except (TypeError, ValueError):
            unconvertible = True
    parts = []
    for e in svcs:
        o = node.software_manager.software[e["type"]]
        parts.append(f"restart={show_val(o.restart_duration)} install={show_val(getattr(o, 'install_duration', None))} "
                     f"fixing={show_val(o.config.fixing_duration)}")
        # the property, stated on the implementation alone: the configured duration is the effective one
        if unconvertible:
            continue
        want = configured(defaults, "service_restart_duration", RESTART_DEFAULT)
        if o.restart_duration != want or isinstance(o.restart_duration, (str, bool)):
            v = defaults.get("service_restart_duration", "absent")
            oracle.append((-1, "configured-duration-not-effective",
                           f"defaults.service_restart_duration={v!r} but {e['type']}.restart_duration={o.restart_duration!r}",
                           "zero" if v in (0, "0", False) else type(v).__name__))
    impl: List[Optional[str]] = ["|".join(parts) or "-"]
    if unconvertible and svcs:
        # the load went through although a value of the section cannot be converted: the specification says it raises; only the
        # first line is compared (the configured value the model would need does not exist)
        return {"impl": impl, "lines": lines, "oracle": oracle, "loaded": True}
    ims = {h: LoadedImpl(game, game.simulation.network.get_node_by_hostname(h), case, guards, nd=descr[h], hostname=h) for h in descr}
    im = ims[view]
    lines += im.model_init
    impl += im.init_impl
    lines.append("dump")
    impl.append(im.dump())
    for kind, detail in im.oracle():
        oracle.append((-1, kind, detail, False))
    for i, op in enumerate(case["ops"]):
        target = op.get("host", HOST)
        if op["op"] != "tick" and target != view:
            # an operation on ANOTHER host of the scenario: it runs on the real game; the viewed host's model gets no line — its
            # state must not change (compared by the next dump)
            if target in ims:
                try:
                    ims[target].do(op)
                except Exception:  # noqa  -- the other host's own view reports it
                    pass
            lines.append("dump")
            impl.append(im.dump())
            continue
        ans, line = im.do(op)
        if line is None:
            continue
        lines.append(line)
        impl.append(ans)
        lines.append("dump")
        if ans == "raised" and op["op"] == "tick":
            impl.append(None)
            break
        impl.append(im.dump())
        for kind, detail in im.oracle():
            oracle.append((i, kind, detail, False))
        im.payload_hits.clear()
    return {"impl": impl, "lines": lines, "oracle": oracle, "loaded": True}
