"""C07 rig, family `episode`: the list that is ENFORCED is the configured list — in every episode and across every lifecycle
hook of the device.

A router / firewall / wireless router is written into a (minimal) scenario file with rules at the positions the code's own
default-rule helper writes (22, 23), at 0 and 1, and at random others; the scenario runs through the REAL `PrimaiteGymEnv`:
episode 0, `env.reset()`, episode 1, `env.reset()`, episode 2.  Inside an episode: edits through the simulation's request
tree, verdicts on frames, and lifecycle events — environment steps, power cycle (with and without durations), `Node.reset()`,
`setup_for_episode` called on the device and on the whole simulation.  The model knows NO lifecycle operation: a lifecycle
event emits no model line (identity on all seven lists), `env.reset()` is "the device as built + the file's rules again".
After every event all lists are dumped (slots, counters, implicit action, describe_state scalars) and compared.
"""
from __future__ import annotations

import copy
from typing import Dict, List, Tuple

from harness.lib import scen
from harness.lib.core import Rng
from harness.rigs import acl as base
from harness.rigs import acl_state as rs

KINDS = ["router", "firewall", "wireless"]
HOT = [0, 1, 22, 23]  # 22 / 23: where `Router._set_default_acl` writes; 0 / 1: the top of the list
LIFE = ["step", "power", "power-slow", "node-reset", "hook-device", "hook-sim"]


def _file_rule(rng: Rng) -> dict:
    while True:
        r = rs._gen_rule(rng)
        if base._config_entry(r) is not None:
            return r


def gen_case(k: int, rng: Rng) -> dict:
    kind = KINDS[k % 3]
    lists = ["router"] if kind != "firewall" else [l for l in rs.LISTS if l != "router"]
    preload: Dict[str, List[dict]] = {}
    added: Dict[str, List[dict]] = {l: [] for l in rs.LISTS}
    for lst in lists:
        hot = list(HOT) if kind != "firewall" else rng.shuffle(list(HOT))[:rng.range(1, 4)]
        poss = hot + rng.shuffle([p for p in range(2, 22)])[:rng.range(0, 3)]
        items = []
        for pos in poss:
            r = _file_rule(rng)
            if pos in (22, 23) and rng.chance(1, 2):
                # the opposite of the default at this very position: DENY what the default permits
                r = ({"action": "DENY", "proto": None, "src_ip": None, "src_wc": None, "dst_ip": None, "dst_wc": None, "src_port": 219, "dst_port": 219}
                     if pos == 22 else
                     {"action": "DENY", "proto": "icmp", "src_ip": rng.choice(base.ADDRS), "src_wc": None, "dst_ip": None, "dst_wc": None,
                      "src_port": None, "dst_port": None})
            items.append({"pos": pos, "rule": r, "spelling": rng.choice(["code", "code", "documented"])})
            added[lst].append(r)
        preload[lst] = items
    all_lists = ["router"] if kind != "firewall" else list(rs.LISTS)
    ops: List[dict] = []

    def probes(lst):
        out = [{"op": "check", "list": lst, "pkt": {"proto": "icmp", "hdr": None, "src": rng.choice(base.ADDRS), "dst": rng.choice(base.ADDRS),
                                                      "sport": None, "dport": None}},
               {"op": "check", "list": lst, "pkt": {"proto": "udp", "hdr": "udp", "src": rng.choice(base.ADDRS), "dst": rng.choice(base.ADDRS),
                                                      "sport": 219, "dport": 219}}]
        for _ in range(2):
            out.append(rs._gen_check(rng, lst, added[lst]))
        return out

    for ep in range(3):
        if ep:
            ops.append({"op": "reset"})
        ops.append({"op": "dumpall"})
        for lst in (all_lists if kind != "firewall" else rng.shuffle(list(all_lists))[:3]):
            ops += probes(lst)
        for _ in range(rng.range(2, 4)):
            lst = rng.choice(all_lists)
            if rng.chance(1, 2):
                pos = rng.choice(HOT + [rng.range(2, 21)])
                if rng.chance(2, 3):
                    r = rs._gen_rule(rng)
                    added[lst].append(r)
                    ops.append({"op": "add", "list": lst, "surface": rng.choice(["api", "request", "action"]), "pos": pos, "rule": r})
                else:
                    ops.append({"op": "remove", "list": lst, "surface": rng.choice(["api", "request", "action"]), "pos": pos})
            ops.append({"op": "life", "what": rng.choice(LIFE)})
            ops.append({"op": "dumpall"})
            ops += probes(lst)[:2]
        ops.append({"op": "dumpall"})
    return {"family": "episode", "kind": kind, "preload": preload, "ops": ops,
            "durations": {"start_up": rng.choice([0, 0, 2]), "shut_down": rng.choice([0, 0, 2])}}


def scenario(case: dict) -> dict:
    kind = case["kind"]
    d = case.get("durations", {"start_up": 0, "shut_down": 0})
    node = {"hostname": "X", "start_up_duration": d["start_up"], "shut_down_duration": d["shut_down"]}
    acl_cfg = rs.acl_config(kind, case.get("preload"))
    if acl_cfg is not None:
        node["acl"] = acl_cfg
    if kind == "router":
        node.update(type="router", num_ports=2, ports={1: {"ip_address": "10.0.1.1", "subnet_mask": "255.255.255.0"},
                                                       2: {"ip_address": "10.0.2.1", "subnet_mask": "255.255.255.0"}})
    elif kind == "firewall":
        node.update(type="firewall", ports={"external_port": {"ip_address": "10.0.1.1", "subnet_mask": "255.255.255.0"},
                                            "internal_port": {"ip_address": "10.0.2.1", "subnet_mask": "255.255.255.0"},
                                            "dmz_port": {"ip_address": "10.0.3.1", "subnet_mask": "255.255.255.0"}})
    else:
        node.update(type="wireless-router", router_interface={"ip_address": "10.0.1.1", "subnet_mask": "255.255.255.0"},
                    wireless_access_point={"ip_address": "10.0.2.1", "subnet_mask": "255.255.255.0", "frequency": "WIFI_2_4"})
    cfg = {"metadata": {"version": 3.0}, "io_settings": dict(scen.QUIET_IO),
           "game": {"max_episode_length": 256, "ports": ["ARP", "DNS", "HTTP", "POSTGRES_SERVER"], "protocols": ["ICMP", "TCP", "UDP"]},
           "agents": [], "simulation": {"network": {"nodes": [node], "links": []}}}
    from harness.rigs import envrig
    return envrig.with_proxy(cfg)


def _build_lines(case: dict) -> List[str]:
    lines = ["fw 25" if case["kind"] == "firewall" else "rt 25"]
    for lst, items in (case.get("preload") or {}).items():
        for it in items:
            lines += [f"sel {lst}", base.rule_line(it["pos"], it["rule"])]
    return lines


def _lists_of(x, kind: str) -> dict:
    lists = {"router": x.acl}
    if kind == "firewall":
        for name, attr in rs.FW_ATTR.items():
            lists[name] = getattr(x, attr)
    return lists


def _until(env, x, state_name: str, limit: int = 12) -> bool:
    for _ in range(limit):
        if x.operating_state.name == state_name:
            return True
        env.step(0)
    return x.operating_state.name == state_name


def _life(env, x, what: str) -> str:
    """one lifecycle event; returns a note when the device did not come back (then the case is not comparable further)"""
    if what == "step":
        env.step(0)
    elif what in ("power", "power-slow"):
        x.power_off()
        if what == "power-slow":
            env.step(0)
        if not _until(env, x, "OFF"):
            return "device did not switch off"
        x.power_on()
        if not _until(env, x, "ON"):
            return "device did not switch on"
    elif what == "node-reset":
        x.reset()
        env.step(0)
        if not _until(env, x, "ON", 16):
            x.power_on()
            if not _until(env, x, "ON"):
                return "device did not come back from reset"
    elif what == "hook-device":
        x.setup_for_episode(episode=env.episode_counter)
    elif what == "hook-sim":
        env.game.simulation.setup_for_episode(episode=env.episode_counter)
    else:
        raise ValueError(what)
    return ""


def run(case: dict) -> Tuple[List[str], List[str]]:
    import logging
    import tempfile
    from pathlib import Path
    from primaite import PRIMAITE_PATHS
    logging.disable(logging.CRITICAL)
    kind = case["kind"]
    cfg = scenario(case)
    build = _build_lines(case)
    lines, out = ["reset"] + build, ["ok"] + ["ok"] * len(build)
    old = PRIMAITE_PATHS.user_sessions_path
    with tempfile.TemporaryDirectory() as tmp:
        PRIMAITE_PATHS.user_sessions_path = Path(tmp)
        try:
            env = scen.make_env(cfg)

            def device():
                return env.game.simulation.network.get_node_by_hostname("X")
            x = device()
            lists = _lists_of(x, kind)
            for op in case["ops"]:
                k = op["op"]
                if k == "reset":
                    env.reset()
                    x = device()
                    lists = _lists_of(x, kind)
                    lines += ["reset"] + build
                    out += ["ok"] + ["ok"] * len(build)
                elif k == "dumpall":
                    lines.append("dumpall")
                    out.append(rs.dumpall_impl(lists, rs.UNTOUCHED))
                elif k == "life":
                    note = _life(env, x, op["what"])
                    if note:
                        lines.append("dumpall")
                        out.append(f"lifecycle {op['what']}: {note}")
                        break
                elif k in ("add", "remove"):
                    lines += [f"sel {op['list']}", rs.edit_line(op)]
                    out += ["ok", rs.apply_edit(lists[op["list"]], op, op["list"], env.game.simulation.network)]
                elif k == "check":
                    p = op["pkt"]
                    acl = lists[op["list"]]
                    lines += [f"sel {op['list']}", f"check {p['proto']} {p['src']} {p['dst']} {rs.o(p['sport'])} {rs.o(p['dport'])}"]
                    out += ["ok", base.verdict(acl, base.make_frame(p))]
                else:
                    raise ValueError(k)
            try:
                env.close()
            except Exception:  # noqa: BLE001
                pass
        finally:
            PRIMAITE_PATHS.user_sessions_path = old
            logging.disable(logging.NOTSET)
    return out, lines
