"""R-fs-callers (property C15): drive the code OUTSIDE the file-system module that creates / deletes / copies files through the
Python API (the inventory of Gen/FileSystemCallers.lean) on REAL objects, and evaluate C15's oracle on EVERY node's file
system after EVERY step.

Network: client Computer `pc` (DatabaseClient, FTPClient, RansomwareScript, DataManipulationBot, WebServer-less), database
Server `db` (DatabaseService + FTPClient), backup Server `bk` (FTPServer), one switch.  An exception inside an operation
is recorded in the trace (`raised:<Type>`), it is not a violation by itself; the oracle is evaluated afterwards anyway.
"""
import random
from typing import Dict, List, Tuple

from harness.lib.core import Rng

PC_IP, DB_IP, BK_IP = "192.168.1.2", "192.168.1.10", "192.168.1.20"
NODES = ["pc", "db", "bk"]
FOLDERS = ["database", "downloads", "docs"]
FILES = ["database.db", "a.txt"]
BIG = 1_000_000      # link bandwidth (Mbit/s): the 5 MB database file must not saturate a link unless the case asks for it


class World:
    def __init__(self, case: dict):
        from ipaddress import IPv4Address
        from primaite.simulator.network.hardware.nodes.host.computer import Computer
        from primaite.simulator.network.hardware.nodes.host.server import Server
        from primaite.simulator.network.hardware.nodes.network.switch import Switch
        from primaite.simulator.sim_container import Simulation
        from primaite.simulator.system.applications.database_client import DatabaseClient
        from primaite.simulator.system.applications.red_applications.data_manipulation_bot import DataManipulationBot
        from primaite.simulator.system.applications.red_applications.ransomware_script import RansomwareScript
        from primaite.simulator.system.services.database.database_service import DatabaseService
        from primaite.simulator.system.services.ftp.ftp_client import FTPClient
        from primaite.simulator.system.services.ftp.ftp_server import FTPServer
        from primaite.simulator.system.services.web_server.web_server import WebServer
        self.IPv4Address = IPv4Address
        random.seed(case.get("seed", 0))
        self.sim = Simulation()
        self.t = 0
        net = self.sim.network
        sw = Switch.from_config({"type": "switch", "hostname": "sw", "num_ports": 4, "start_up_duration": 0})
        sw.power_on()

        def host(cls, kind, name, ip):
            h = cls.from_config({"type": kind, "hostname": name, "ip_address": ip, "subnet_mask": "255.255.255.0",
                                 "start_up_duration": 0, "shut_down_duration": 0})
            h.power_on()
            return h
        pc, db, bk = host(Computer, "computer", "pc", PC_IP), host(Server, "server", "db", DB_IP), host(Server, "server", "bk", BK_IP)
        for i, h in enumerate((pc, db, bk)):
            net.connect(h.network_interface[1], sw.network_interface[i + 1], bandwidth=case.get("bw") or BIG)
        self.nodes = {"pc": pc, "db": db, "bk": bk}
        db.software_manager.install(DatabaseService)
        self.dbs = db.software_manager.software["database-service"]
        self.dbs.configure_backup(IPv4Address(BK_IP))
        self.dbs.config.fixing_duration = case.get("fix", 2)
        if "ftp-client" not in db.software_manager.software:
            db.software_manager.install(FTPClient)
        bk.software_manager.install(FTPServer)
        if case.get("web", True):
            bk.software_manager.install(WebServer)      # WebServer._install_web_files: create_file("index.html", "primaite")
        for cls in (FTPClient, DatabaseClient, RansomwareScript, DataManipulationBot):
            if cls.__name__ == "FTPClient" and "ftp-client" in pc.software_manager.software:
                continue
            pc.software_manager.install(cls)
        sm = pc.software_manager.software
        self.dc = sm["database-client"]
        self.dc.configure(server_ip_address=IPv4Address(DB_IP))
        self.dc.run()
        self.rs = sm["ransomware-script"]
        self.rs.configure(server_ip_address=IPv4Address(DB_IP))
        self.bot = sm["data-manipulation-bot"]
        self.bot.configure(server_ip_address=IPv4Address(DB_IP), payload=case.get("payload", "DELETE"),
                           port_scan_p_of_success=1.0, data_manipulation_p_of_success=1.0, repeat=True)
        self.conn = None
        rd = case.get("restore_duration")
        if rd is not None:
            for h in self.nodes.values():
                h.file_system._default_folder_restore_duration = rd
        self.sim.pre_timestep(0)

    def fs(self, node: str):
        return self.nodes[node].file_system

    def ftp(self, node: str):
        return self.nodes[node].software_manager.software.get("ftp-client")

    def do(self, op: list) -> str:
        k = op[0]
        if k == "tick":
            for _ in range(op[1] if len(op) > 1 else 1):
                self.sim.pre_timestep(self.t)
                self.sim.apply_timestep(self.t)
                self.t += 1
            return "ok"
        if k == "pre":
            self.sim.pre_timestep(self.t)
            return "ok"
        if k == "db_backup":
            return str(self.dbs.backup_database())
        if k == "db_restore":
            return str(self.dbs.restore_backup())
        if k == "db_fix":
            return str(self.dbs.fix())
        if k == "db_corrupt_file":
            f = self.dbs.db_file
            return "nofile" if f is None else str(f.corrupt())
        if k == "db_delete_file":
            return str(self.fs("db").delete_file(folder_name="database", file_name="database.db"))
        if k == "db_create_file":
            self.dbs._create_db_file()
            return "ok"
        if k == "ftp_send":      # ["ftp_send", from node, src folder, src file, dst folder, dst name]  (to the backup server)
            _, n, sf, sx, df, dx = op
            return str(self.ftp(n).send_file(dest_ip_address=self.IPv4Address(BK_IP), src_folder_name=sf, src_file_name=sx,
                                             dest_folder_name=df, dest_file_name=dx))
        if k == "ftp_request":   # ["ftp_request", to node, src folder on bk, src file, dst folder, dst name]
            _, n, sf, sx, df, dx = op
            return str(self.ftp(n).request_file(dest_ip_address=self.IPv4Address(BK_IP), src_folder_name=sf, src_file_name=sx,
                                                dest_folder_name=df, dest_file_name=dx))
        if k == "ransom":
            return str(self.rs.attack())
        if k == "data_manip":
            return str(self.bot.attack())
        if k == "query":
            if self.conn is None or not getattr(self.conn, "is_active", True):
                self.conn = self.dc.get_new_connection()
            if self.conn is None:
                return "noconn"
            return str(self.conn.query(op[1]))
        if k == "c2_folder":     # AbstractC2.get_exfiltration_folder's statement, on the node's file system
            return "ok" if self.fs(op[1]).create_folder(folder_name=op[2]) is not None else "none"
        if k == "cfile":
            f = self.fs(op[1]).create_file(folder_name=op[2], file_name=op[3], **({"force": True} if len(op) > 4 and op[4] else {}))
            return "ok" if f is not None else "none"
        if k == "dfile":
            return str(self.fs(op[1]).delete_file(folder_name=op[2], file_name=op[3]))
        if k == "rfile":
            return str(self.fs(op[1]).restore_file(folder_name=op[2], file_name=op[3]))
        if k == "dfolder":
            return str(self.fs(op[1]).delete_folder(folder_name=op[2]))
        if k == "rfolder":
            return str(self.fs(op[1]).restore_folder(folder_name=op[2]))
        if k == "copy":
            self.fs(op[1]).copy_file(src_folder_name=op[2], src_file_name=op[3], dst_folder_name=op[4])
            return "ok"
        if k == "move":
            self.fs(op[1]).move_file(src_folder_name=op[2], src_file_name=op[3], dst_folder_name=op[4])
            return "ok"
        if k == "power":         # ["power", node, on?]
            h = self.nodes[op[1]]
            (h.power_on if op[2] else h.power_off)()
            return "ok"
        if k == "svc":           # ["svc", "start"|"stop"|"restart"]  the database service
            getattr(self.dbs, op[1])()
            return "ok"
        raise ValueError(f"unknown op {op}")


def _extra_describe(fs) -> List[str]:
    bad = []
    for g in list(fs.folders.values()) + list(fs.deleted_folders.values()):
        if sorted(g.describe_state()["files"]) != sorted(f.name for f in g.files.values()):
            bad.append("describe-live-files")
    return bad


def run_caller_case(case: dict) -> Tuple[List[str], List[Tuple[int, list, str, List[str]]]]:
    from harness.rigs import filesystem as R
    w = World(case)
    trace: List[str] = []
    viol: List[Tuple[int, list, str, List[str]]] = []

    def check(i, op):
        for name in NODES:
            fs = w.fs(name)
            try:
                bad = sorted(set(R.oracle(fs, after_pre=False) + _extra_describe(fs)))
            except Exception as e:  # noqa: BLE001   describe_state itself failing is a finding
                bad = [f"oracle-raised:{type(e).__name__}"]
            if bad:
                viol.append((i, op, name, bad))
    check(-1, ["setup"])
    for i, op in enumerate(case["ops"]):
        try:
            st = w.do(op)
        except Exception as e:  # noqa: BLE001
            st = f"raised:{type(e).__name__}"
        trace.append(f"{i} {' '.join(str(x) for x in op)} -> {st}")
        check(i, op)
    return trace, viol


# ------------------------------------------------------------------------------------------------ generation
def gen_caller_op(rng: Rng) -> list:
    node = lambda: rng.choice(NODES)                                   # noqa: E731
    fo = lambda: rng.choice(FOLDERS)                                   # noqa: E731
    fi = lambda: rng.choice(FILES)                                     # noqa: E731
    SPOTS = [("db", "database", "database.db"), ("db", "downloads", "database.db"), ("pc", "docs", "a.txt"), ("bk", "store", "a.txt"),
             ("pc", "downloads", "a.txt")]

    def spot():
        return list(rng.choice(SPOTS)) if rng.chance(3, 4) else [node(), fo(), fi()]
    r = rng.below(100)
    if r < 16:
        return ["tick", rng.range(1, 4)]
    if r < 23:
        return ["db_backup"]
    if r < 31:
        return ["db_restore"]
    if r < 36:
        return ["db_fix"]
    if r < 39:
        return ["db_corrupt_file"]
    if r < 44:
        return ["db_delete_file"]
    if r < 46:
        return ["db_create_file"]
    if r < 53:
        if rng.chance(1, 2):
            return rng.choice([["ftp_send", "pc", "docs", "a.txt", "store", "a.txt"], ["ftp_send", "db", "database", "database.db", "store", "a.txt"],
                               ["ftp_send", "pc", "downloads", "a.txt", "store", "database.db"]])
        n = rng.choice(["pc", "db"])
        return ["ftp_send", n, fo(), fi(), rng.choice(["store", "database", "docs"]), fi()]
    if r < 59:
        n = rng.choice(["pc", "db"])
        if rng.chance(1, 4):
            return ["ftp_request", n, "primaite", "index.html", fo(), fi()]
        if rng.chance(1, 2):
            return ["ftp_request", n, "store", "a.txt", rng.choice(["downloads", "docs"]), "a.txt"]
        return ["ftp_request", n, rng.choice(["store", "database", "docs"]), fi(), fo(), fi()]
    if r < 62:
        return ["ransom"]
    if r < 65:
        return ["data_manip"]
    if r < 69:
        return ["query", rng.choice(["DELETE", "ENCRYPT", "SELECT", "INSERT"])]
    if r < 76:
        return ["cfile"] + spot() + [rng.chance(1, 4)]
    if r < 82:
        return ["dfile"] + spot()
    if r < 86:
        return ["rfile"] + spot()
    if r < 90:
        return ["dfolder"] + spot()[:2]
    if r < 95:
        return ["rfolder"] + spot()[:2]
    if r < 97:
        return ["copy", node(), fo(), fi(), fo()]
    if r < 98:
        return ["move", node(), fo(), fi(), fo()]
    if r < 99:
        return ["c2_folder", node(), rng.choice(FOLDERS + ["exfiltration_folder"])]
    return ["svc", rng.choice(["stop", "start", "restart"])]


def gen_caller_case(rng: Rng) -> dict:
    n = rng.range(8, 30)
    ops = [["db_backup"]] if rng.chance(2, 3) else []
    ops += [gen_caller_op(rng) for _ in range(n)]
    return {"surface": "callers", "seed": rng.below(1 << 16), "fix": rng.range(1, 3),
            "restore_duration": rng.choice([None, None, 1, 2, 3]), "bw": rng.choice([None, None, None, 100]), "payload": rng.choice(["DELETE", "ENCRYPT"]), "ops": ops}


def fixed_caller_cases() -> List[dict]:
    def case(ops, **kw):
        return dict({"surface": "callers", "seed": 1, "ops": ops}, **kw)
    return [
        # backup -> corrupt -> fix -> ticks (restore_backup runs when the countdown ends) -> restore the folder -> ticks
        case([["db_backup"], ["db_corrupt_file"], ["db_fix"], ["tick", 3], ["rfolder", "db", "database"], ["tick", 5],
              ["rfile", "db", "database", "database.db"], ["tick", 2]]),
        # the same with the folder deleted between backup and fix (deleted namesakes + a copy arriving)
        case([["db_backup"], ["dfolder", "db", "database"], ["db_fix"], ["tick", 3], ["rfolder", "db", "database"], ["tick", 5],
              ["db_restore"], ["rfile", "db", "database", "database.db"], ["tick", 4]]),
        # restore_backup twice (the second finds downloads/database.db and a deleted database.db), then restore_file of the old one
        case([["db_backup"], ["db_restore"], ["db_restore"], ["rfile", "db", "database", "database.db"], ["tick", 1],
              ["rfile", "db", "downloads", "database.db"], ["dfolder", "db", "downloads"], ["rfolder", "db", "downloads"], ["tick", 5]]),
        # FTP transfer onto an existing name, twice; then back
        case([["cfile", "pc", "docs", "a.txt", False], ["ftp_send", "pc", "docs", "a.txt", "store", "a.txt"],
              ["ftp_send", "pc", "docs", "a.txt", "store", "a.txt"], ["ftp_request", "pc", "store", "a.txt", "docs", "a.txt"],
              ["ftp_request", "pc", "store", "a.txt", "docs", "b.txt"], ["dfile", "bk", "store", "a.txt"],
              ["ftp_send", "pc", "docs", "a.txt", "store", "a.txt"], ["rfile", "bk", "store", "a.txt"], ["tick", 2]]),
        # ransomware, then restore_backup
        case([["db_backup"], ["ransom"], ["tick", 1], ["query", "SELECT"], ["db_restore"], ["tick", 1], ["db_fix"], ["tick", 4]], payload="ENCRYPT"),
        # data manipulation bot, fix, ticks
        case([["db_backup"], ["data_manip"], ["tick", 1], ["data_manip"], ["tick", 2], ["db_fix"], ["tick", 4], ["query", "SELECT"]]),
        # delete file, create a namesake, delete the folder, restore it, ticks (>= 4: default folder restore duration is 3)
        case([["db_delete_file"], ["db_create_file"], ["dfolder", "db", "database"], ["rfolder", "db", "database"], ["tick", 5],
              ["rfile", "db", "database", "database.db"], ["tick", 1]]),
        case([["cfile", "pc", "docs", "a.txt", False], ["dfile", "pc", "docs", "a.txt"], ["cfile", "pc", "docs", "a.txt", False],
              ["dfolder", "pc", "docs"], ["cfile", "pc", "docs", "a.txt", False], ["rfolder", "pc", "docs"], ["tick", 5],
              ["rfile", "pc", "docs", "a.txt"], ["tick", 1]]),
        # delete the live database file, restore_backup copies one in, restore the deleted one as well
        case([["db_backup"], ["db_delete_file"], ["db_restore"], ["rfile", "db", "database", "database.db"], ["tick", 1],
              ["db_delete_file"], ["db_restore"], ["dfolder", "db", "database"], ["rfolder", "db", "database"], ["tick", 5]]),
        # copy / move onto a name that exists live and deleted
        case([["cfile", "pc", "docs", "a.txt", False], ["cfile", "pc", "root", "a.txt", False], ["copy", "pc", "docs", "a.txt", "root"],
              ["dfile", "pc", "root", "a.txt"], ["copy", "pc", "docs", "a.txt", "root"], ["rfile", "pc", "root", "a.txt"],
              ["move", "pc", "docs", "a.txt", "root"], ["tick", 1]]),
    ]


def op_histogram(cases: List[dict]) -> Dict[str, int]:
    h: Dict[str, int] = {}
    for c in cases:
        for op in c["ops"]:
            h[op[0]] = h.get(op[0], 0) + 1
    return h
