"""R-health, family `game-step`: the order of a game step, driven through the REAL `PrimaiteGame.step()`.

harness/rigs/health.py replays `pre; <requests>; apply` on a bare Simulation and feeds FolderObservation objects by hand. Here the
game is built by `PrimaiteGame.from_config` from an inline config (one computer `pc_1`, folders d0 [a.txt, b.txt] and d1 [c.txt]) with
TWO real ProxyAgents: `blue_scan` (file_system_requires_scan: true) and `blue_raw` (false). Every step the two agents' actions are
stored with `ProxyAgent.store_action` and `game.step()` is called - so pre_timestep, apply_agent_actions, advance_timestep and
update_agents run in whatever order the code under test has them. After every step the rig records

  * the whole health-relevant state of the node in the format of `health.Impl.dump()` (power, countdowns, software, folders with
    actual / visible / scan countdown / restore countdown / `_scanned_this_step`, files, the by-name describe_state view), and
  * in the `O=` section what the agents' real observations show: `folder=<reported to blue_scan>/<cache of blue_scan's
    FolderObservation>/<reported to blue_raw>`, dug out of `agent.observation_manager.current_observation`,
  * the health value the observations show for every file (blue_scan: visible, blue_raw: actual; absent file -> 0).

The SAME sequence is given to the proved Lean model through the driver `drv_c14` as `pre`, the request lines of the step (agent
order), `apply` - exactly as props/c14.py runs a case of `health.game_order_cases` - and compared per step: the response of every
request, and after `apply` the whole dump including the `O=` section (model's FolderObs.observe), plus the file observations against
the model's file fields. Not a fallback oracle: the comparison is against the model driver.

Enumerated: every sequence of `depth` steps over a menu of (blue_scan action, blue_raw action) pairs x node_scan_duration {1,2} x
folder_scan_duration {1,2}; framed by a first step [folder scan, os scan] and two idle steps at the end; b.txt and c.txt are CORRUPT
from the start (direct attribute write before the first step).

HostObservation gate (NOT in the Lean model, applied here on the model's answer): while the node is not ON after a step the agents
are shown the default observation (every health value 0) and the FolderObservations are not run (cache unchanged).

There is no folder-delete action in this version (only node-file-delete): the rig registers two actions of its own
(`rig-folder-delete`, `rig-folder-undelete`) that form the file system's delete / restore folder requests, so that these requests
too are issued by the real `apply_agent_actions` (pre_timestep reaches live folders only - the place where the order of
pre_timestep and the requests is visible).
"""
from __future__ import annotations

import contextlib
import io
import itertools
from typing import Dict, List, Optional, Tuple

from harness.rigs import health as rig

NODE = "pc_1"
D, D1 = "d0", "d1"
EXE = "drv_c14"
FAMILY = "game-step"

# (action name, options, model op line or None)
ACTIONS: List[Tuple[str, dict, Optional[List[str]]]] = [
    ("do-nothing", {}, None),                                                                                        # 0
    ("node-folder-scan", {"node_name": NODE, "folder_name": D}, ["folder", D, "scan"]),                              # 1
    ("node-os-scan", {"node_name": NODE}, ["osscan"]),                                                               # 2
    ("node-file-corrupt", {"node_name": NODE, "folder_name": D, "file_name": "a.txt"}, ["file", D, "a.txt", "corrupt"]),  # 3
    ("node-folder-repair", {"node_name": NODE, "folder_name": D}, ["folder", D, "repair"]),                          # 4
    ("node-folder-restore", {"node_name": NODE, "folder_name": D}, ["folder", D, "restore"]),                        # 5
    ("node-file-delete", {"node_name": NODE, "folder_name": D, "file_name": "b.txt"}, ["fsdelfile", D, "b.txt"]),    # 6
    ("node-shutdown", {"node_name": NODE}, ["shutdown"]),                                                            # 7
    ("node-startup", {"node_name": NODE}, ["startup"]),                                                              # 8
    ("node-file-scan", {"node_name": NODE, "folder_name": D, "file_name": "a.txt"}, ["file", D, "a.txt", "scan"]),   # 9
    ("node-file-repair", {"node_name": NODE, "folder_name": D, "file_name": "b.txt"}, ["file", D, "b.txt", "repair"]),  # 10
    ("node-file-restore", {"node_name": NODE, "folder_name": D, "file_name": "b.txt"}, ["file", D, "b.txt", "restore"]),  # 11
    # no shipped action deletes / restores a FOLDER; two actions of the rig (registered below) form those two requests, so that
    # they too are issued by the real `apply_agent_actions` inside the real `game.step()`
    ("rig-folder-delete", {"node_name": NODE, "folder_name": D}, ["fsdelfolder", D]),                               # 12
    ("rig-folder-undelete", {"node_name": NODE, "folder_name": D}, ["fsrestfolder", D]),                            # 13
]


def _register_rig_actions():
    from primaite.game.agent.actions.manager import AbstractAction
    if "rig-folder-delete" in AbstractAction._registry:
        return
    from typing import ClassVar

    class _RigFsFolder(AbstractAction, discriminator="rig-folder-abstract"):
        class ConfigSchema(AbstractAction.ConfigSchema):
            node_name: str
            folder_name: str
            verb: ClassVar[str] = "delete"

        @classmethod
        def form_request(cls, config):
            return ["network", "node", config.node_name, "file_system", config.verb, "folder", config.folder_name]

    class _RigFolderDelete(_RigFsFolder, discriminator="rig-folder-delete"):
        class ConfigSchema(_RigFsFolder.ConfigSchema):
            verb: ClassVar[str] = "delete"

    class _RigFolderUndelete(_RigFsFolder, discriminator="rig-folder-undelete"):
        class ConfigSchema(_RigFsFolder.ConfigSchema):
            verb: ClassVar[str] = "restore"
A = {name: i for i, (name, _, _) in enumerate(ACTIONS)}
# one game step = (action of blue_scan, action of blue_raw); blue_scan acts first (agent order of the config)
MENU: List[Tuple[int, int]] = [
    (0, 0),
    (A["node-folder-scan"], 0),
    (0, A["node-os-scan"]),
    (A["node-file-corrupt"], 0),
    (A["node-folder-repair"], 0),
    (0, A["node-folder-restore"]),
    (A["node-file-delete"], 0),
    (A["node-shutdown"], 0),
    (0, A["node-startup"]),
    (A["node-file-corrupt"], A["node-folder-scan"]),   # true health changes, then a scan is requested, in ONE step
    (A["rig-folder-delete"], 0),                        # pre_timestep reaches live folders only: deleted before / after it?
    (0, A["rig-folder-undelete"]),
    (A["node-folder-scan"], A["rig-folder-delete"]),
]
MENU_THOROUGH = MENU + [(A["node-folder-scan"], A["node-file-delete"]), (A["rig-folder-delete"], A["rig-folder-undelete"]),
                        (A["node-file-scan"], 0), (A["node-file-repair"], A["node-os-scan"]), (A["node-file-restore"], 0),
                        (A["node-folder-scan"], A["node-os-scan"])]
FIRST = (A["node-folder-scan"], A["node-os-scan"])
TAIL = [(0, 0), (0, 0)]


# ------------------------------------------------------------------------------------------ the game
def _agent_cfg(ref: str, requires_scan: bool) -> dict:
    return {
        "ref": ref, "team": "BLUE", "type": "proxy-agent",
        "observation_space": {"type": "custom", "options": {"components": [{"type": "nodes", "label": "NODES", "options": {
            "hosts": [{"hostname": NODE, "folders": [
                {"folder_name": D, "files": [{"file_name": "a.txt"}, {"file_name": "b.txt"}]},
                {"folder_name": D1, "files": [{"file_name": "c.txt"}]}]}],
            "num_services": 0, "num_applications": 0, "num_folders": 2, "num_files": 2, "num_nics": 0,
            "include_num_access": False, "include_nmne": False, "file_system_requires_scan": requires_scan,
            "num_ports": 0, "ip_list": [], "wildcard_list": [], "port_list": [], "protocol_list": [], "num_rules": 0}}]}},
        "action_space": {"action_map": {i: {"action": a, "options": dict(o)} for i, (a, o, _) in enumerate(ACTIONS)}},
        "reward_function": {"reward_components": []},
        "agent_settings": {"flatten_obs": False},
    }


def config(dn: int, df: int) -> dict:
    return {
        "metadata": {"version": 3.0},
        "io_settings": {"save_agent_actions": False, "save_step_metadata": False, "save_pcap_logs": False, "save_sys_logs": False,
                        "save_agent_logs": False},
        "game": {"max_episode_length": 256, "ports": [], "protocols": []},
        "defaults": {"node_scan_duration": dn, "folder_scan_duration": df},
        "agents": [_agent_cfg("blue_scan", True), _agent_cfg("blue_raw", False)],
        "simulation": {"network": {"nodes": [{
            "hostname": NODE, "type": "computer", "ip_address": "192.168.10.21", "subnet_mask": "255.255.255.0",
            "start_up_duration": 0, "shut_down_duration": 0,
            "folders": [{"folder_name": D, "files": [{"file_name": "a.txt"}, {"file_name": "b.txt"}]},
                        {"folder_name": D1, "files": [{"file_name": "c.txt"}]}]}], "links": []}},
    }


OBS_FOLDERS = [(D, ["a.txt", "b.txt"]), (D1, ["c.txt"])]  # the order of the observation space (FOLDERS 1.., FILES 1..)


class Game:
    """one real PrimaiteGame + a `health.Impl` view of its node (for `setup_lines()` / `dump()` in the rig's format)"""

    def __init__(self, case: dict):
        from primaite.game.game import PrimaiteGame
        from primaite.simulator.file_system.file_system_item_abc import FileSystemItemHealthStatus
        from primaite.simulator.system.software import SoftwareHealthState

        _register_rig_actions()
        self.game = PrimaiteGame.from_config(config(case["dn"], case["df"]))
        self.scan_agent = self.game.agents["blue_scan"]
        self.raw_agent = self.game.agents["blue_raw"]
        assert list(self.game.agents) == ["blue_scan", "blue_raw"]
        v = self.view = object.__new__(rig.Impl)
        v.SwH, v.FsH = SoftwareHealthState, FileSystemItemHealthStatus
        v.host, v.t = NODE, 0
        v.sim = self.game.simulation
        v.node = v.sim.network.get_node_by_hostname(NODE)
        assert v.node.config.node_scan_duration == case["dn"] and v.node.file_system.get_folder(D).scan_duration == case["df"]
        for F, f, h in case["corrupt"]:  # true health written directly before the first step
            v.node.file_system.get_folder(F).get_file(f).health_status = FileSystemItemHealthStatus[h]
        v._index()
        host = self.scan_agent.observation_manager.obs.components["NODES"].hosts[0]
        self.fobs = {ob.where[-1]: ob for ob in host.folders if ob.where}

    def _host_obs(self, agent) -> dict:
        return agent.observation_manager.current_observation["NODES"]["HOST0"]

    def step(self, a_scan: int, a_raw: int) -> Tuple[List[str], List[List[str]]]:
        """one real game step; returns the status of the two agents' requests and the requests themselves"""
        self.scan_agent.store_action(a_scan)
        self.raw_agent.store_action(a_raw)
        self.game.step()
        v = self.view
        v.t += 1
        hs, hr = self._host_obs(self.scan_agent), self._host_obs(self.raw_agent)
        H = v.FsH
        self.file_obs: Dict[str, Tuple[str, str]] = {}
        for i, (F, files) in enumerate(OBS_FOLDERS, start=1):
            cached = self.fobs[F].cached_obs["health_status"] if hasattr(self.fobs[F], "cached_obs") else 0
            v.last_obs[F] = (H(int(hs["FOLDERS"][i]["health_status"])).name, H(int(cached)).name,
                             H(int(hr["FOLDERS"][i]["health_status"])).name)
            for j, f in enumerate(files, start=1):
                self.file_obs[f"{F}/{f}"] = (H(int(hs["FOLDERS"][i]["FILES"][j]["health_status"])).name,
                                             H(int(hr["FOLDERS"][i]["FILES"][j]["health_status"])).name)
        items = [self.scan_agent.history[-1], self.raw_agent.history[-1]]
        return [it.response.status for it in items], [list(it.request) for it in items]


# ------------------------------------------------------------------------------------------ cases
def _ops(steps: List[Tuple[int, int]]) -> List[List[str]]:
    ops: List[List[str]] = []
    for a1, a2 in steps:
        ops.append(["pre"])
        for a in (a1, a2):
            if ACTIONS[a][2] is not None:
                ops.append(list(ACTIONS[a][2]))
        ops.append(["apply"])
    return ops


def make_case(dn: int, df: int, steps: List[Tuple[int, int]]) -> dict:
    steps = [tuple(s) for s in steps]
    return {"family": FAMILY, "dn": dn, "df": df, "steps": [list(s) for s in steps],
            "actions": [[ACTIONS[a][0] for a in s] for s in steps],
            "corrupt": [[D, "b.txt", "CORRUPT"], [D1, "c.txt", "CORRUPT"]],
            "ops": _ops(steps)}


def cases(depth: int = 2) -> List[dict]:
    """depth 2 (quick): 13^2 x 4 = 676 traces; depth >= 3: 13^depth x 4 (8788 for 3) plus every 2-step game over the longer menu"""
    out = []
    for menu, d in [(MENU, depth)] + ([(MENU_THOROUGH, 2)] if depth >= 3 else []):
        for dn in (1, 2):
            for df in (1, 2):
                for seq in itertools.product(range(len(menu)), repeat=d):
                    if menu is MENU_THOROUGH and all(menu[k] in MENU for k in seq):
                        continue
                    out.append(make_case(dn, df, [FIRST] + [menu[k] for k in seq] + TAIL))
    return out


# ------------------------------------------------------------------------------------------ running
def _expected_request(a: int) -> List[str]:
    op = ACTIONS[a][2]
    if op is None:
        return ["do-nothing"]
    base = ["network", "node", NODE]
    k = op[0]
    if k == "folder":
        return base + ["file_system", "folder", op[1], op[2]]
    if k == "file":
        return base + ["file_system", "folder", op[1], "file", op[2], op[3]]
    if k == "fsdelfile":
        return base + ["file_system", "delete", "file", op[1], op[2]]
    if k == "fsrestfile":
        return base + ["file_system", "restore", "file", op[1], op[2]]
    if k == "fsdelfolder":
        return base + ["file_system", "delete", "folder", op[1]]
    if k == "fsrestfolder":
        return base + ["file_system", "restore", "folder", op[1]]
    if k == "osscan":
        return base + ["os", "scan"]
    return base + [k]


def run_impl(case: dict):
    """-> (setup lines, per step: (request statuses of the acting agents, dump, file observations), machinery complaints)"""
    with contextlib.redirect_stdout(io.StringIO()):
        g = Game(case)
    setup = g.view.setup_lines()
    steps, bad = [], []
    for i, (a1, a2) in enumerate(case["steps"]):
        try:
            with contextlib.redirect_stdout(io.StringIO()):
                status, reqs = g.step(a1, a2)
        except Exception as e:
            steps.append(([f"raised:{type(e).__name__}"], f"raised:{type(e).__name__}:{e}", {}))
            break
        for a, r in zip((a1, a2), reqs):
            if [str(x) for x in r] != _expected_request(a):
                bad.append({"family": FAMILY, "case": case, "step": i, "field": "request-of-action", "impl": r,
                            "model": _expected_request(a)})
        acting = [s for a, s in zip((a1, a2), status) if ACTIONS[a][2] is not None]
        steps.append((acting, g.view.dump(), dict(g.file_obs)))
    return setup, steps, bad


def _model_file_fields(dump: str) -> Dict[str, Tuple[str, str, str]]:
    """folder/file -> (actual, visible, deleted) of the LAST listed object of that name that is live, from a dump's F= section"""
    out: Dict[str, Tuple[str, str, str]] = {}
    try:
        f = dump.split(" F=", 1)[1].split(" V=", 1)[0]
    except IndexError:
        return out
    for item in f.split():
        head, _, files = item.partition("[")
        hp = head.split(":")
        fname, fdel = hp[0], hp[1][:1]
        for fi in files.rstrip("]").split(","):
            if not fi:
                continue
            fp = fi.split(":")
            key = f"{fname}/{fp[0]}"
            live = fdel == "0" and fp[3][:1] == "0"
            if live or key not in out:
                out[key] = (fp[1], fp[2], "0" if live else "1")
    return out


def _locate(a: str, b: str) -> Tuple[str, str, str]:
    """first differing field of two `resp | dump` lines, by the tokenizer of props/c14.py"""
    try:
        from harness.props.c14 import _tokens
        for (fa, xa), (fb, xb) in zip(_tokens(a), _tokens(b)):
            if xa != xb:
                return fa, xa, xb
    except Exception:
        pass
    return "dump", a, b


def compare(case: dict, setup: List[str], steps, model_out: List[str]) -> List[dict]:
    """`model_out`: the driver's answers to setup + ops of this case"""
    out: List[dict] = []
    if any(x != "ok" for x in model_out[:len(setup)]):
        return [{"family": FAMILY, "case": case, "step": -1, "field": "driver-setup", "impl": setup, "model": model_out[:len(setup)]}]
    ans = model_out[len(setup):]
    k = 0
    for i, (a1, a2) in enumerate(case["steps"]):
        n_req = sum(1 for a in (a1, a2) if ACTIONS[a][2] is not None)
        group = ans[k:k + n_req + 2]
        k += n_req + 2
        if i >= len(steps):
            out.append({"family": FAMILY, "case": case, "step": i, "field": "length", "impl": None, "model": group[-1] if group else None})
            break
        acting, dump, fobs = steps[i]
        if dump.startswith("raised"):
            out.append({"family": FAMILY, "case": case, "step": i, "field": "raised", "impl": dump, "model": group[-1] if group else None})
            break
        if len(group) != n_req + 2 or any(x in ("bad-op", "ambiguous") for x in group):
            out.append({"family": FAMILY, "case": case, "step": i, "field": "driver-op", "impl": None, "model": group})
            break
        mresp = [g.split(" | ", 1)[0] for g in group[1:-1]]
        if mresp != acting:
            out.append({"family": FAMILY, "case": case, "step": i, "field": "resp", "impl": acting, "model": mresp})
        mdump = group[-1].split(" | ", 1)[1] if " | " in group[-1] else group[-1]
        # the model keeps an observer for EVERY folder name of the node (`root` too); the agents observe d0 and d1 only
        mhead, sep, mobs = mdump.partition(" O=")
        watched = {F for F, _ in OBS_FOLDERS}
        mitems = [x for x in mobs.split(",") if x.split("=", 1)[0] in watched]
        host_on = mhead.startswith("P=ON,")
        if not host_on:
            # HostObservation.observe (above the model's FolderObs): a host that is not ON is shown as its default observation -
            # every health value 0 - and the FolderObservations are not run at all (their cache stays: middle component)
            mitems = [x.split("=", 1)[0] + "=NONE/" + x.split("=", 1)[1].split("/")[1] + "/NONE" for x in mitems]
        mdump = mhead + sep + ",".join(mitems)
        if mdump != dump:
            field, xa, xb = _locate("ok | " + dump, "ok | " + mdump)
            out.append({"family": FAMILY, "case": case, "step": i, "field": field, "impl": xa, "model": xb})
        # what the agents are shown for the files: blue_scan the visible value, blue_raw the actual one, absent file -> NONE
        mf = _model_file_fields(mdump)
        for key, (rep_scan, rep_raw) in sorted(fobs.items()):
            act, vis, dele = mf.get(key, ("NONE", "NONE", "1"))
            want = ("NONE", "NONE") if dele == "1" or not host_on else (vis, act)
            if (rep_scan, rep_raw) != want:
                out.append({"family": FAMILY, "case": case, "step": i, "field": "file-observation:" + key,
                            "impl": f"{rep_scan}/{rep_raw}", "model": f"{want[0]}/{want[1]}"})
        if out:
            break  # the first disagreeing step of a trace; later steps follow from it
    return out


def _model(lines: List[str]) -> List[str]:
    from harness.lib.core import run_driver
    return run_driver(EXE, lines)


def run_case(case: dict) -> List[dict]:
    setup, steps, bad = run_impl(case)
    lines = rig.model_lines(setup, case)
    return bad + compare(case, setup, steps, _model(lines))


def run_family(depth: int = 2, limit: Optional[int] = None) -> Tuple[int, List[dict]]:
    cs = cases(depth)
    if limit is not None and len(cs) > limit:
        stride = len(cs) / float(limit)
        cs = [cs[int(i * stride)] for i in range(limit)]
    impl = [run_impl(c) for c in cs]
    lines: List[str] = []
    bounds = []
    for c, (setup, steps, bad) in zip(cs, impl):
        ls = rig.model_lines(setup, c)
        bounds.append((len(lines), len(ls)))
        lines += ls
    out = _model(lines)
    complaints: List[dict] = []
    for c, (setup, steps, bad), (st, ln) in zip(cs, impl, bounds):
        complaints += bad + compare(c, setup, steps, out[st:st + ln])
    return len(cs), complaints


if __name__ == "__main__":
    import json
    import sys
    import time
    from harness.lib import core
    sys.path.insert(1, str(core.REPO / "src"))
    import primaite
    print("primaite from", primaite.__file__)
    depth = int(sys.argv[1]) if len(sys.argv) > 1 else 2
    t0 = time.time()
    n, bad = run_family(depth)
    print(f"{n} traces, {len(bad)} complaints, {time.time() - t0:.1f}s")
    for c0 in bad[:3]:
        print(json.dumps({k: (v if k != "case" else {kk: v[kk] for kk in ("dn", "df", "actions")}) for k, v in c0.items()}, default=str)[:600])
