"""R-agent: drive the real scripted agents standalone (timesteps 0,1,2,… and synthetic simulator responses, every random
draw prescribed) and the Lean model (Drivers/C19.lean) on the same inputs; canonicalise both to lines and diff.

Every `random.randint / random.choice / random.random` the agents call is replaced, for the duration of one case, by a
stub that hands out the draws of the case and records the arguments of the call (so that the ranges assumed by the
theorems are checked against the ranges the code asks for).  numpy's Generator is NOT stubbed: the uniform it is about
to draw is read from a copy of the generator, and the model's inverse-CDF scan is compared with what numpy returns.
"""
from __future__ import annotations

import copy
import os
from fractions import Fraction
from typing import Any, Dict, List, Optional, Tuple

from harness.lib.core import Rng

DYADIC = [(0, 1), (1, 4), (1, 2), (3, 4), (1, 1)]            # probabilities exact in binary floating point
UNIFS = [(0, 8), (1, 8), (2, 8), (3, 8), (4, 8), (5, 8), (6, 8), (7, 8), (255, 256), (1, 1024)]


# ------------------------------------------------------------------------------------------------ RNG stub
class Draws:
    """Prescribed draws for one `get_action` (or constructor) call + a log of what the code asked for."""

    def __init__(self):
        self.sched: List[int] = []     # results of randint(-v, v), in call order
        self.scan: int = 0             # result of randint(0, n-1)
        self.u: float = 0.0            # result of random()
        self.k: int = 0                # index random.choice picks
        self.kmap: List[tuple] = []    # [(list the code may hand to random.choice, prescribed index)] — looked up by content
        self.v: int = 0                # the variance in force: randint(-v, v) is a schedule draw, anything else a scan draw
        self.calls: List[tuple] = []
        self.problems: List[str] = []

    def randint(self, a, b):
        self.calls.append(("randint", a, b))
        if a > b:
            raise ValueError(f"empty range in randrange({a}, {b + 1})")
        if (a, b) == (-self.v, self.v) and (self.v != 0 or self.sched):
            v = self.sched.pop(0) if self.sched else None
            if v is None:
                self.problems.append(f"more randint(-v,v) calls than the model provides ({a},{b})")
                v = 0
        else:
            v = self.scan
        if not (a <= v <= b):
            self.problems.append(f"prescribed draw {v} outside the range randint({a},{b}) the code asked for")
        return v

    def choice(self, xs):
        self.calls.append(("choice", len(xs)))
        if not len(xs):
            raise IndexError("Cannot choose from an empty sequence")
        k = next((kk for lst, kk in self.kmap if [str(x) for x in xs] == [str(x) for x in lst]), self.k)
        if k >= len(xs):
            self.problems.append(f"prescribed choice index {k} outside sequence of length {len(xs)}")
            return xs[0]
        return xs[k]

    def random(self):
        self.calls.append(("random",))
        return self.u


class patched_rng:
    def __init__(self):
        self.d = Draws()

    def __enter__(self):
        import random

        import primaite.game.science as science
        self._saved = (random.randint, random.choice, science.random)
        random.randint = lambda a, b: self.d.randint(a, b)
        random.choice = lambda xs: self.d.choice(xs)
        science.random = lambda: self.d.random()
        return self

    def fresh(self, v: int = 0) -> Draws:
        self.d = Draws()
        self.d.v = v
        return self.d

    def __exit__(self, *exc):
        import random

        import primaite.game.science as science
        random.randint, random.choice, science.random = self._saved
        return False


def _agent_from(cfg: dict):
    from primaite.game.agent.interface import AbstractAgent
    import primaite.game.agent.scripted_agents  # noqa: F401  (registers the agent classes)
    return AbstractAgent.from_config(copy.deepcopy(cfg))


def bi(x) -> str:
    return "1" if x else "0"


def game_call(agent, t: int):
    """Call `get_action` the way `PrimaiteGame.apply_agent_actions` does (`Gen.Agents.gameGetActionCall`)."""
    return agent.get_action(None, timestep=t)


# ================================================================================================ periodic / dm
def gen_periodic(rng: Rng, malformed: bool = False) -> dict:
    kind = rng.choice(["periodic", "periodic", "dm"])
    f = rng.range(1, 7)
    v = rng.range(0, f - 1)
    start = rng.range(0, 12)
    sv = rng.range(0, 4)
    mx = rng.choice([0, 1, 2, 3, 999999])
    n = rng.range(1, 3)
    if malformed:
        w = rng.below(6)
        if w == 0:
            v = f + rng.range(0, 2)          # rejected by the validator
        elif w == 1:
            n = 0                            # empty possible_start_nodes
        elif w == 2:
            sv = -rng.range(1, 3)            # randint on an empty range in the constructor
        elif w == 3:
            f, v = rng.range(-3, 0), rng.range(-6, -4)   # passes the validator, negative variance
        elif w == 4:
            start = -rng.range(1, 5)
        else:
            sv = start + rng.range(1, 4)     # start variance larger than start step
    d0 = rng.range(-sv, sv) if sv >= 0 else 0
    steps = []
    for _ in range(rng.range(5, 40)):
        steps.append([rng.range(-v, v) if v >= 0 else 0, rng.below(n) if n else 0])
    nodes = rng.shuffle(["cl-a", "cl-b", "cl-c"])[:n]
    app = rng.choice(["the-app", "web-browser", "database-client"] + ([None] if kind == "dm" else []))   # None: the dm default
    return {"agent": kind, "start": start, "sv": sv, "f": f, "v": v, "max": mx, "n": n, "nodes": nodes, "app": app, "d0": d0, "steps": steps}


def periodic_nodes(case: dict) -> List[str]:
    return case.get("nodes", [f"node{i}" for i in range(case["n"])])


def periodic_app(case: dict) -> str:
    """The application the agent is configured with (`data-manipulation-bot` when a dm case leaves it out: Gen.dmDefaultApplication)."""
    a = case.get("app", "the-app")
    return "data-manipulation-bot" if a is None else a


def periodic_cfg(case: dict) -> dict:
    kind = case["agent"]
    settings = {"start_step": case["start"], "start_variance": case["sv"], "frequency": case["f"], "variance": case["v"],
                "possible_start_nodes": list(periodic_nodes(case))}
    if case.get("app", "the-app") is not None:
        settings["target_application"] = case.get("app", "the-app")
    if kind == "periodic" or case["max"] != 999999:
        settings["max_executions"] = case["max"]
    return {"ref": "a", "team": "GREEN", "type": "periodic-agent" if kind == "periodic" else "red-database-corrupting-agent",
            "agent_settings": settings}


def run_periodic(case: dict) -> Tuple[List[str], List[str]]:
    out, problems = [], []
    with patched_rng() as pr:
        d = pr.fresh(case["sv"])
        d.sched = [case["d0"]]
        try:
            agent = _agent_from(periodic_cfg(case))
        except Exception:
            agent = None
        if agent is None:
            out.append("raised")
        else:
            out.append(f"ok {agent.next_execution_timestep}")
            if case["sv"] >= 0:
                want = [("randint", -case["sv"], case["sv"])] + ([("randint", 0, 0)] if case["agent"] == "dm" else [])
                if d.calls != want:
                    problems.append(f"constructor draws {d.calls} != {want}")
        problems += d.problems
        dead = agent is None
        drawn = False            # `start_node` is a cached property: random.choice is called ONCE per agent, in the first call that acts
        for t, (dd, k) in enumerate(case["steps"]):
            if dead:
                out.append("bad-op" if agent is None else f"raised {agent.next_execution_timestep} {agent.num_executions}")
                continue
            d = pr.fresh(case["v"])
            d.sched, d.k = [dd], k
            try:
                act, par = game_call(agent, t)
            except Exception:
                dead = True
                out.append("raised")
                continue
            if act == "do-nothing" and par == {}:
                o = "nothing"
            elif act == "node-application-execute":
                o = "exec " + canon_action(act, par)
                if ("randint", -case["v"], case["v"]) not in d.calls:
                    problems.append(f"step {t}: schedule draw range {d.calls} != randint({-case['v']},{case['v']})")
            else:
                o = f"other:{act}:{par}"
            out.append(f"{o} {agent.next_execution_timestep} {agent.num_executions}")
            n_choice = sum(1 for c in d.calls if c[0] == "choice")
            if n_choice and (drawn or n_choice > 1 or not o.startswith("exec")):
                problems.append(f"step {t}: start node drawn again / outside the first acting call ({n_choice} random.choice calls, drawn before: {drawn}, answer {o.split()[0]})")
            drawn = drawn or n_choice > 0
            if o.startswith("exec") and not drawn:
                problems.append(f"step {t}: the agent acts without ever having drawn its start node in get_action")
            problems += d.problems
    return out, problems


def lines_periodic(case: dict) -> List[str]:
    ls = [f"p-init {case['agent']} {case['start']} {case['sv']} {case['f']} {case['v']} {case['max']} "
          f"{','.join(periodic_nodes(case)) or '-'} {periodic_app(case)} {case['d0']}"]
    for t, (d, k) in enumerate(case["steps"]):
        ls.append(f"p-step {t} {d} {k}")
    return ls


def norm_periodic(impl: List[str], model: List[str]) -> Tuple[List[str], List[str]]:
    """After an exception the implementation's fields are not compared (Python leaves partial updates behind)."""
    a, b = [], []
    for x, y in zip(impl, model):
        if x.startswith("raised") or y.startswith("raised"):
            x, y = x.split()[0], y.split()[0]
        a.append(x)
        b.append(y)
    return a, b


# ================================================================================================ probabilistic
def gen_prob(rng: Rng, malformed: bool = False) -> dict:
    n = rng.range(1, 6)
    m = rng.choice([2, 4, 8, 16])
    # weights: composition of m into n parts with zeros likely
    ws = [0] * n
    for _ in range(m):
        ws[rng.below(n) if rng.chance(2, 3) else rng.below(max(1, n // 2))] += 1
    keys = rng.shuffle(list(range(n))) if rng.chance(3, 4) else list(range(n))
    table = [[k, ws[k]] for k in keys]
    n_actions = n
    if malformed:
        w = rng.below(3)
        if w == 0 and n > 1:
            table = [[k + 1 if k == n - 1 else k, wt] for k, wt in table]    # key n instead of n-1: validator rejects
        elif w == 1:
            n_actions = n + 1                                                # action map and table differ in size
        else:
            n_actions = max(0, n - 1)
    return {"agent": "prob", "table": table, "den": m, "n_actions": n_actions, "draws": rng.range(3, 12), "seed": rng.below(1 << 30)}


def run_prob(case: dict) -> Tuple[List[str], List[str], List[str]]:
    """Returns (impl answers, model lines, problems). The model lines need the uniforms numpy is about to draw."""
    import numpy as np
    den = case["den"]
    probs = {int(k): w / den for k, w in case["table"]}       # insertion order = order of `table`
    cfg = {"ref": "g", "team": "GREEN", "type": "probabilistic-agent",
           "agent_settings": {"action_probabilities": probs},
           "action_space": {"action_map": {i: {"action": "node-shutdown", "options": {"node_name": f"n{i}"}}
                                           for i in range(case["n_actions"])}}}
    tb = ",".join(f"{k}:{w}" for k, w in case["table"]) or "-"
    out, lines, problems = [], [], []
    try:
        agent = _agent_from(cfg)
    except Exception:
        agent = None
    order = vector_order_of_impl()
    agent_rng = np.random.default_rng(case["seed"])
    if agent is not None:
        agent.rng = agent_rng
    for _ in range(case["draws"]):
        u = copy.deepcopy(agent_rng).random()
        fr = Fraction(u)
        lines.append(f"prob {order} {case['n_actions']} {fr.numerator} {fr.denominator} {tb}")
        if agent is None:
            out.append("rejected")
            continue
        try:
            act, par = game_call(agent, 0)
            out.append(f"chose {int(par['node_name'][1:])}")
        except Exception:
            out.append("raised")
            agent_rng.random()      # keep the two streams aligned when numpy raised before drawing
    return out, lines, problems


# ------------------------------------------------------------------------------------------------ probabilistic, sums off 1
PN_DEN = 1 << 30          # probabilities are multiples of 2^-30: exact in binary floating point, sums exact
PN_DELTAS = [0, 0, 0, 1, -1, 8, -8, 16, -16, 17, -17, 32, -32, 256, -256, 1000, -1000, 2048, -2048]
# in units of 2^-30: 16 = 2^-26 = numpy's atol exactly (accepted), 17 / 32 just outside (ValueError in get_action, the settings
# validator accepts up to 1e-6 ~ 1073 units), 2048 = 2^-19 rejected by the validator


def gen_probn(rng: Rng, malformed: bool = False) -> dict:
    n = rng.range(1, 6)
    units = [0] * n
    for _ in range(16):
        units[rng.below(n) if rng.chance(2, 3) else rng.below(max(1, n // 2))] += 1
    ws = [u << 26 for u in units]
    delta = rng.choice(PN_DELTAS)
    pos = [i for i, w in enumerate(ws) if w > 0]
    ws[rng.choice(pos)] += delta
    n_actions = n
    if malformed:
        w = rng.below(3)
        if w == 0 and n > 1:
            a = rng.choice(pos)
            b = rng.choice([i for i in range(n) if i != a])
            ws[a] += ws[b] + (1 << 26)    # a negative probability, sum unchanged: numpy raises "probabilities are not non-negative"
            ws[b] = -(1 << 26)
        elif w == 1:
            n_actions = n + 1
        else:
            n_actions = max(0, n - 1)
    keys = rng.shuffle(list(range(n))) if rng.chance(3, 4) else list(range(n))
    return {"agent": "probn", "table": [[k, ws[k]] for k in keys], "den": PN_DEN, "n_actions": n_actions,
            "draws": rng.range(3, 12), "seed": rng.below(1 << 30)}


def run_probn(case: dict) -> Tuple[List[str], List[str], List[str]]:
    """ProbabilisticAgent with probability vectors whose sum is off 1 by a few ulps / more than numpy's tolerance / more than
    the validator's, and with negative entries: model line `probn` (argument checks of `Generator.choice` modelled)."""
    import numpy as np
    den = case["den"]
    probs = {int(k): w / den for k, w in case["table"]}
    cfg = {"ref": "g", "team": "GREEN", "type": "probabilistic-agent",
           "agent_settings": {"action_probabilities": probs},
           "action_space": {"action_map": {i: {"action": "node-shutdown", "options": {"node_name": f"n{i}"}}
                                           for i in range(case["n_actions"])}}}
    tb = ",".join(f"{k}:{w}" for k, w in case["table"]) or "-"
    out, lines, problems = [], [], []
    if any(Fraction(w / den) != Fraction(w, den) for _, w in case["table"]):
        problems.append("rig: a probability of the case is not exact in binary floating point")
    try:
        agent = _agent_from(cfg)
    except Exception:
        agent = None
    order = vector_order_of_impl()
    by_key = dict((int(k), w) for k, w in case["table"])
    vec = [by_key.get(i, 0) for i in range(len(by_key))] if order == "key" else [w for _, w in case["table"]]
    total = sum(vec)
    bounds = [Fraction(sum(vec[:i + 1]), total) for i in range(len(vec))] if total > 0 else []
    agent_rng = np.random.default_rng(case["seed"])
    if agent is not None:
        agent.rng = agent_rng
    for _ in range(case["draws"]):
        u = copy.deepcopy(agent_rng).random()
        fr = Fraction(u)
        if any(abs(fr - b) < Fraction(1, 1 << 48) for b in bounds):
            agent_rng.random()          # within rounding distance of a cdf boundary: float and exact comparison may differ
            continue
        lines.append(f"probn {order} {case['n_actions']} {den} {fr.numerator} {fr.denominator} {tb}")
        if agent is None:
            out.append("rejected")
            continue
        try:
            act, par = game_call(agent, 0)
            out.append(f"chose {int(par['node_name'][1:])}")
        except Exception:
            out.append("raised")
            agent_rng.random()
    return out, lines, problems


_ORDER_CACHE: Dict[str, str] = {}


def vector_order_of_impl() -> str:
    """Which vector the implementation builds (cross-check of the extractor at run time): feed a two-entry table written
    in reverse key order and look at the vector."""
    if "o" not in _ORDER_CACHE:
        agent = _agent_from({"ref": "g", "team": "GREEN", "type": "probabilistic-agent",
                             "agent_settings": {"action_probabilities": {1: 0.25, 0: 0.75}},
                             "action_space": {"action_map": {i: {"action": "do-nothing", "options": {}} for i in range(2)}}})
        _ORDER_CACHE["o"] = "key" if list(agent.probabilities) == [0.75, 0.25] else "ins"
    return _ORDER_CACHE["o"]


# ================================================================================================ TAP001
ADDRS = ["192.168.230.0/29", "192.168.10.0/26", "192.168.20.0/30", "192.168.220.0/29", "10.9.0.0/24"]
TARGET_IP = "192.168.220.3"
OTHER_IPS = ["192.168.230.2", "192.168.10.5"]
START_NODES = ["pc-a", "pc-b", "pc-c"]
TARGET_IPS = ["192.168.220.4", "192.168.220.5"]
PORTS = {"HTTP": "80", "DNS": "53", "FTP": "21"}           # name in the settings -> validated value (cross-checked at run time)
PROTOS = {"TCP": "tcp", "UDP": "udp", "ICMP": "icmp"}


def start_nodes_of(case: dict) -> List[str]:
    return case.get("startNodes", START_NODES[:2])


def target_ips_of(case: dict) -> List[str]:
    return case.get("targetIps", [])


def target_of(case: dict) -> str:
    """The address `_select_target_ip` ends up with for the prescribed choice."""
    t = target_ips_of(case)
    return t[case.get("targetIdx", 0)] if t else TARGET_IP


def c2_of(case: dict) -> dict:
    return case.get("c2", {"name": "c2-srv", "ip": "8.8.8.8", "keepAlive": 5, "port": "HTTP", "proto": "TCP"})


def pay_of(case: dict) -> dict:
    return case.get("pay", {"folder": None, "user": "admin", "pass": "admin"})


def gen_sched(rng: Rng, malformed: bool) -> Tuple[int, int, int]:
    f = rng.range(1, 4)
    v = rng.range(0, 2) if rng.chance(1, 2) else 0
    start = rng.range(1, 6) + v
    if malformed:
        w = rng.below(4)
        if w == 0:
            start = rng.range(-2, 0)      # executes at step 0 with an empty history
        elif w == 1:
            v = -1                        # randint on an empty range
        elif w == 2:
            f, v = rng.range(-1, 1), rng.range(0, 3)   # frequency + draw may be <= 0
        else:
            v = f + rng.range(0, 3)
    return start, f, v


def gen_resp1(rng: Rng, fail_rate: int, lucky: bool = False) -> dict:
    ok = not rng.chance(fail_rate, 100)
    shape = rng.choice(["list", "dict", "dict"]) if not lucky else rng.choice(["list", "dict", "dict", "dict", "dict"])
    hosts_empty = rng.chance(1, 4) if not lucky else rng.chance(1, 10)
    contains = (not hosts_empty) and (rng.chance(1, 3) if not lucky else rng.chance(4, 5))
    pg = contains and shape == "dict" and (rng.chance(2, 3) if not lucky else rng.chance(9, 10))
    return {"ok": ok, "status": "success" if ok else rng.choice(["failure", "failure", "unreachable", "pending"]),
            "shape": shape, "hostsEmpty": hosts_empty, "containsTarget": contains, "hasPg": pg}


def gen_tap1(rng: Rng, malformed: bool = False) -> dict:
    start, f, v = gen_sched(rng, malformed and rng.chance(1, 2))
    n_addr = rng.range(1, 4)
    if malformed and rng.chance(1, 6):
        n_addr = 0
    pr = lambda: rng.choice(DYADIC) if rng.chance(1, 2) else (1, 1)  # noqa: E731
    n_start = rng.choice([0, 1, 2, 3])            # 0 = empty `starting_nodes`: the default node is used
    n_tgt = rng.choice([0, 0, 1, 2])
    case = {"agent": "tap1", "start": start, "f": f, "v": v, "rkc": rng.chance(1, 2), "rs": rng.chance(2, 3),
            "pP": pr(), "pC": pr(), "pY": pr(), "attempts": rng.choice([1, 2, 3, 5, 20]), "repeatScan": rng.chance(1, 2),
            "nAddr": n_addr, "exfil": rng.chance(2, 3), "corrupt": rng.chance(2, 3), "cont": rng.chance(1, 2),
            "startNodes": rng.shuffle(list(START_NODES))[:n_start], "startIdx": rng.below(max(n_start, 1)),
            "targetIps": TARGET_IPS[:n_tgt], "targetIdx": rng.below(max(n_tgt, 1)),
            "c2": {"name": rng.choice(["c2-srv", "isp-pub-srv"]), "ip": rng.choice(["8.8.8.8", "203.0.113.7"]),
                   "keepAlive": rng.choice([3, 5, 10]), "port": rng.choice(sorted(PORTS)), "proto": rng.choice(sorted(PROTOS))},
            "pay": {"folder": rng.choice([None, "loot"]), "user": rng.choice(["admin", "exf-user"]),
                    "pass": rng.choice(["admin", "exf-pass"])},
            "d0": rng.range(-v, v) if v >= 0 else 0, "steps": []}
    fail_rate = rng.choice([0, 0, 5, 15, 40])
    lucky = rng.chance(1, 2)        # scan responses that tend to find the target with an open database port
    if lucky:
        case["attempts"] = rng.choice([5, 20])
        fail_rate = rng.choice([0, 0, 5, 10])
    for _ in range(rng.range(10, 90) if not lucky else rng.range(40, 120)):
        case["steps"].append({"d1": rng.range(-v, v) if v >= 0 else 0, "d2": rng.range(-v, v) if v >= 0 else 0,
                              "u": rng.choice(UNIFS if not lucky else UNIFS[:4]), "dScan": rng.below(n_addr) if n_addr else 0,
                              "resp": gen_resp1(rng, fail_rate, lucky)})
    return case


def tap1_cfg(case: dict) -> dict:
    fl = lambda p: p[0] / p[1]  # noqa: E731
    c2, pay = c2_of(case), pay_of(case)
    return {"ref": "attacker", "team": "RED", "type": "tap-001", "agent_settings": {
        "start_step": case["start"], "frequency": case["f"], "variance": case["v"], "repeat_kill_chain": case["rkc"],
        "repeat_kill_chain_stages": case["rs"], "default_target_ip": TARGET_IP, "default_starting_node": "pc-default",
        "starting_nodes": list(start_nodes_of(case)), "target_ips": list(target_ips_of(case)), "kill_chain": {
            "ACTIVATE": {"probability": 1},
            "PROPAGATE": {"probability": fl(case["pP"]), "scan_attempts": case["attempts"], "repeat_scan": case["repeatScan"],
                          "network_addresses": ADDRS[:case["nAddr"]]},
            "COMMAND_AND_CONTROL": {"probability": fl(case["pC"]), "keep_alive_frequency": c2["keepAlive"], "masquerade_port": c2["port"],
                                    "masquerade_protocol": c2["proto"], "c2_server_name": c2["name"], "c2_server_ip": c2["ip"]},
            "PAYLOAD": {"probability": fl(case["pY"]), "exfiltrate": case["exfil"], "corrupt": case["corrupt"],
                        "exfiltration_folder_name": pay["folder"], "target_username": pay["user"], "target_password": pay["pass"],
                        "continue_on_failed_exfil": case["cont"]}}}}


def _data1(r: dict, target: str = TARGET_IP) -> dict:
    hosts = [] if r["hostsEmpty"] else [OTHER_IPS[0]] + ([target] if r["containsTarget"] else []) + [OTHER_IPS[1]]
    if r["shape"] == "list":
        return {"live_hosts": hosts}
    d = {}
    for h in hosts:
        d[h] = {"tcp": [80, 5432] if (h != target or r["hasPg"]) else [80], "udp": [5432]}
    return d


def _pv(k: str, v) -> str:
    """One parameter value as the driver prints it (`Drivers/C19.lean: showPVal1 / showPVal3`)."""
    if isinstance(v, bool):
        return "True" if v else "False"
    if v is None:
        return "None"
    if isinstance(v, (list, tuple)):
        return "<hosts>" if k == "target_ip_address" else ";".join(_pv("", x) for x in v)
    if k in ("target_port", "target_protocol"):
        from primaite.utils.validation.ip_protocol import PROTOCOL_LOOKUP
        from primaite.utils.validation.port import PORT_LOOKUP
        if k == "target_port" and v == PORT_LOOKUP["POSTGRES_SERVER"]:
            return "PORT_LOOKUP[POSTGRES_SERVER]"
        if k == "target_protocol" and v == PROTOCOL_LOOKUP["TCP"]:
            return "PROTOCOL_LOOKUP[TCP]"
    return str(v)


def canon_action(act: str, par: dict) -> str:
    """The full action (name and every parameter, in dictionary order) in the driver's format."""
    if not par:
        return f"{act} -"
    return act + " " + " ".join(f"{k}={_pv(k, v)}" for k, v in par.items())


def _canon_act1(agent, act: str, par: dict, case: dict) -> str:
    return canon_action(act, par)


def _state(agent) -> str:
    return (f"{agent.current_kill_chain_stage.name} {agent.next_kill_chain_stage.name} {agent.current_stage_progress.name} "
            f"{bi(agent.actions_concluded)} {agent.next_execution_timestep}")


def _run_tap(case: dict, cfg: dict, canon_act, make_response, sched_per_step, params=None) -> Tuple[List[str], List[str]]:
    from primaite.interface.request import RequestResponse
    out, problems = [], []
    v = case["v"]
    with patched_rng() as pr:
        d = pr.fresh(v)
        d.sched, d.k = [case["d0"]], case.get("startIdx", 0)
        d.kmap = [(cfg["agent_settings"].get("starting_nodes") or [], case.get("startIdx", 0)),
                  (cfg["agent_settings"].get("target_ips") or [], case.get("targetIdx", 0))]
        try:
            agent = _agent_from(cfg)
        except Exception:
            agent = None
        problems += d.problems
        if agent is None:
            return ["raised"] + ["bad-op"] * len(case["steps"]), problems
        want_choices = [("choice", len(x)) for x in (cfg["agent_settings"].get("starting_nodes"), cfg["agent_settings"].get("target_ips")) if x]
        got_choices = [c for c in d.calls if c[0] == "choice"]
        if got_choices != want_choices:
            problems.append(f"constructor: random.choice calls {got_choices}, the settings say {want_choices}")
        out.append("ok " + agent.starting_node + (f" {agent.target_ip}" if case["agent"] == "tap1" else "") + " " + _state(agent))
        dead = False
        for t, st in enumerate(case["steps"]):
            if dead:
                out.append("raised")
                continue
            d = pr.fresh(v)
            d.sched, d.u, d.scan = sched_per_step(st), st["u"][0] / st["u"][1], st.get("dScan", 0)
            try:
                act, par = game_call(agent, t)
            except Exception:
                if os.environ.get("C19_DEBUG"):
                    import traceback
                    traceback.print_exc()
                dead = True
                out.append("raised")
                continue
            problems += [f"step {t}: {p}" for p in d.problems]
            if sum(1 for c in d.calls if c[0] == "random") > 1:
                problems.append(f"step {t}: more than one probability trial in a step")
            for c in d.calls:
                if c[0] == "randint" and (c[1], c[2]) not in ((-v, v), (0, case.get("nAddr", 1) - 1)):
                    problems.append(f"step {t}: draw range {c} is neither the schedule's (-{v},{v}) nor the scan's")
            if params is not None:
                prev = case["steps"][t - 1]["resp"]["status"] if t else None
                problems += ["params: " + p for p in params.check(agent, t, act, par, prev)]
            try:
                req = agent.format_request(act, par)
            except Exception as e:
                req = ["unformattable", type(e).__name__]
                problems.append(f"step {t}: action {act} {par} cannot be formed into a request: {e}")
            resp = make_response(agent, st["resp"])
            agent.process_action_response(timestep=t, action=act, parameters=par, request=req,
                                          response=RequestResponse(status=st["resp"]["status"], data=resp), observation=None)
            out.append(f"{canon_act(agent, act, par, case)} | {_state(agent)}")
    return out, problems


def expected_params1(case: dict, agent, act: str, par: dict) -> Optional[dict]:
    """Parameter oracle for TAP001 (independent reading of `Tap1.actionParams`): the full parameter dict an action must
    carry, computed from the configuration of the case; node and scan target are taken from the action itself (they are
    compared with the model through the canonical line)."""
    kc = tap1_cfg(case)["agent_settings"]["kill_chain"]
    c2, pay = kc["COMMAND_AND_CONTROL"], kc["PAYLOAD"]
    TARGET_IP = target_of(case)     # noqa: N806  (the selected target address)
    # every action of the DOWNLOAD … COMMAND_AND_CONTROL stages runs on the selected start node, the `c2-server-*` actions of
    # PAYLOAD on the configured C2 server
    node = c2["c2_server_name"] if act.startswith("c2-server-") else agent.starting_node
    if act == "node-folder-create":
        return {"node_name": node, "folder_name": "downloads"}
    if act == "node-file-create":
        return {"node_name": node, "folder_name": "downloads", "file_name": "malware_dropper.ps1", "force": True}
    if act == "node-file-access":
        return {"node_name": node, "folder_name": "downloads", "file_name": "malware_dropper.ps1"}
    if act in ("node-application-install", "node-application-execute"):
        return {"node_name": node, "application_name": par.get("application_name")}      # name is part of the canonical line
    if act in ("node-nmap-ping-scan", "node-nmap-port-scan"):
        return {"source_node": node, "target_ip_address": par.get("target_ip_address"), "show": False}
    if act == "node-network-service-recon":
        from primaite.utils.validation.ip_protocol import PROTOCOL_LOOKUP
        from primaite.utils.validation.port import PORT_LOOKUP
        return {"source_node": node, "target_ip_address": par.get("target_ip_address"), "target_port": PORT_LOOKUP["POSTGRES_SERVER"],
                "target_protocol": PROTOCOL_LOOKUP["TCP"], "show": False}
    if act == "configure-c2-beacon":
        from primaite.utils.validation.ip_protocol import PROTOCOL_LOOKUP
        from primaite.utils.validation.port import PORT_LOOKUP
        # the settings schema stores port / protocol names as their validated values
        return {"node_name": node, "c2_server_ip_address": c2["c2_server_ip"], "keep_alive_frequency": c2["keep_alive_frequency"],
                "masquerade_port": PORT_LOOKUP[c2["masquerade_port"]], "masquerade_protocol": PROTOCOL_LOOKUP[c2["masquerade_protocol"]]}
    if act == "c2-server-ransomware-configure":
        return {"node_name": node, "server_ip_address": TARGET_IP, "payload": "ENCRYPT"}
    if act == "c2-server-data-exfiltrate":
        return {"node_name": node, "target_file_name": "database.db", "target_folder_name": "database",
                "exfiltration_folder_name": pay["exfiltration_folder_name"], "target_ip_address": TARGET_IP,
                "username": pay["target_username"], "password": pay["target_password"]}
    if act == "c2-server-ransomware-launch":
        return {"node_name": node}
    return None


def _same(a, b) -> bool:
    """Equality up to the `str()` of address objects."""
    if isinstance(a, dict) and isinstance(b, dict):
        return a.keys() == b.keys() and all(_same(a[k], b[k]) for k in a)
    if isinstance(a, (list, tuple)) and isinstance(b, (list, tuple)):
        return len(a) == len(b) and all(_same(x, y) for x, y in zip(a, b))
    return a == b or (not isinstance(a, bool) and not isinstance(b, bool) and str(a) == str(b))


class Params1:
    def __init__(self, case):
        self.case = case

    def check(self, agent, t, act, par, status_prev) -> List[str]:
        if act == "do-nothing":
            return []
        want = expected_params1(self.case, agent, act, par)
        if want is None:
            return [f"step {t}: action {act} is not one TAP001 is configured to use"]
        if not _same(par, want):
            return [f"step {t}: parameters of {act} are {par}, the settings say {want}"]
        return []


class Params3:
    """Parameter oracle for TAP003 (independent reading of `Tap3.actionParams`).  Tracks what the agent may know: the
    configured credentials, overwritten by every password change it sent that the simulator answered with success; the
    account changes are consumed in configured order, one per password-change action."""

    def __init__(self, case):
        self.case = case
        st = tap3_cfg(case)["agent_settings"]["kill_chain"]
        self.know = copy.deepcopy(st["PLANNING"]["starting_network_knowledge"]["credentials"])
        self.changes = st["MANIPULATION"]["account_changes"]
        self.acls = st["EXPLOIT"]["malicious_acls"]
        self.j = 0
        self.n_acl = 0               # ACL commands issued so far (main path)
        self.pending = None          # (host, credentials-to-be) of the password change sent in the previous step
        self.last = None             # (last non-idle action, its pending update)

    def check(self, agent, t, act, par, status_prev) -> List[str]:
        if self.pending is not None:
            if status_prev == "success":
                self.know[self.pending[0]] = {**self.know.get(self.pending[0], {}), **self.pending[1]}   # other keys (ip_address) are kept
            self.pending = None
        if act == "do-nothing":
            return []
        if self.last is not None and self.last[0] == (act, par):
            # the repeat-previous-action branch re-issues the last action unchanged after a failed response
            self.pending = self.last[1]
            return []
        bad_out = self._check(t, act, par)
        self.last = ((act, copy.deepcopy(par)), self.pending)
        return bad_out

    def _check(self, t, act, par) -> List[str]:
        sn = self.case.get("startNodes", [])
        start = sn[self.case.get("startIdx", 0)] if sn else _h(0)
        host_of_ip = {str(v.get("ip_address")): h for h, v in self.know.items() if "ip_address" in v}
        if act == "node-account-change-password":
            if self.j >= len(self.changes):
                return [f"step {t}: password change no. {self.j + 1} but only {len(self.changes)} account changes are configured"]
            ac = self.changes[self.j]
            self.j += 1
            want = {"node_name": start, "username": ac["username"], "current_password": self.know.get(start, {}).get("password"),
                    "new_password": ac["new_password"]}
            self.pending = (start, {"username": ac["username"], "password": ac["new_password"]})
            bad = ac["host"] != start
        elif act == "node-session-remote-login":
            h = host_of_ip.get(str(par.get("remote_ip")))
            k = self.know.get(h, {})
            want = {"node_name": start, "username": k.get("username"), "password": k.get("password"), "remote_ip": k.get("ip_address")}
            bad = h is None
        elif act == "node-send-remote-command" and len(par.get("command", [])) > 2 and par["command"][2] == "change_password":
            if self.j >= len(self.changes):
                return [f"step {t}: password change no. {self.j + 1} but only {len(self.changes)} account changes are configured"]
            ac = self.changes[self.j]
            self.j += 1
            h = ac["host"]
            k = self.know.get(h, {})
            want = {"node_name": start, "remote_ip": k.get("ip_address"),
                    "command": ["service", "user-manager", "change_password", ac["username"], k.get("password"), ac["new_password"]]}
            self.pending = (h, {"ip_address": k.get("ip_address"), "username": ac["username"], "password": ac["new_password"]})
            bad = False
        elif act == "node-send-remote-command":
            h = host_of_ip.get(str(par.get("remote_ip")))
            from primaite.utils.validation.port import PORT_LOOKUP
            pt = lambda x: PORT_LOOKUP.get(x, x) if isinstance(x, str) else x  # noqa: E731  (the schema stores validated port values)
            cands = [["acl", "add_rule", a["permission"], a["protocol_name"], str(a["src_ip"]), str(a["src_wildcard"]), pt(a["src_port"]),
                      str(a["dst_ip"]), str(a["dst_wildcard"]), pt(a["dst_port"]), a["position"]] for a in self.acls if a["target_router"] == h]
            # ACL rules are issued in configured order (cyclically: `_current_acl` is never reset by a failure or a restart)
            if cands and self.acls:
                nxt = self.acls[self.n_acl % len(self.acls)]
                self.n_acl += 1
                cands = [c for a, c in zip([a for a in self.acls if a["target_router"] == h], cands) if a is nxt] or [None]
            cmd = par.get("command")
            want = {"node_name": start, "remote_ip": self.know.get(h, {}).get("ip_address"),
                    "command": next((c for c in cands if _same(c, cmd)), cands[0] if cands else None)}
            bad = h is None
        else:
            return [f"step {t}: action {act} is not one TAP003 is configured to use"]
        if bad or not _same(par, want):
            return [f"step {t}: parameters of {act} are {par}, the settings (and the password changes sent so far) say {want}"]
        return []


def run_tap1(case: dict) -> Tuple[List[str], List[str]]:
    tgt = target_of(case)
    out, problems = _run_tap(case, tap1_cfg(case), _canon_act1, lambda agent, r: _data1(r, tgt), lambda st: [st["d1"], st["d2"]], Params1(case))
    from primaite.utils.validation.ip_protocol import PROTOCOL_LOOKUP
    from primaite.utils.validation.port import PORT_LOOKUP
    if any(str(PORT_LOOKUP[k]) != v for k, v in PORTS.items()) or any(str(PROTOCOL_LOOKUP[k]) != v for k, v in PROTOS.items()):
        problems.append("rig: PORTS / PROTOS tables differ from PORT_LOOKUP / PROTOCOL_LOOKUP")
    return out, problems


def _csv(xs) -> str:
    return ",".join(str(x) for x in xs) or "-"


def lines_tap1(case: dict) -> List[str]:
    c = case
    c2, pay = c2_of(c), pay_of(c)
    ls = [f"t1-init {c['start']} {c['f']} {c['v']} {bi(c['rkc'])} {bi(c['rs'])} {c['pP'][0]} {c['pP'][1]} {c['pC'][0]} {c['pC'][1]} "
          f"{c['pY'][0]} {c['pY'][1]} {c['attempts']} {bi(c['repeatScan'])} {bi(c['exfil'])} {bi(c['corrupt'])} "
          f"{bi(c['cont'])} {c['d0']} {c.get('startIdx', 0)} {c.get('targetIdx', 0)} "
          f"{_csv(start_nodes_of(c))} pc-default {_csv(target_ips_of(c))} {TARGET_IP} {_csv(ADDRS[:c['nAddr']])} "
          f"{c2['name']} {c2['ip']} {c2['keepAlive']} {PORTS[c2['port']]} {PROTOS[c2['proto']]} {pay['folder']} {pay['user']} {pay['pass']}"]
    for t, st in enumerate(case["steps"]):
        r = st["resp"]
        ls.append(f"t1-step {t} {st['d1']} {st['d2']} {st['u'][0]} {st['u'][1]} {st['dScan']} {bi(r['ok'])} {bi(r['hostsEmpty'])} "
                  f"{bi(r['containsTarget'])} {bi(r['hasPg'])}")
    return ls


# ================================================================================================ TAP003
def gen_tap3(rng: Rng, malformed: bool = False) -> dict:
    start, f, v = gen_sched(rng, malformed and rng.chance(1, 2))
    n_hosts = rng.range(2, 4)              # host 0 = starting node; others remote (routers / servers)
    accts = [rng.below(n_hosts) for _ in range(rng.range(0, 4))]
    acls = [rng.range(1, n_hosts - 1) for _ in range(rng.range(1, 3))]
    creds = [[h, 1 if h else rng.below(2)] for h in range(n_hosts)]
    if malformed:
        w = rng.below(4)
        if w == 0:
            acls = []                       # malicious_acls[0] → IndexError
        elif w == 1:
            creds = [c for c in creds if c[0] != rng.range(1, n_hosts - 1)]    # missing credentials → KeyError
        elif w == 2:
            creds = [[h, 0] for h, _ in creds]                                # no ip_address for remote hosts
    pr = lambda: rng.choice(DYADIC) if rng.chance(1, 2) else (1, 1)  # noqa: E731
    n_start = rng.choice([0, 0, 1, 2])           # `starting_nodes`: empty (default node host0) or a list the start node is drawn from
    case = {"agent": "tap3", "start": start, "f": f, "v": v, "rkc": rng.chance(1, 2), "rs": rng.chance(2, 3),
            "pPl": pr(), "pAc": pr(), "pMa": pr(), "pEx": rng.choice(DYADIC), "nHosts": n_hosts, "accts": accts, "acls": acls, "creds": creds,
            "startNodes": [_h(0), _h(1)][:n_start], "startIdx": rng.below(max(n_start, 1)),
            "d0": rng.range(-v, v) if v >= 0 else 0, "steps": []}
    fail_rate = rng.choice([0, 0, 5, 15, 40])
    for _ in range(rng.range(10, 90)):
        ok = not rng.chance(fail_rate, 100)
        case["steps"].append({"d1": rng.range(-v, v) if v >= 0 else 0, "u": rng.choice(UNIFS),
                              "resp": {"ok": ok, "status": "success" if ok else rng.choice(["failure", "failure", "unreachable", "pending"]),
                                       "hasReason": not (malformed and rng.chance(1, 8)),
                                       "hasLoginData": not (malformed and rng.chance(1, 8))}})
    return case


def _h(i: int) -> str:
    return f"host{i}"


def _ip(i: int) -> str:
    return f"10.0.{i}.1"


def tap3_cfg(case: dict) -> dict:
    fl = lambda p: p[0] / p[1]  # noqa: E731
    creds = {}
    for h, has_ip in case["creds"]:
        creds[_h(h)] = {"username": f"user{h}", "password": f"pw{h}"}
        if has_ip:
            creds[_h(h)]["ip_address"] = _ip(h)
    return {"ref": "insider", "team": "RED", "type": "tap-003", "agent_settings": {
        "start_step": case["start"], "frequency": case["f"], "variance": case["v"], "repeat_kill_chain": case["rkc"],
        "repeat_kill_chain_stages": case["rs"], "default_starting_node": _h(0), "starting_nodes": list(case.get("startNodes", [])),
        "kill_chain": {
            "PLANNING": {"probability": fl(case["pPl"]), "starting_network_knowledge": {"credentials": creds}},
            "ACCESS": {"probability": fl(case["pAc"])},
            "MANIPULATION": {"probability": fl(case["pMa"]),
                             "account_changes": [{"host": _h(h), "username": f"acct{j}", "new_password": f"new{j}"}
                                                 for j, h in enumerate(case["accts"])]},
            "EXPLOIT": {"probability": fl(case.get("pEx", (1, 1))), "malicious_acls": [acl_of(r, j + 1) for j, r in enumerate(case["acls"])]}}}}


def acl_of(r: int, pos: int) -> dict:
    """Malicious ACL no. `pos` (every field identifies its position; values that the schema stores unchanged)."""
    return {"target_router": _h(r), "position": pos, "permission": ["DENY", "PERMIT"][pos % 2],
            "src_ip": f"10.7.{pos}.0", "src_wildcard": "0.0.0.255", "dst_ip": ["ALL", f"10.8.{pos}.0"][pos % 2],
            "dst_wildcard": ["NONE", "0.0.0.127"][pos % 2],
            "src_port": ["ALL", 21][pos % 2], "dst_port": [80, 53, "ALL"][pos % 3], "protocol_name": ["tcp", "udp", "ALL"][pos % 3]}


ACL_FIELDS = ["permission", "protocol_name", "src_ip", "src_wildcard", "src_port", "dst_ip", "dst_wildcard", "dst_port", "position"]


def _canon_act3(agent, act: str, par: dict, case: dict) -> str:
    return canon_action(act, par)


def run_tap3(case: dict) -> Tuple[List[str], List[str]]:
    def resp(agent, r):
        d = {}
        if r["hasReason"]:
            d["reason"] = "synthetic"
        if r["hasLoginData"]:
            d["ip_address"] = "10.9.9.9"
            d["username"] = "admin"
        return d
    return _run_tap(case, tap3_cfg(case), _canon_act3, resp, lambda st: [st["d1"]], Params3(case))


def lines_tap3(case: dict) -> List[str]:
    c = case
    csv = lambda xs: ",".join(str(x) for x in xs) or "-"  # noqa: E731
    accts = csv(f"{_h(h)}:acct{j}:new{j}" for j, h in enumerate(c["accts"]))
    acls = csv(":".join([_h(r)] + [str(acl_of(r, j + 1)[k]) for k in ACL_FIELDS]) for j, r in enumerate(c["acls"]))
    creds = csv(f"{_h(h)}:user{h}:pw{h}:{_ip(h) if ip else '~'}" for h, ip in c["creds"])
    ls = [f"t3-init {c['start']} {c['f']} {c['v']} {bi(c['rkc'])} {bi(c['rs'])} {c['pPl'][0]} {c['pPl'][1]} {c['pAc'][0]} {c['pAc'][1]} "
          f"{c['pMa'][0]} {c['pMa'][1]} {c.get('pEx', (1, 1))[0]} {c.get('pEx', (1, 1))[1]} {c['d0']} {c.get('startIdx', 0)} "
          f"{csv(c.get('startNodes', []))} {_h(0)} {accts} {acls} {creds}"]
    for t, st in enumerate(case["steps"]):
        r = st["resp"]
        ls.append(f"t3-step {t} {st['d1']} {st['u'][0]} {st['u'][1]} {bi(r['ok'])} {bi(r['hasReason'])} {bi(r['hasLoginData'])}")
    return ls


# ================================================================================================ RandomAgent
def gen_rand(rng: Rng, malformed: bool = False) -> dict:
    n = rng.range(1, 6)
    if malformed:
        n = 0
    return {"agent": "rand", "n": n, "ks": [rng.below(max(n, 1)) for _ in range(rng.range(3, 12))]}


def run_rand(case: dict) -> Tuple[List[str], List[str], List[str]]:
    """RandomAgent through the game's calling convention; the integer `Discrete.sample()` returns is prescribed (and the
    size of the space it is asked of is recorded)."""
    from gymnasium import spaces
    n = case["n"]
    amap = {i: {"action": "node-shutdown", "options": {"node_name": f"n{i}"}} for i in range(n)}
    out, lines, problems = [], [], []
    try:
        agent = _agent_from({"ref": "r", "team": "GREEN", "type": "random-agent", "action_space": {"action_map": amap}})
    except Exception:
        agent = None
    saved = spaces.Discrete.sample
    cur = {"k": 0}

    def sample(self, mask=None, probability=None):
        if int(self.n) != n:
            problems.append(f"sample() asked of Discrete({self.n}), the action map has {n} entries")
        return cur["k"]
    spaces.Discrete.sample = sample
    try:
        for t, k in enumerate(case["ks"]):
            lines.append(f"rand {n} {k}")
            if agent is None:
                out.append("rejected")
                continue
            cur["k"] = k
            try:
                act, par = game_call(agent, t)
            except Exception:
                out.append("raised")
                continue
            hit = [i for i, v in amap.items() if (act, par) == (v["action"], v["options"])]
            out.append(f"chose {hit[0]}" if hit else f"outside-action-map:{act}:{par}")
    finally:
        spaces.Discrete.sample = saved
    return out, lines, problems


# ================================================================================================ dispatch
def gen_case(rng: Rng, kind: str, malformed: bool = False) -> dict:
    return {"periodic": gen_periodic, "prob": gen_prob, "probn": gen_probn, "tap1": gen_tap1, "tap3": gen_tap3,
            "rand": gen_rand}[kind](rng, malformed)


def kind_of(case: dict) -> str:
    a = case["agent"]
    return "periodic" if a in ("periodic", "dm") else a


def run_impl(case: dict) -> Tuple[List[str], List[str], List[str]]:
    """(impl answers, model lines, rig problems)"""
    k = kind_of(case)
    if k == "periodic":
        o, p = run_periodic(case)
        return o, lines_periodic(case), p
    if k == "prob":
        return run_prob(case)
    if k == "probn":
        return run_probn(case)
    if k == "rand":
        return run_rand(case)
    if k == "tap1":
        o, p = run_tap1(case)
        return o, lines_tap1(case), p
    o, p = run_tap3(case)
    return o, lines_tap3(case), p


def normalise(case: dict, impl: List[str], model: List[str]) -> Tuple[List[str], List[str]]:
    """Once either side has raised, only the fact of raising is compared (and everything after is `raised`/`bad-op`)."""
    a, b = [], []
    dead = False
    for x, y in zip(impl, model):
        if x.startswith("raised") or y.startswith("raised"):
            x, y = x.split()[0], y.split()[0]
            dead = True
        elif dead:
            x, y = x.split()[0], y.split()[0]
        a.append(x)
        b.append(y)
    if len(impl) != len(model):
        a.append(f"<{len(impl)} lines>")
        b.append(f"<{len(model)} lines>")
    return a, b
