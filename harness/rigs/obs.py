"""R-obs: drive the real observation classes (component level, on synthetic state dictionaries) and the real
PrimaiteGymEnv (trajectories), and the Lean model (Drivers/C02.lean) on the same inputs.

The model configuration is READ BACK from the real, constructed observation objects (so `from_config`, padding/truncation and
option inheritance are inside the loop being checked); states are the dictionaries `describe_state()` produces (or synthetic
ones of the same shape); ground truth (C09) is read from the simulator OBJECTS, never from `describe_state()`.
"""
from __future__ import annotations

from fractions import Fraction
from math import lcm
from typing import Any, Dict, List, Optional, Tuple

from harness.lib.core import Rng


# =============================================================================================== tokens
def T(s: Any) -> str:
    s = str(s)
    if s == "" or any(c.isspace() for c in s):
        raise ValueError(f"name {s!r} cannot be sent to the driver")
    return s


def B(b: Any) -> str:
    return "1" if b else "0"


def many(items: List[List[str]]) -> List[str]:
    out = [str(len(items))]
    for it in items:
        out += it
    return out


def opt(x: Optional[List[str]]) -> List[str]:
    return ["-"] if x is None else ["+"] + x


def _where(o, shape: List[Optional[str]]) -> Optional[List[str]]:
    """`where` must be ['network','nodes',<host>, …literal…, <name>, …]; returns the variable parts, or None for where=None."""
    w = o.where
    if w is None:
        return None
    w = list(w)
    pat = ["network", "nodes", None] + shape
    if len(w) != len(pat):
        raise ValueError(f"unsupported where {w} for {type(o).__name__}")
    got = []
    for a, b in zip(w, pat):
        if b is None:
            got.append(T(a))
        elif a != b:
            raise ValueError(f"unsupported where {w} for {type(o).__name__}")
    return got


def uid_tok(u) -> List[str]:
    """a folder's uuid as the model's identity token: `-` when there is none, else a number derived from it (same uuid, same number)"""
    if u is None:
        return ["-"]
    h = "".join(ch for ch in str(u) if ch in "0123456789abcdefABCDEF")[:12]
    return ["+", str(int(h, 16) if h else sum(map(ord, str(u))))]


def thr_tokens(o, prefix: str) -> List[str]:
    return [str(getattr(o, f"low_{prefix}_threshold")), str(getattr(o, f"med_{prefix}_threshold")),
            str(getattr(o, f"high_{prefix}_threshold"))]


def acl_lists(a) -> Tuple[list, list, list, list]:
    """The lists behind the object's `x_to_id` tables (de-duplicated by `__init__`), recovered from the tables themselves."""

    def back(d: dict) -> list:
        """a list whose `{p: i + 2 for i, p in enumerate(list)}` is exactly `d`: each key sits at its id - 2; a position no key claims
        (the table was built from a list with a repeated value: the LAST occurrence won) is filled with the next key to its right"""
        if not d:
            return []
        n = max(d.values()) - 1
        if min(d.values()) < 2 or len(set(d.values())) != len(d):
            raise ValueError(f"id table {d} cannot come from enumerate(list)")
        arr: list = [None] * n
        for k, v in d.items():
            arr[v - 2] = k
        for i in range(n - 2, -1, -1):
            if arr[i] is None:
                arr[i] = arr[i + 1]
        return arr
    return back(a.ip_to_id), back(a.wildcard_to_id), back(a.port_to_id), back(a.protocol_to_id)


def obj_tokens(o, top: bool = True, fresh: bool = False) -> List[str]:
    """Model configuration of a real observation object (including its current memory; `fresh` reports the memory of a newly
    constructed object instead, for comparison with what the model builds from the scenario)."""
    n = type(o).__name__
    if fresh:
        return _fresh_tokens(o, top)
    if n == "NullObservation":
        return ["null"]
    if n == "ServiceObservation":
        return ["svc"] * top + opt(_where(o, ["services", None])) + [B(o.services_requires_scan)]
    if n == "ApplicationObservation":
        return ["app"] * top + opt(_where(o, ["applications", None])) + [B(o.applications_requires_scan)] + thr_tokens(o, "app_execution")
    if n == "FileObservation":
        return (["file"] * top + opt(_where(o, ["file_system", "folders", None, "files", None])) + [B(o.include_num_access), B(o.file_system_requires_scan)]
                + thr_tokens(o, "file_access"))
    if n == "FolderObservation":
        return (["folder"] * top + opt(_where(o, ["file_system", "folders", None])) + [B(o.file_system_requires_scan), str(o.cached_obs["health_status"])]
                + uid_tok(getattr(o, "_cached_uuid", None)) + many([obj_tokens(f, False) for f in o.files]))
    if n == "NICObservation":
        w = _where(o, ["NICs", None])
        mt = o.monitored_traffic or {}
        tr = many([[T(str(p).lower())] + many([[str(int(q))] for q in (ports or [])]) for p, ports in mt.items()])
        li = getattr(o, "nmne_inbound_last_step", 0)
        lo = getattr(o, "nmne_outbound_last_step", 0)
        return ["nic"] * top + opt(w) + [B(o.include_nmne), str(li), str(lo)] + thr_tokens(o, "nmne") + tr
    if n == "PortObservation":
        return ["port"] * top + opt(_where(o, ["NICs", None]))
    if n == "LinkObservation":
        w = list(o.where)
        if w[:2] != ["network", "links"] or len(w) != 3:
            raise ValueError(f"unsupported link where {w}")
        a, b = w[2].split("<->")
        return ["link"] * top + [T(a), T(b)]
    if n == "LinksObservation":
        return ["links"] + many([obj_tokens(l, False) for l in o.links])
    if n == "ACLObservation":
        w = o.where
        if w is not None:
            w = list(w)
            if w[:2] != ["network", "nodes"] or len(w) != 5 or w[4] != "acl":
                raise ValueError(f"unsupported acl where {w}")
            w = [T(w[2]), T(w[3])]
        ips, wcs, ports, protos = acl_lists(o)
        return (["acl"] * top + opt(w) + [str(o.num_rules)] + many([[T(x)] for x in ips]) + many([[T(x)] for x in wcs])
                + many([[str(int(x))] for x in ports]) + many([[T(x)] for x in protos]))
    if n == "HostObservation":
        w = _where(o, [])
        return (["host"] * top + opt(w) + [B(o.include_num_access), B(o.include_users)]
                + many([obj_tokens(x, False) for x in o.services]) + many([obj_tokens(x, False) for x in o.applications])
                + many([obj_tokens(x, False) for x in o.folders]) + many([obj_tokens(x, False) for x in o.nics]))
    if n == "RouterObservation":
        w = _where(o, [])
        return ["router"] * top + opt(w) + [B(o.include_users)] + many([obj_tokens(x, False) for x in o.ports]) + obj_tokens(o.acl, False)
    if n == "FirewallObservation":
        w = _where(o, [])
        a = o.internal_inbound_acl
        ips, wcs, ports, protos = acl_lists(a)
        for other in (o.internal_outbound_acl, o.dmz_inbound_acl, o.dmz_outbound_acl, o.external_inbound_acl, o.external_outbound_acl):
            if acl_lists(other) != (ips, wcs, ports, protos) or other.num_rules != a.num_rules:
                raise ValueError("firewall ACL observations differ")
        return (["firewall"] * top + w + [str(a.num_rules)] + many([[T(x)] for x in ips]) + many([[T(x)] for x in wcs])
                + many([[str(int(x))] for x in ports]) + many([[T(x)] for x in protos]) + [B(o.include_users)])
    if n == "NodesObservation":
        return (["nodes"] + many([obj_tokens(x, False) for x in o.hosts]) + many([obj_tokens(x, False) for x in o.routers])
                + many([obj_tokens(x, False) for x in o.firewalls]))
    if n == "NestedObservation":
        return ["nested"] + many([[T(label)] + obj_tokens(c) for label, c in o.components.items()])
    raise ValueError(f"unsupported observation class {n}")


def _fresh_tokens(o, top: bool) -> List[str]:
    """obj_tokens with the mutable attributes (NMNE last-step counters, folder cache) as they are right after construction"""
    import copy
    n = type(o).__name__
    if n == "FolderObservation":
        c = copy.copy(o)
        c.cached_obs = {"health_status": 0}
        c._cached_uuid = None
        c.files = list(o.files)
        return obj_tokens(c, top)
    if n == "NICObservation":
        c = copy.copy(o)
        if hasattr(c, "nmne_inbound_last_step"):
            c.nmne_inbound_last_step = 0
            c.nmne_outbound_last_step = 0
        return obj_tokens(c, top)
    if n == "HostObservation":
        w = _where(o, [])
        return (["host"] * top + opt(w) + [B(o.include_num_access), B(o.include_users)]
                + many([obj_tokens(x, False) for x in o.services]) + many([obj_tokens(x, False) for x in o.applications])
                + many([_fresh_tokens(x, False) for x in o.folders]) + many([_fresh_tokens(x, False) for x in o.nics]))
    if n == "NodesObservation":
        return (["nodes"] + many([_fresh_tokens(x, False) for x in o.hosts]) + many([obj_tokens(x, False) for x in o.routers])
                + many([obj_tokens(x, False) for x in o.firewalls]))
    if n == "NestedObservation":
        return ["nested"] + many([[T(label)] + _fresh_tokens(c, True) for label, c in o.components.items()])
    return obj_tokens(o, top)


# ----------------------------------------------------------------------------------------------- the scenario's own words
class Unsupported(ValueError):
    pass


def _fld(d: dict, key: str, f) -> List[str]:
    """a ConfigSchema field as the scenario gives it: `~` absent, `-` null, `+ value`"""
    if key not in d:
        return ["~"]
    v = d[key]
    if v is None:
        return ["-"]
    return ["+"] + f(v)


def _b(v) -> List[str]:
    if not isinstance(v, bool):
        raise Unsupported(f"not a bool: {v!r}")
    return [B(v)]


def _n(v) -> List[str]:
    if isinstance(v, bool) or not isinstance(v, int) or v < 0:
        raise Unsupported(f"not a count: {v!r}")
    return [str(v)]


def _port(v) -> int:
    from primaite.utils.validation.port import PORT_LOOKUP
    if isinstance(v, str):
        v = PORT_LOOKUP[v]
    if isinstance(v, bool) or not isinstance(v, int) or v < 0:
        raise Unsupported(f"not a port: {v!r}")
    return v


def _proto(v) -> str:
    from primaite.utils.validation.ip_protocol import PROTOCOL_LOOKUP
    return T(PROTOCOL_LOOKUP.get(v, v)).lower()


def _traffic(v: dict) -> List[str]:
    return many([[_proto(p)] + many([[str(_port(q))] for q in (ports or [])]) for p, ports in v.items()])


def thr_cfg_tokens(th: Optional[dict]) -> List[str]:
    """a `thresholds` dictionary: `-` when falsy, else the three entries the observations look up"""
    if not th:
        return ["-"]
    out = ["+"]
    for key in ("app_executions", "file_access", "nmne"):
        e = th.get(key)
        out += ["-"] if e is None else ["+", str(int(e["low"])), str(int(e["medium"])), str(int(e["high"]))]
    return out


def _check_keys(d: dict, allowed: set, what: str):
    extra = set(d) - allowed
    if extra:
        raise Unsupported(f"{what}: option(s) {sorted(extra)} are not followed by the model")


def _strs(v) -> List[str]:
    return many([[T(x)] for x in v])


def _ports(v) -> List[str]:
    return many([[str(_port(x))] for x in v])


def _protos(v) -> List[str]:
    return many([[_proto(x)] for x in v])


def _acl_fields(d: dict) -> List[str]:
    return _fld(d, "ip_list", _strs) + _fld(d, "wildcard_list", _strs) + _fld(d, "port_list", _ports) + _fld(d, "protocol_list", _protos) + _fld(d, "num_rules", _n)


def raw_host_tokens(h: dict) -> List[str]:
    _check_keys(h, {"hostname", "services", "applications", "folders", "network_interfaces", "num_services", "num_applications", "num_folders",
                    "num_files", "num_nics", "include_nmne", "monitored_traffic", "include_num_access", "file_system_requires_scan",
                    "services_requires_scan", "applications_requires_scan", "include_users", "thresholds"}, "host")

    def svc(c):
        _check_keys(c, {"service_name", "services_requires_scan"}, "service")
        return [T(c["service_name"])] + _fld(c, "services_requires_scan", _b)

    def app(c):
        _check_keys(c, {"application_name", "applications_requires_scan"}, "application")
        return [T(c["application_name"])] + _fld(c, "applications_requires_scan", _b)

    def file(c):
        _check_keys(c, {"file_name", "include_num_access", "file_system_requires_scan"}, "file")
        return [T(c["file_name"])] + _fld(c, "include_num_access", _b) + _fld(c, "file_system_requires_scan", _b)

    def folder(c):
        _check_keys(c, {"folder_name", "files", "num_files", "include_num_access", "file_system_requires_scan"}, "folder")
        return ([T(c["folder_name"])] + many([file(x) for x in c.get("files", [])]) + _fld(c, "num_files", _n) + _fld(c, "include_num_access", _b)
                + _fld(c, "file_system_requires_scan", _b))

    def nic(c):
        _check_keys(c, {"nic_num", "include_nmne", "monitored_traffic"}, "network interface")
        return _n(c["nic_num"]) + _fld(c, "include_nmne", _b) + _fld(c, "monitored_traffic", _traffic)
    return ([T(h["hostname"])] + many([svc(c) for c in h.get("services", [])]) + many([app(c) for c in h.get("applications", [])])
            + many([folder(c) for c in h.get("folders", [])]) + many([nic(c) for c in h.get("network_interfaces", [])])
            + _fld(h, "num_services", _n) + _fld(h, "num_applications", _n) + _fld(h, "num_folders", _n) + _fld(h, "num_files", _n) + _fld(h, "num_nics", _n)
            + _fld(h, "include_nmne", _b) + _fld(h, "monitored_traffic", _traffic) + _fld(h, "include_num_access", _b)
            + _fld(h, "file_system_requires_scan", _b) + _fld(h, "services_requires_scan", _b) + _fld(h, "applications_requires_scan", _b)
            + _fld(h, "include_users", _b) + thr_cfg_tokens(h.get("thresholds")))


def raw_router_tokens(r: dict) -> List[str]:
    _check_keys(r, {"hostname", "ports", "num_ports", "acl", "ip_list", "wildcard_list", "port_list", "protocol_list", "num_rules", "include_users"}, "router")

    def acl(a):
        _check_keys(a, {"ip_list", "wildcard_list", "port_list", "protocol_list", "num_rules"}, "acl")
        return _acl_fields(a)
    return ([T(r["hostname"])] + _fld(r, "ports", lambda v: many([_n(c["port_id"]) for c in v])) + _fld(r, "num_ports", _n) + _fld(r, "acl", acl)
            + _acl_fields(r) + _fld(r, "include_users", _b))


def raw_firewall_tokens(f: dict) -> List[str]:
    _check_keys(f, {"hostname", "ip_list", "wildcard_list", "port_list", "protocol_list", "num_rules", "include_users"}, "firewall")
    return [T(f["hostname"])] + _acl_fields(f) + _fld(f, "include_users", _b)


def raw_nodes_tokens(o: dict) -> List[str]:
    _check_keys(o, {"hosts", "routers", "firewalls", "num_services", "num_applications", "num_folders", "num_files", "num_nics", "include_nmne",
                    "monitored_traffic", "include_num_access", "file_system_requires_scan", "services_requires_scan", "applications_requires_scan",
                    "include_users", "num_ports", "ip_list", "wildcard_list", "port_list", "protocol_list", "num_rules"}, "nodes")

    def scan(key):  # `bool = True`: absent or a value
        if key not in o:
            return ["~"]
        return ["+"] + _b(o[key])
    return (many([raw_host_tokens(h) for h in o.get("hosts", [])]) + many([raw_router_tokens(r) for r in o.get("routers", [])])
            + many([raw_firewall_tokens(f) for f in o.get("firewalls", [])])
            + _fld(o, "num_services", _n) + _fld(o, "num_applications", _n) + _fld(o, "num_folders", _n) + _fld(o, "num_files", _n) + _fld(o, "num_nics", _n)
            + _fld(o, "include_nmne", _b) + _fld(o, "monitored_traffic", _traffic) + _fld(o, "include_num_access", _b)
            + scan("file_system_requires_scan") + scan("services_requires_scan") + scan("applications_requires_scan") + _fld(o, "include_users", _b)
            + _fld(o, "num_ports", _n) + _acl_fields(o))


def raw_obs_tokens(osp: Optional[dict]) -> List[str]:
    """The agent's `observation_space` exactly as the scenario file words it → tokens of Model/ObsConfig.RawObs.
    Raises `Unsupported` for component types / options the model does not follow."""
    if osp is None:
        return ["null"]
    t = osp.get("type", "none")
    o = osp.get("options") or {}
    if t == "none":
        return ["null"]
    if t == "nodes":
        return ["nodes"] + raw_nodes_tokens(o)
    if t == "links":
        _check_keys(o, {"link_references"}, "links")
        rows = []
        for ref in o["link_references"]:
            a, _, b = ref.partition("<->")
            rows.append([T(a), T(b)])
        return ["links"] + many(rows)
    if t == "custom":
        _check_keys(o, {"components"}, "custom")
        rows = []
        for c in o.get("components", []):
            rows.append([T(c["label"])] + raw_obs_tokens({"type": c["type"], "options": c.get("options") or {}}))
        return ["nested"] + many(rows)
    raise Unsupported(f"observation type {t!r} is not followed by the model as a top-level / nested component")


def rawcfg_line(osp: Optional[dict], thresholds: Optional[dict]) -> str:
    return "rawcfg " + " ".join(thr_cfg_tokens(thresholds) + raw_obs_tokens(osp))


# ----------------------------------------------------------------------------------------------- every object of a tree
def walk(o, path: str = "") -> List[Tuple[str, Any]]:
    """(path, object) for the object and every observation object below it"""
    n = type(o).__name__
    out = [(path or "/", o)]
    kids: List[Tuple[str, Any]] = []
    if n == "NestedObservation":
        kids = [(str(k), c) for k, c in o.components.items()]
    elif n == "NodesObservation":
        kids = ([(f"HOST{i}", h) for i, h in enumerate(o.hosts)] + [(f"ROUTER{i}", r) for i, r in enumerate(o.routers)]
                + [(f"FIREWALL{i}", f) for i, f in enumerate(o.firewalls)])
    elif n == "HostObservation":
        kids = ([(f"SERVICES/{i + 1}", x) for i, x in enumerate(o.services)] + [(f"APPLICATIONS/{i + 1}", x) for i, x in enumerate(o.applications)]
                + [(f"FOLDERS/{i + 1}", x) for i, x in enumerate(o.folders)] + [(f"NICS/{i + 1}", x) for i, x in enumerate(o.nics)])
    elif n == "FolderObservation":
        kids = [(f"FILES/{i + 1}", x) for i, x in enumerate(o.files)]
    elif n == "RouterObservation":
        kids = [("ACL", o.acl)] + [(f"PORTS/{i + 1}", x) for i, x in enumerate(o.ports)]
    elif n == "FirewallObservation":
        kids = ([(f"PORTS/{i + 1}", x) for i, x in enumerate(o.ports)]
                + [(f"ACL/{a}", getattr(o, a)) for a in ACL_NAMES[1:]])
    elif n == "LinksObservation":
        kids = [(str(i + 1), x) for i, x in enumerate(o.links)]
    for k, c in kids:
        out += walk(c, f"{path}/{k}")
    return out


def shape(v: Any) -> Any:
    """the key structure of an observation / a space (canonical form), leaves forgotten"""
    if isinstance(v, dict):
        return {k: shape(x) for k, x in sorted(v.items())}
    return 0


def shape_diff(a: Any, b: Any, path: str = "") -> Optional[str]:
    if isinstance(a, dict) != isinstance(b, dict):
        return f"{path or '/'}: dict on one side only"
    if isinstance(a, dict):
        if set(a) != set(b):
            return f"{path or '/'}: keys {sorted(set(a) - set(b))} only left, {sorted(set(b) - set(a))} only right"
        for k in a:
            d = shape_diff(a[k], b[k], f"{path}/{k}")
            if d:
                return d
    return None


def full_state(root, ev: Dict[str, List[int]]) -> dict:
    """A state in which everything the tree points at EXISTS and every node is ON (so that no object answers with its default)."""
    st: Dict[str, Any] = {"network": {"nodes": {}, "links": {}}}

    def node(h):
        return st["network"]["nodes"].setdefault(h, {
            "operating_state": 1, "services": {"user-session-manager": {"operating_state": 1, "health_state_actual": 1, "health_state_visible": 1,
                                                                        "current_local_user": None, "active_remote_sessions": []}},
            "applications": {}, "file_system": {"folders": {}, "num_file_creations": 0, "num_file_deletions": 0}, "NICs": {},
            **{a: {"acl": {i: None for i in range(24)}} for a in ACL_NAMES}})
    for _, o in walk(root):
        n = type(o).__name__
        w = getattr(o, "where", None)
        if w is None or n in ("NestedObservation", "NodesObservation", "LinksObservation"):
            continue
        w = list(w)
        if n == "LinkObservation":
            st["network"]["links"][w[2]] = {"bandwidth": 100.0, "current_load": 50.0}
            continue
        if len(w) < 3 or w[:2] != ["network", "nodes"]:
            continue
        ns = node(w[2])
        if n == "ServiceObservation":
            ns["services"][w[4]] = {"operating_state": 1, "health_state_actual": 1, "health_state_visible": 1}
        elif n == "ApplicationObservation":
            ns["applications"][w[4]] = {"operating_state": 1, "health_state_actual": 1, "health_state_visible": 1, "num_executions": 1}
        elif n in ("FolderObservation", "FileObservation"):
            fo = ns["file_system"]["folders"].setdefault(w[5], {"health_status": 1, "visible_status": 1, "scanned_this_step": False, "files": {}})
            if n == "FileObservation":
                fo["files"][w[7]] = {"health_status": 1, "visible_status": 1, "num_access": 1}
        elif n in ("NICObservation", "PortObservation"):
            ns["NICs"][w[4]] = {"enabled": True, "speed": 100, "traffic": {}, "nmne": {}}
    return st


# ----------------------------------------------------------------------------------------------- exact numbers
def scale(values: List[Any]) -> List[int]:
    """floats (dyadic rationals) → integers in one common unit, exactly"""
    fr = [Fraction(v) for v in values]
    d = 1
    for f in fr:
        d = lcm(d, f.denominator)
    return [int(f * d) for f in fr]


def nic_state_tokens(num: int, ns: dict, with_nmne: bool = True) -> Tuple[List[str], List[Tuple[float, float]]]:
    """tokens and the (amount, speed) float pairs the implementation will bin (to recognise float boundary cases)"""
    traffic = ns.get("traffic", {}) or {}
    vals = [ns["speed"]]
    icmp = traffic.get("icmp")
    if icmp:
        vals += [icmp["inbound"], icmp["outbound"]]
    protos = []
    for p, entry in traffic.items():
        if p == "icmp" or not isinstance(entry, dict) or not entry:
            continue
        ports = []
        for port, d in entry.items():
            vals += [d["inbound"], d["outbound"]]
            ports.append(port)
        protos.append((p, ports))
    sc = scale(vals)
    it = iter(sc)
    speed = next(it)
    out = [str(num), B(ns["enabled"]), str(speed)]
    pairs = []
    if icmp:
        a, b = next(it), next(it)
        out += ["+", str(a), str(b)]
        pairs += [(icmp["inbound"], ns["speed"]), (icmp["outbound"], ns["speed"])]
    else:
        out += ["-"]
    pl = []
    for p, ports in protos:
        row = []
        for port in ports:
            a, b = next(it), next(it)
            row.append([str(int(port)), str(a), str(b)])
            d = traffic[p][port]
            pairs += [(d["inbound"], ns["speed"]), (d["outbound"], ns["speed"])]
        pl.append([T(p)] + many(row))
    out += many(pl)
    if "nmne" in ns:
        dd = ns["nmne"].get("direction", {})
        i = dd.get("inbound", {}).get("keywords", {}).get("*", 0)
        u = dd.get("outbound", {}).get("keywords", {}).get("*", 0)
        out += ["+", str(i), str(u)]
    else:
        out += ["-"]
    return out, pairs


def rule_tokens(r: Optional[dict]) -> List[str]:
    if r is None:
        return ["-"]

    def o(x, f=T):
        return ["-"] if x is None else ["+", f(x)]
    return (["+", str(r["action"])] + o(r["protocol"]) + o(r["src_ip_address"]) + o(r["src_wildcard_mask"]) + o(r["src_port"], lambda p: str(int(p)))
            + o(r["dst_ip_address"]) + o(r["dst_wildcard_mask"]) + o(r["dst_port"], lambda p: str(int(p))))


ACL_NAMES = ["acl", "internal_inbound_acl", "internal_outbound_acl", "dmz_inbound_acl", "dmz_outbound_acl", "external_inbound_acl",
             "external_outbound_acl"]


def state_tokens(state: dict) -> Tuple[List[str], List[Tuple[float, float]]]:
    nodes = []
    pairs: List[Tuple[float, float]] = []
    net = state.get("network", {})
    for name, ns in net.get("nodes", {}).items():
        row = [T(name), str(ns["operating_state"])]
        svcs = [[T(k), str(v["operating_state"]), str(v["health_state_actual"]), str(v["health_state_visible"]), "0"]
                for k, v in ns.get("services", {}).items()]
        apps = [[T(k), str(v["operating_state"]), str(v["health_state_actual"]), str(v["health_state_visible"]), str(v["num_executions"])]
                for k, v in ns.get("applications", {}).items()]
        fs = ns.get("file_system", {})
        folders = []
        for fk, fv in fs.get("folders", {}).items():
            files = [[T(k), str(v["health_status"]), str(v["visible_status"]), str(v["num_access"])] for k, v in fv.get("files", {}).items()]
            folders.append([T(fk), str(fv["health_status"]), str(fv["visible_status"]), B(fv["scanned_this_step"])] + uid_tok(fv.get("uuid")) + many(files))
        nics = []
        for num, nv in ns.get("NICs", {}).items():
            tk, pr = nic_state_tokens(int(num), nv)
            nics.append(tk)
            pairs += pr
        row += many(svcs) + many(apps) + many(folders) + many(nics)
        row += [str(fs.get("num_file_creations", 0)), str(fs.get("num_file_deletions", 0))]
        usm = ns.get("services", {}).get("user-session-manager")
        if usm is None:
            row += ["-"]
        else:
            row += ["+", B(usm["current_local_user"]), str(len(usm["active_remote_sessions"]))]
        acls = []
        for an in ACL_NAMES:
            if an in ns and isinstance(ns[an], dict) and "acl" in ns[an]:
                d = ns[an]["acl"]
                slots = [d[i] for i in range(len(d))]
                acls.append([an] + many([rule_tokens(r) for r in slots]))
        row += many(acls)
        nodes.append(row)
    links = []
    for ref, lv in net.get("links", {}).items():
        bw, load = scale([lv["bandwidth"], lv["current_load"]])
        links.append([T(ref), str(bw), str(load)])
        pairs.append((lv["current_load"], lv["bandwidth"]))
    return many(nodes) + many(links), pairs


def float_boundary(pairs: List[Tuple[float, float]]) -> bool:
    """True when some (amount, capacity) pair bins differently in floating point than exactly."""
    for x, b in pairs:
        if x == 0 or b == 0:
            continue
        exact = int(Fraction(x) * 9 / Fraction(b))
        if int(x / b * 9) != exact:
            return True
    return False


# =============================================================================================== values
def canon(v: Any) -> Any:
    """implementation observation → nested dict with string keys `s:…` / `n:…`"""
    if isinstance(v, dict):
        out = {}
        for k, x in v.items():
            kk = f"n:{int(k)}" if isinstance(k, int) and not isinstance(k, bool) else f"s:{k}"
            out[kk] = canon(x)
        return out
    if isinstance(v, bool):
        return int(v)
    return int(v)


def parse_val(tokens: List[str]) -> Any:
    pos = [0]

    def go():
        t = tokens[pos[0]]
        pos[0] += 1
        if t == "!":
            return "raised"
        if t == "{":
            d = {}
            while tokens[pos[0]] != "}":
                k = tokens[pos[0]]
                pos[0] += 1
                if k.startswith("si:"):
                    _, p, i = k.split(":")
                    k = f"s:{p}{i}"
                d[k] = go()
            pos[0] += 1
            return d
        if t[0] in "id":
            return int(t[1:])
        raise ValueError(f"bad value token {t}")
    v = go()
    if pos[0] != len(tokens):
        raise ValueError("trailing tokens")
    return v


def canon_space(sp) -> Any:
    from gymnasium import spaces
    if isinstance(sp, spaces.Discrete):
        if sp.start != 0:
            raise ValueError("Discrete with start != 0")
        return int(sp.n)
    if isinstance(sp, spaces.Dict):
        out = {}
        for k, x in sp.spaces.items():
            kk = f"n:{int(k)}" if isinstance(k, int) else f"s:{k}"
            out[kk] = canon_space(x)
        return out
    raise ValueError(f"unsupported space {type(sp).__name__}")


def strip_bins(v: Any) -> Any:
    """drop the float-binned sub-dictionaries (NIC `TRAFFIC`, link `PROTOCOLS`) from a canonical observation"""
    if isinstance(v, dict):
        return {k: strip_bins(x) for k, x in v.items() if k not in ("s:TRAFFIC", "s:PROTOCOLS")}
    return v


def first_diff(a: Any, b: Any, path: str = "") -> Optional[str]:
    if isinstance(a, dict) and isinstance(b, dict):
        for k in sorted(set(a) | set(b)):
            if k not in a or k not in b:
                return f"{path}/{k}: key only on one side"
            d = first_diff(a[k], b[k], f"{path}/{k}")
            if d:
                return d
        return None
    return None if a == b else f"{path}: impl={a!r} model={b!r}"


def leaves_out_of_space(obs: Any, sp: Any, path: str = "") -> List[str]:
    """paths of leaves / key sets of an implementation observation that are outside the (canonical) space"""
    bad = []
    if isinstance(sp, dict):
        if not isinstance(obs, dict):
            return [path + ":not-a-dict"]
        if set(obs) != set(sp):
            bad.append(path + ":keys " + ",".join(sorted(set(obs) ^ set(sp))))
        for k in obs:
            if k in sp:
                bad += leaves_out_of_space(obs[k], sp[k], f"{path}/{k}")
    else:
        if isinstance(obs, dict) or not (0 <= obs < sp):
            bad.append(path)
    return bad


# =============================================================================================== component-level generation
NODE_OPS = [1, 2, 3, 4]
HOSTS = ["pc_a", "srv-b", "ghost"]
SVC_NAMES = ["dns-client", "web-server", "ftp-server", "missing-svc"]
APP_NAMES = ["web-browser", "database-client", "missing-app"]
FOLDERS = ["root", "downloads", "nofolder"]
FILES = ["a.txt", "db.sql", "nofile"]
IPS = ["10.0.0.1", "10.0.0.2", "192.168.1.10", "192.168.1.12"]
WCS = ["0.0.0.1", "0.0.0.255", "0.0.255.255"]
PORTS = [21, 80, 443, 5432, 0]
PROTOS = ["tcp", "udp", "icmp"]


def gen_thresholds(rng: Rng) -> dict:
    if rng.chance(1, 2):
        return {}
    out = {}
    for key in ("app_executions", "file_access", "nmne"):
        if rng.chance(2, 3):
            lo = rng.range(-2, 4)
            me = lo + rng.range(1, 5)
            hi = me + rng.range(1, 6)
            if rng.chance(1, 8):
                # not strictly ascending: `_validate_thresholds` must refuse it wherever a component of this kind is constructed with it
                lo, me, hi = rng.choice([(lo, lo, hi), (lo, me, me), (me, lo, hi), (lo, hi, me), (hi, me, lo), (lo, lo, lo)])
            out[key] = {"low": lo, "medium": me, "high": hi}
    return out


def enum_values() -> Dict[str, List[int]]:
    """member values of the simulator enumerations, from the imported implementation (also cross-checks the Gen tables)"""
    from primaite.simulator.file_system.file_system_item_abc import FileSystemItemHealthStatus
    from primaite.simulator.network.hardware.node_operating_state import NodeOperatingState
    from primaite.simulator.network.hardware.nodes.network.router import ACLAction
    from primaite.simulator.system.applications.application import ApplicationOperatingState
    from primaite.simulator.system.services.service import ServiceOperatingState
    from primaite.simulator.system.software import SoftwareHealthState
    return {c.__name__: [m.value for m in c] for c in (NodeOperatingState, ServiceOperatingState, ApplicationOperatingState,
                                                       SoftwareHealthState, FileSystemItemHealthStatus, ACLAction)}


def gen_count(rng: Rng, top: int = 10) -> int:
    """a count from zero to past the top threshold"""
    return rng.choice([0, 0, 1, 2, 3, 4, 5, 6, 9, 10, 11, 12, top + 2, 50, 1000])


def gen_nic_state(rng: Rng, protos: List[str], ports: List[int]) -> dict:
    speed = rng.choice([100, 100.0, 1000, 10, 0.5, 8])
    ns = {"enabled": rng.chance(2, 3), "speed": speed, "traffic": {}}

    def amount():
        k = rng.below(16)
        if k == 0:
            return 0
        if k == 1:
            return speed  # exactly full
        if k == 2:
            return speed * rng.choice([1.5, 2, 10])  # above nominal speed (F-4)
        if k == 3:
            return speed * rng.range(1, 9) / 9  # float boundary region
        return rng.range(1, 4000) / 4096 * speed * rng.choice([0.001, 0.1, 1])
    if rng.chance(2, 3):
        for p in protos:
            if rng.chance(1, 4):
                continue
            if p == "icmp":
                ns["traffic"]["icmp"] = {"inbound": amount(), "outbound": amount()} if rng.chance(5, 6) else {}
            else:
                ns["traffic"][p] = {q: {"inbound": amount(), "outbound": amount()} for q in ports if rng.chance(2, 3)}
    if rng.chance(1, 2):  # this interface's own network settings capture: it publishes its `nmne` entry (each interface on its own)
        if rng.chance(1, 5):
            ns["nmne"] = {}
        else:
            ns["nmne"] = {"direction": {}}
            if rng.chance(3, 4):
                ns["nmne"]["direction"]["inbound"] = {"keywords": {"*": gen_count(rng)}}
            if rng.chance(3, 4):
                ns["nmne"]["direction"]["outbound"] = {"keywords": {"*": gen_count(rng)}}
    return ns


def gen_rule_state(rng: Rng, ev, known_ips: List[str], stray_ip: bool) -> dict:
    def o(xs):
        return None if rng.chance(1, 3) else rng.choice(xs)
    ips = known_ips + (["172.16.9.9"] if stray_ip else [])
    if len(known_ips) != len(set(known_ips)):
        ips = ips + [known_ips[0]] * 3  # a repeated list entry: name it often
    return {"action": rng.choice(ev["ACLAction"]), "protocol": o(PROTOS + ["ospf"]), "src_ip_address": o(ips) if ips else None,
            "src_wildcard_mask": o(WCS + ["0.0.0.3"]), "src_port": o(PORTS + [8080]), "dst_ip_address": o(ips) if ips else None,
            "dst_wildcard_mask": o(WCS), "dst_port": o(PORTS), "match_count": 0}


def gen_state(rng: Rng, ev, mon_protos: List[str], mon_ports: List[int], acl_ips: List[str], stray_ip: bool,
              slots: int = 24) -> dict:
    nodes = {}
    for h in HOSTS[:2] + (["ghost"] if rng.chance(1, 6) else []):
        if rng.chance(1, 8):
            continue  # node absent
        ns: Dict[str, Any] = {"operating_state": rng.choice(ev["NodeOperatingState"] + [1, 1, 1])}
        ns["services"] = {s: {"operating_state": rng.choice(ev["ServiceOperatingState"]), "health_state_actual": rng.choice(ev["SoftwareHealthState"]),
                              "health_state_visible": rng.choice(ev["SoftwareHealthState"])} for s in SVC_NAMES[:3] if rng.chance(3, 4)}
        ns["services"]["user-session-manager"] = {
            "operating_state": 1, "health_state_actual": 1, "health_state_visible": 0,
            "current_local_user": rng.choice([None, None, "admin", "bob"]), "active_remote_sessions": [f"s{i}" for i in range(rng.choice([0, 0, 1, 2, 3, 4, 7]))]}
        ns["applications"] = {a: {"operating_state": rng.choice(ev["ApplicationOperatingState"]), "health_state_actual": rng.choice(ev["SoftwareHealthState"]),
                                  "health_state_visible": rng.choice(ev["SoftwareHealthState"]), "num_executions": gen_count(rng)}
                              for a in APP_NAMES[:2] if rng.chance(3, 4)}
        folders = {}
        for f in FOLDERS[:2]:
            if rng.chance(1, 5):
                continue
            folders[f] = {"health_status": rng.choice(ev["FileSystemItemHealthStatus"]), "visible_status": rng.choice(ev["FileSystemItemHealthStatus"]),
                          "scanned_this_step": rng.chance(1, 3),
                          # which folder OBJECT it is: mostly the same one, now and then another under the same name, sometimes no uuid at all
                          **({} if rng.chance(1, 5) else {"uuid": rng.choice(["a1", "a1", "a1", "b2"])}),
                          "files": {x: {"health_status": rng.choice(ev["FileSystemItemHealthStatus"]), "visible_status": rng.choice(ev["FileSystemItemHealthStatus"]),
                                        "num_access": gen_count(rng)} for x in FILES[:2] if rng.chance(3, 4)}}
        ns["file_system"] = {"folders": folders, "num_file_creations": gen_count(rng, 3), "num_file_deletions": gen_count(rng, 3)}
        ns["NICs"] = {i: gen_nic_state(rng, mon_protos or PROTOS, mon_ports or [80]) for i in (1, 2, 3) if rng.chance(4, 5)}
        for an in ACL_NAMES:
            ns[an] = {"acl": {i: (gen_rule_state(rng, ev, acl_ips, stray_ip) if rng.chance(1, 4) else None) for i in range(slots)}}
        nodes[h] = ns
    links = {}
    for ref in ("pc_a:eth-1<->sw:eth-1", "sw:eth-2<->srv-b:eth-1"):
        if rng.chance(5, 6):
            bw = rng.choice([100, 100.0, 0.006, 1000])
            k = rng.below(6)
            load = 0 if k == 0 else bw if k == 1 else bw * rng.choice([1.5, 3]) if k == 2 else bw * rng.range(1, 9) / 9 if k == 3 else rng.range(1, 4000) / 4096 * bw
            links[ref] = {"bandwidth": bw, "current_load": load}
    return {"network": {"nodes": nodes, "links": links}}


def _maybe(rng: Rng, d: dict, key: str, value, num: int = 1, den: int = 3, null: bool = True):
    """give an option at this level with probability num/den; now and then as an explicit `null`"""
    if rng.chance(num, den):
        d[key] = None if (null and rng.chance(1, 8)) else value


def gen_traffic(rng: Rng) -> Optional[dict]:
    mt = {}
    for p in PROTOS:
        if rng.chance(2, 3):
            mt[p] = [] if p == "icmp" and rng.chance(1, 2) else [rng.choice([80, 443, 21, 5432]) for _ in range(rng.range(1, 3))]
    return mt


def gen_object(rng: Rng, defects: bool, invalid: bool = False) -> Tuple[Any, dict]:
    """A real observation object tree built through ObservationManager from a generated SCENARIO-style configuration, plus generation
    facts.  Every list (services / applications / folders / files / network_interfaces / router ports) is given explicitly with a
    length below, at and above its `num_*` (0 included) or left out; every inheritable option is given at nodes level, overridden per
    host / router / firewall, given as `null`, or (for the children's own options, which the parents overwrite) at child level; routers
    carry explicit `acl:` sub-configurations.  With `invalid`, one nodes-level option the validator demands is dropped.
    Returns (object or None when construction raised, facts)."""
    from primaite.game.agent.observations.observation_manager import ObservationManager
    thresholds = gen_thresholds(rng)
    mt = gen_traffic(rng) if rng.chance(2, 3) else None
    if mt == {} and rng.chance(1, 2):
        mt = None
    nrules = rng.choice([1, 2, 3, 8, 24])
    ips = [x for x in IPS if rng.chance(3, 4)]
    wcs = [x for x in WCS if rng.chance(3, 4)]
    ports = [x for x in PORTS if rng.chance(3, 4)]
    protos = [x for x in PROTOS if rng.chance(3, 4)]
    facts = {"dup": False, "many_rules": False, "stray_ip": False}
    if defects and rng.chance(1, 3):
        facts["many_rules"] = True
        nrules = rng.choice([25, 30])
    if defects and rng.chance(1, 3) and ips:
        facts["dup"] = True
        ips = ips + [ips[0]]
    if defects and rng.chance(1, 3):
        facts["stray_ip"] = True
    all_ips = list(ips)
    all_mt: Dict[str, list] = {k: list(v) for k, v in (mt or {}).items()}

    def note_mt(m):
        for k, v in (m or {}).items():
            all_mt.setdefault(k, [])
            all_mt[k] += [q for q in v if q not in all_mt[k]]

    def short_list(pool, lo=0, hi=4):
        k = rng.range(lo, hi)
        return [rng.choice(pool) for _ in range(k)] if rng.chance(1, 4) else list(pool[:k]) + [f"extra{i}" for i in range(max(0, k - len(pool)))]

    def host_cfg(h):
        c: Dict[str, Any] = {"hostname": h}
        if rng.chance(3, 4):
            c["services"] = [{"service_name": s} for s in short_list(SVC_NAMES)]
            for x in c["services"]:
                _maybe(rng, x, "services_requires_scan", rng.chance(1, 2), 1, 5)
        if rng.chance(3, 4):
            c["applications"] = [{"application_name": a} for a in short_list(APP_NAMES)]
            for x in c["applications"]:
                _maybe(rng, x, "applications_requires_scan", rng.chance(1, 2), 1, 5)
        if rng.chance(3, 4):
            c["folders"] = []
            for f in short_list(FOLDERS):
                fc: Dict[str, Any] = {"folder_name": f}
                if rng.chance(3, 4):
                    fc["files"] = [{"file_name": x} for x in short_list(FILES)]
                    for x in fc["files"]:
                        _maybe(rng, x, "include_num_access", rng.chance(1, 2), 1, 6)
                        _maybe(rng, x, "file_system_requires_scan", rng.chance(1, 2), 1, 6)
                _maybe(rng, fc, "num_files", rng.range(0, 4), 1, 5)
                _maybe(rng, fc, "include_num_access", rng.chance(1, 2), 1, 5)
                _maybe(rng, fc, "file_system_requires_scan", rng.chance(1, 2), 1, 5)
                c["folders"].append(fc)
        if rng.chance(1, 2):
            c["network_interfaces"] = []
            for _ in range(rng.range(0, 4)):
                nc: Dict[str, Any] = {"nic_num": rng.choice([1, 2, 3, 5])}
                _maybe(rng, nc, "include_nmne", rng.chance(1, 2), 1, 5)
                if rng.chance(1, 2):
                    nc["monitored_traffic"] = mt if rng.chance(2, 3) else gen_traffic(rng)
                    note_mt(nc["monitored_traffic"])
                c["network_interfaces"].append(nc)
        for k in ("num_services", "num_applications", "num_folders", "num_files", "num_nics"):
            _maybe(rng, c, k, rng.range(0, 4), 1, 4)
        for k in ("include_nmne", "include_num_access", "file_system_requires_scan", "services_requires_scan", "applications_requires_scan", "include_users"):
            _maybe(rng, c, k, rng.chance(1, 2), 1, 4)
        if rng.chance(1, 5):
            c["monitored_traffic"] = gen_traffic(rng)
            note_mt(c["monitored_traffic"])
        if rng.chance(1, 5):
            c["thresholds"] = gen_thresholds(rng)
        return c

    def with_repeat(xs: list) -> list:
        """now and then a value is listed twice (anywhere in the list): the id tables must be built from the distinct values"""
        if xs and rng.chance(1, 3):
            xs = list(xs)
            xs.insert(rng.range(0, len(xs)), rng.choice(xs))
            facts["dup"] = True
        return xs

    def acl_fields(d: dict, den: int):
        if rng.chance(1, den):
            d["ip_list"] = with_repeat([x for x in IPS if rng.chance(1, 2)])
            all_ips.extend(x for x in d["ip_list"] if x not in all_ips)
        if rng.chance(1, den):
            d["wildcard_list"] = with_repeat([x for x in WCS if rng.chance(1, 2)])
        if rng.chance(1, den):
            d["port_list"] = with_repeat([x for x in PORTS if rng.chance(1, 2)])
        if rng.chance(1, den):
            d["protocol_list"] = with_repeat([x for x in PROTOS if rng.chance(1, 2)])
        if rng.chance(1, den):
            d["num_rules"] = rng.choice([0, 1, 2, 5, 24])

    def router_cfg(h):
        c: Dict[str, Any] = {"hostname": h}
        if rng.chance(1, 2):
            c["ports"] = [{"port_id": rng.choice([1, 2, 3, 4, 7])} for _ in range(rng.range(0, 5))]
        _maybe(rng, c, "num_ports", rng.range(0, 4), 1, 3)
        if rng.chance(1, 3):
            c["acl"] = {}
            acl_fields(c["acl"], 2)
        acl_fields(c, 4)
        _maybe(rng, c, "include_users", rng.chance(1, 2), 1, 3)
        return c

    def firewall_cfg(h):
        c: Dict[str, Any] = {"hostname": h}
        acl_fields(c, 2)
        _maybe(rng, c, "include_users", rng.chance(1, 2), 1, 3)
        return c
    nodes_opts: Dict[str, Any] = {
        "hosts": [host_cfg(h) for h in HOSTS if rng.chance(2, 3)],
        "num_services": rng.range(0, 3), "num_applications": rng.range(0, 3), "num_folders": rng.range(0, 3), "num_files": rng.range(0, 3),
        "num_nics": rng.range(0, 3), "include_nmne": rng.chance(1, 2), "include_num_access": rng.chance(1, 2),
        "routers": [], "firewalls": [], "ip_list": ips, "wildcard_list": wcs, "port_list": ports, "protocol_list": protos,
        "num_rules": nrules, "num_ports": rng.range(0, 3),
    }
    for k in ("file_system_requires_scan", "services_requires_scan", "applications_requires_scan"):
        _maybe(rng, nodes_opts, k, rng.chance(1, 2), 2, 3, null=False)
    _maybe(rng, nodes_opts, "include_users", rng.chance(1, 2), 2, 3)
    if mt is not None or rng.chance(1, 2):
        nodes_opts["monitored_traffic"] = mt
    if rng.chance(1, 2):
        nodes_opts["routers"] = [router_cfg(rng.choice(HOSTS)) for _ in range(rng.range(1, 2))]
    if rng.chance(1, 2):
        nodes_opts["firewalls"] = [firewall_cfg(rng.choice(HOSTS))]
        if rng.chance(1, 2):  # the nodes-level lists (which a firewall without its own lists inherits) with repeated values
            for k in ("ip_list", "wildcard_list", "port_list", "protocol_list"):
                nodes_opts[k] = with_repeat(nodes_opts[k])
    if invalid:
        needed = (["num_services", "num_applications", "num_folders", "num_files", "num_nics", "include_nmne", "include_num_access"] if nodes_opts["hosts"] else []) \
            + (["num_ports", "ip_list", "wildcard_list", "port_list", "protocol_list", "num_rules"] if nodes_opts["routers"] else []) \
            + (["ip_list", "num_rules"] if nodes_opts["firewalls"] else [])
        if needed:
            k = rng.choice(needed)
            if rng.chance(1, 2):
                del nodes_opts[k]
            else:
                nodes_opts[k] = None
    comps = [{"type": "nodes", "label": "NODES", "options": nodes_opts}]
    if rng.chance(2, 3):
        refs = ["pc_a:eth-1<->sw:eth-1", "srv-b:eth-1<->sw:eth-2", "x:eth-1<->y:eth-1"]
        comps.append({"type": "links", "label": "LINKS", "options": {"link_references": [r for r in refs if rng.chance(2, 3)]}})
    if rng.chance(1, 3):
        comps.append({"type": "none", "label": "ICS", "options": {}})
    if rng.chance(1, 8):
        comps.append({"type": "custom", "label": "INNER", "options": {"components": [
            {"type": "links", "label": "L", "options": {"link_references": ["pc_a:eth-1<->sw:eth-1"]}}, {"type": "none", "label": "N", "options": {}}]}})
    cfg = {"type": "custom", "options": {"components": comps, "thresholds": thresholds}}
    facts.update({"cfg": cfg, "mt": all_mt or None, "ips": all_ips, "has_acl": bool(nodes_opts["routers"] or nodes_opts["firewalls"]),
                  "thresholds": thresholds, "invalid": invalid})
    obj = build_impl(cfg)
    return obj, facts


def split_cfg(cfg: dict) -> Tuple[dict, Optional[dict]]:
    """(observation_space as the scenario words it, game thresholds) of a generated manager configuration"""
    import copy
    osp = copy.deepcopy(cfg)
    th = osp["options"].pop("thresholds", None)
    return osp, th


def build_impl(cfg: dict):
    """ObservationManager(config).obs, or None when the construction raises (rejected configuration)"""
    import copy
    from primaite.game.agent.observations.observation_manager import ObservationManager
    try:
        return ObservationManager(config=copy.deepcopy(cfg)).obs  # the constructor rewrites the dictionary it is given
    except Exception as e:  # noqa: BLE001 - rejection is an outcome the model must predict
        build_impl.last_error = f"{type(e).__name__}: {str(e)[:200]}"
        return None


def observe_impl(obj, state: dict) -> Tuple[Any, Optional[str], Any]:
    """(canonical observation | 'raised', exception text, raw observation)"""
    try:
        raw = obj.observe(state)
    except Exception as e:  # noqa: BLE001 - every exception out of observe() is an outcome the model must predict
        return "raised", f"{type(e).__name__}: {e}", None
    return canon(raw), None, raw


def diagnose(obj_canon_space: Any, obs: Any, exc: Optional[str], facts: dict) -> dict:
    """Signature of a membership failure: which leaf / which exception, as narrowly as can be told from outside."""
    if obs == "raised":
        kind = "raises"
        e = exc or ""
        if e.startswith("KeyError"):
            key = e.split(":", 1)[1].strip()
            if key.strip("'").count(".") == 3:
                return {"kind": kind, "site": "ACLObservation.observe", "cause": "address-not-in-ip_list"}
            if key.isdigit() and int(key) >= 24:
                return {"kind": kind, "site": "ACLObservation.observe", "cause": "num_rules-exceeds-slots"}
            return {"kind": kind, "site": "observe", "cause": "KeyError " + key}
        return {"kind": kind, "site": "observe", "cause": e.split(":")[0]}
    bad = leaves_out_of_space(obs, obj_canon_space)
    if bad and ":keys " in bad[0]:
        under = bad[0].split(":keys ")[0].rsplit("/", 1)[-1].split(":", 1)[-1].rstrip("0123456789")
        return {"kind": "key-set-mismatch", "under": under or "<top>"}
    leaf = bad[0].rsplit("/", 1)[-1] if bad else "?"
    leaf = leaf.split(":", 1)[1] if leaf.startswith(("s:", "n:")) else leaf
    if leaf in ("source_ip_id", "dest_ip_id", "source_wildcard_id", "dest_wildcard_id", "source_port_id", "dest_port_id", "protocol_id") and facts.get("dup"):
        return {"kind": "leaf-out-of-range", "site": "ACLObservation.space", "cause": "repeated-list-entry"}
    return {"kind": "leaf-out-of-range", "leaf": leaf, "paths": bad[:3]}


# =============================================================================================== whole-environment side
SCENARIOS = [
    "src/primaite/config/_package_data/data_manipulation.yaml",
    "tests/assets/configs/firewall_actions_network.yaml",
    "tests/assets/configs/action_penalty.yaml",
    "tests/assets/configs/test_application_install.yaml",
    "tests/assets/configs/fixing_duration_one_item.yaml",
    "tests/assets/configs/test_primaite_session.yaml",
    "src/primaite/config/_package_data/uc7_config.yaml",
    "tests/assets/configs/shared_rewards.yaml",
    "tests/assets/configs/data_manipulation.yaml",
]


def load_cfg(rel: str) -> dict:
    import yaml
    from harness.lib.core import REPO
    cfg = yaml.safe_load((REPO / rel).read_text())
    io = cfg.setdefault("io_settings", {})
    for k in ("save_agent_actions", "save_step_metadata", "save_pcap_logs", "save_sys_logs", "save_agent_logs"):
        io[k] = False
    return cfg


NMNE_KEYWORDS = [["DELETE"], ["DELETE", "SELECT"], ["SELECT", "INSERT", "DELETE", "ENCRYPT"], []]


def gen_nmne_settings(rng: Rng, on: Optional[bool] = None) -> dict:
    """one NMNEConfig as a scenario may write it: capture on / off, several keyword sets, the capture_by_* flags"""
    d: Dict[str, Any] = {"capture_nmne": rng.chance(2, 3) if on is None else on, "nmne_capture_keywords": list(rng.choice(NMNE_KEYWORDS))}
    for k in ("capture_by_direction", "capture_by_ip_address", "capture_by_protocol", "capture_by_port", "capture_by_keyword"):
        if rng.chance(1, 5):
            d[k] = rng.chance(1, 2)
    return d


def gen_nmne_config(net_cfg: dict, rng: Rng) -> None:
    """the per-network `nmne_config` of a scenario: left as shipped / removed / `{}` / generated settings"""
    k = rng.below(5)
    if k == 0:
        return
    if k == 1:
        net_cfg.pop("nmne_config", None)
    elif k == 2:
        net_cfg["nmne_config"] = {}
    else:
        net_cfg["nmne_config"] = gen_nmne_settings(rng)


class NmneOverride:
    """the process-wide override `NetworkInterface.nmne_config = NMNEConfig(...)` for the duration of a block (always restored)"""

    def __init__(self, settings: Optional[dict]):
        self.settings = settings

    def __enter__(self):
        from primaite.simulator.network.hardware.base import NetworkInterface
        self.cls = NetworkInterface
        self.before = NetworkInterface.__dict__.get("nmne_config", None)
        if self.settings is not None:
            from primaite.simulator.network.nmne import NMNEConfig
            NetworkInterface.nmne_config = NMNEConfig(**self.settings)
        return self

    def __exit__(self, *a):
        self.cls.nmne_config = self.before
        return False


def mutate_cfg(cfg: dict, rng: Rng) -> dict:
    """Generated family around a shipped scenario: observation options toggled, NMNE capture toggled, thresholds, flattening."""
    import copy
    cfg = copy.deepcopy(cfg)
    sim = cfg.setdefault("simulation", {}).setdefault("network", {})
    gen_nmne_config(sim, rng)
    for agent in cfg.get("agents", []):
        osp = agent.get("observation_space")
        if not osp or osp.get("type") != "custom":
            continue
        if "agent_settings" in agent and rng.chance(1, 2):
            agent["agent_settings"]["flatten_obs"] = rng.chance(1, 2)
        for comp in osp["options"].get("components", []):
            if comp["type"] != "nodes":
                continue
            o = comp["options"]
            fw = [n["hostname"] for n in sim.get("nodes", []) if n.get("type") == "firewall"]
            if fw and "ip_list" in o and rng.chance(2, 3):
                o["firewalls"] = [{"hostname": h} for h in fw]
                o["include_users"] = rng.chance(1, 2)
            if o.get("routers") and rng.chance(1, 3):
                o["num_ports"] = rng.range(1, 5)
            if o.get("hosts"):
                for k in ("include_nmne", "include_num_access"):
                    o[k] = rng.chance(1, 2)
                for k in ("file_system_requires_scan", "services_requires_scan", "applications_requires_scan"):
                    if rng.chance(1, 2):
                        o[k] = rng.chance(1, 2)
                if rng.chance(1, 2):
                    o["monitored_traffic"] = {"icmp": ["NONE"], "tcp": ["HTTP", "POSTGRES_SERVER"], "udp": ["DNS"]}
                for k in ("num_services", "num_applications", "num_folders", "num_files", "num_nics"):
                    if rng.chance(1, 3):
                        o[k] = rng.range(0, 3)
    if rng.chance(1, 2):
        cfg.setdefault("game", {})["thresholds"] = {"nmne": {"low": 0, "medium": 1, "high": 2}, "file_access": {"low": 0, "medium": 1, "high": 3},
                                                   "app_executions": {"low": 0, "medium": 2, "high": 4}}
    return cfg


def make_env(cfg: dict):
    from primaite.session.environment import PrimaiteGymEnv
    return PrimaiteGymEnv(env_config=cfg)


def agents_with_obs(game) -> List[Tuple[str, Any]]:
    return [(n, a) for n, a in game.agents.items() if type(a.observation_manager.obs).__name__ != "NullObservation"]


# ----------------------------------------------------------------------------------------------- ground truth from objects
def _ekey(k):
    from enum import Enum
    return k.value if isinstance(k, Enum) else k


def nic_truth_tokens(num: int, nic) -> List[str]:
    traffic = {}
    for p, entry in nic.traffic.items():
        p = _ekey(p)
        if isinstance(entry, dict):
            entry = {_ekey(q): v for q, v in entry.items()}
        traffic[p] = entry
    ns = {"enabled": bool(nic.enabled), "speed": nic.speed, "traffic": traffic}
    tk, _ = nic_state_tokens(num, ns)
    tk = tk[:-1]  # drop the absent-nmne marker; truth carries the capture switch and the counters instead
    cap = bool(nic.nmne_settings.capture_nmne)  # the interface's OWN settings: process-wide override if assigned, else its network's
    dd = nic.nmne.get("direction", {}) if isinstance(nic.nmne, dict) else {}
    i = dd.get("inbound", {}).get("keywords", {}).get("*", 0)
    u = dd.get("outbound", {}).get("keywords", {}).get("*", 0)
    return tk + [B(cap), str(i), str(u)]


def rule_truth_tokens(r) -> List[str]:
    if r is None:
        return ["-"]

    def o(x, f=T):
        return ["-"] if x is None else ["+", f(x)]
    return (["+", str(r.action.value)] + o(r.protocol) + o(r.src_ip_address) + o(r.src_wildcard_mask) + o(r.src_port, lambda p: str(int(p)))
            + o(r.dst_ip_address) + o(r.dst_wildcard_mask) + o(r.dst_port, lambda p: str(int(p))))


def truth_tokens(sim) -> List[str]:
    """Ground truth read from the simulator objects (never from describe_state)."""
    from primaite.simulator.network.hardware.nodes.network.router import AccessControlList
    nodes = []
    for node in sim.network.nodes.values():
        row = [T(node.config.hostname), str(node.operating_state.value)]
        from primaite.simulator.system.services.ftp.ftp_service import FTPServiceABC
        svcs = [[T(s.name), str(s.operating_state.value), str(s.health_state_actual.value), str(s.health_state_visible.value), "0",
                 B(isinstance(s, FTPServiceABC) and not s._active)] for s in node.services.values()]
        apps = [[T(a.name), str(a.operating_state.value), str(a.health_state_actual.value), str(a.health_state_visible.value), str(a.num_executions), "0"]
                for a in node.applications.values()]

        def folder_row(f):
            def file_row(x):
                return [T(x.name), str(x.health_status.value), str(x.visible_health_status.value), str(x.num_access)]
            return ([T(f.name), str(f.health_status.value), str(f.visible_health_status.value), B(f._scanned_this_step)] + uid_tok(f.uuid)
                    + many([file_row(x) for x in f.files.values()]) + many([file_row(x) for x in f.deleted_files.values()]))
        fs = node.file_system
        row += many(svcs) + many(apps) + many([folder_row(f) for f in fs.folders.values()]) + many([folder_row(f) for f in fs.deleted_folders.values()])
        row += many([nic_truth_tokens(int(num), nic) for num, nic in node.network_interface.items()])
        row += [str(fs.num_file_creations), str(fs.num_file_deletions)]
        usm = node.software_manager.software.get("user-session-manager")
        if usm is None:
            row += ["0", "-", "0"]
        else:
            ls = usm.local_session
            row += ["1"] + (["-"] if ls is None else ["+", T(ls.user.username)]) + [str(len(usm.remote_sessions))]
        acls = []
        for an in ACL_NAMES:
            a = getattr(node, an, None)
            if isinstance(a, AccessControlList):
                acls.append([an] + many([rule_truth_tokens(r) for r in a.acl]))
        row += many(acls)
        nodes.append(row)
    links = []
    for link in sim.network.links.values():
        na, nb = link.endpoint_a._connected_node, link.endpoint_b._connected_node
        ha = na.config.hostname if na else None
        hb = nb.config.hostname if nb else None
        bw, load = scale([link.bandwidth, link.current_load])
        links.append([T(f"{ha}:eth-{link.endpoint_a.port_num}"), T(f"{hb}:eth-{link.endpoint_b.port_num}"), str(bw), str(load)])
    return many(nodes) + many(links)
