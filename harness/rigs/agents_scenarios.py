"""R-agent, scenario part: run the shipped UC2 / UC7 package scenarios with random blue actions (blue interference makes
red actions fail) and evaluate C19's oracles on every scripted agent's `history` and on the kill-chain stage sampled
after every step.  This is testing of the implementation against the property statement; the theorems are about the
model, the standalone rig (harness/rigs/agents.py) ties the model to the code, and this sweep looks for violations in
the composition with the real game loop."""
from __future__ import annotations

import copy
from typing import Dict, List

SCENARIOS = {
    "uc2": "data_manipulation.yaml",
    "uc7-tap001": "uc7_config.yaml",
    "uc7-tap003": "uc7_config_tap003.yaml",
}

TAP_CHAINS = {
    "tap-001": ["DOWNLOAD", "INSTALL", "ACTIVATE", "PROPAGATE", "COMMAND_AND_CONTROL", "PAYLOAD"],
    "tap-003": ["RECONNAISSANCE", "PLANNING", "ACCESS", "MANIPULATION", "EXPLOIT"],
}


def allowed(chain: List[str], repeat_kc: bool, repeat_stages: bool, a: str, b: str) -> bool:
    """Python transcription of `Tap1.Allowed` / `Tap3.Allowed` (Props/C19.lean)."""
    succ = {s: chain[j + 1] for j, s in enumerate(chain[:-1])}
    succ[chain[-1]] = "SUCCEEDED"
    if b == a or b == "FAILED":
        return True
    if a in succ and b == succ[a]:
        return True
    if a == "NOT_STARTED" and b == chain[0]:
        return True
    if repeat_kc and a in ("SUCCEEDED", "FAILED") and b in ("NOT_STARTED", chain[0]):
        return True
    if repeat_kc and not repeat_stages and b == "NOT_STARTED":
        return True
    return False


def _load(name: str, tweak) -> dict:
    from pathlib import Path

    import primaite
    import yaml
    with open(Path(primaite.__file__).parent / "config" / "_package_data" / SCENARIOS[name], "r") as f:
        cfg = yaml.safe_load(f)
    cfg.setdefault("io_settings", {})
    for k in ("save_agent_actions", "save_step_metadata", "save_pcap_logs", "save_sys_logs", "save_agent_logs"):
        cfg["io_settings"][k] = False
    if tweak:
        tweak(cfg)
    return cfg


def run_scenario(name: str, seed: int, steps: int, blue: str = "random", tweak_id: str = "") -> dict:
    """Returns {"violations": [...], "stats": {...}}."""
    import random

    import numpy as np
    from primaite.game.agent.scripted_agents.abstract_tap import AbstractTAP
    from primaite.game.agent.scripted_agents.data_manipulation_bot import DataManipulationAgent
    from primaite.game.agent.scripted_agents.probabilistic_agent import ProbabilisticAgent
    from primaite.game.agent.scripted_agents.random_agent import PeriodicAgent, RandomAgent
    from primaite.session.environment import PrimaiteGymEnv

    import logging
    logging.disable(logging.CRITICAL)      # the environment logs every reset to stdout
    random.seed(seed)
    np.random.seed(seed)
    cfg = _load(name, TWEAKS.get(tweak_id))
    env = PrimaiteGymEnv(env_config=cfg)
    env.reset(seed=seed)
    env.action_space.seed(seed)
    agents = env.game.agents
    taps = {n: a for n, a in agents.items() if isinstance(a, AbstractTAP)}
    samples: Dict[str, List[tuple]] = {n: [(a.current_kill_chain_stage.name, a.next_execution_timestep, a.actions_concluded)]
                                       for n, a in taps.items()}
    n_steps = 0
    env_error = None
    agent_error = None
    # blue's random actions are drawn only from action-map entries whose action name is registered: the shipped
    # uc7_config_tap003.yaml lists `router-acl-addrule` (unregistered) and the environment raises KeyError on it —
    # a scenario-file defect outside C19 (reported in design_notes/C19.md for C01/C20).
    from primaite.game.agent.actions.abstract import AbstractAction
    blue_map = env.agent.action_manager.action_map
    valid = [k for k, (nm, _) in blue_map.items() if nm in AbstractAction._registry]
    stats_invalid = len(blue_map) - len(valid)
    brng = np.random.default_rng(seed)
    for _ in range(steps):
        act = int(valid[brng.integers(len(valid))]) if blue == "random" else 0
        try:
            _, _, term, trunc, _ = env.step(act)
        except Exception as e:
            import traceback
            frames = traceback.extract_tb(e.__traceback__)
            in_agent = [f for f in frames if f.name == "get_action" and "/game/agent/" in f.filename]
            if in_agent:        # a scripted agent's get_action raised: the agent did not act as its settings say
                agent_error = {"agent": in_agent[-1].filename.split("/")[-1], "what": "scripted-agent-raised-in-get_action",
                               "detail": [n_steps, type(e).__name__, str(e).splitlines()[0][:120] if str(e) else ""]}
            # otherwise the environment itself raised (not an agent's get_action): outside C19, see design note
            env_error = f"{type(e).__name__}: {str(e).splitlines()[0][:160]}"
            break
        n_steps += 1
        for n, a in taps.items():
            samples[n].append((a.current_kill_chain_stage.name, a.next_execution_timestep, a.actions_concluded))
        if term or trunc:
            break
    viol, stats = ([agent_error] if agent_error else []), {"steps": n_steps, "agents": {}, "blue_actions_unregistered": stats_invalid, "env_error": env_error}
    for n, a in agents.items():
        hist = a.history
        acts = [(h.timestep, h.action, h.parameters, h.response.status) for h in hist]
        # `SimOk` (Props/C19Wf.lean): what the never-raises theorem assumes of the simulator, checked on every real response
        sim = stats.setdefault("simok", {"do-nothing": 0, "login-success": 0, "login-failure": 0, "login-failure-without-reason": 0})
        for h in hist:
            if h.action == "do-nothing":
                sim["do-nothing"] += 1
                if h.response.status != "success":
                    viol.append({"agent": n, "what": "simulator-answered-do-nothing-with-" + str(h.response.status), "detail": [h.timestep]})
                    break
            elif h.action == "node-session-remote-login":
                if h.response.status == "success":
                    sim["login-success"] += 1
                    if not {"ip_address", "username"} <= set(h.response.data or {}):
                        viol.append({"agent": n, "what": "successful-login-response-without-login-data", "detail": [h.timestep, sorted(h.response.data or {})]})
                        break
                else:
                    sim["login-failure"] += 1
                    sim["login-failure-without-reason"] += int("reason" not in (h.response.data or {}))
            elif h.action in ("node-nmap-ping-scan", "node-nmap-port-scan", "node-network-service-recon"):
                # `ScanSimOk` (Props/C19NoRaise1.lean, tie C19_gen_scan_resp_sites): a successful scan answer is `{"live_hosts": list}`
                # or a dict host -> dict protocol -> list of ports; any other answer carries a dict
                d = h.response.data
                key = "scan-success" if h.response.status == "success" else "scan-other"
                sim[key] = sim.get(key, 0) + 1
                shaped = isinstance(d, dict) and (h.response.status != "success" or (
                    isinstance(d.get("live_hosts"), list) if h.action == "node-nmap-ping-scan" else
                    all(isinstance(e, dict) and all(isinstance(ps, (list, tuple)) for ps in e.values()) for e in d.values())))
                if not shaped:
                    viol.append({"agent": n, "what": "scan-response-not-ScanSimOk", "detail": [h.timestep, h.action, repr(d)[:120]]})
                    break
        non_idle = [x for x in acts if x[1] != "do-nothing"]
        if isinstance(a, PeriodicAgent):          # includes DataManipulationAgent
            s = a.config.agent_settings
            times = [x[0] for x in non_idle]
            is_dm = isinstance(a, DataManipulationAgent)
            sv = 0 if is_dm else s.start_variance
            stats["agents"][n] = {"kind": "dm" if is_dm else "periodic", "actions": len(times),
                                  "failed": sum(1 for x in non_idle if x[3] != "success")}
            if times and not (s.start_step - sv <= times[0] <= s.start_step + sv):
                viol.append({"agent": n, "what": "first-action-outside-start-window", "detail": [times[0], s.start_step, sv]})
            for x, y in zip(times, times[1:]):
                if not (s.frequency - s.variance <= y - x <= s.frequency + s.variance):
                    viol.append({"agent": n, "what": "gap-outside-frequency-window", "detail": [x, y, s.frequency, s.variance]})
                    break
            if not is_dm and len(times) > s.max_executions:
                viol.append({"agent": n, "what": "more-than-max-executions", "detail": [len(times), s.max_executions]})
            nodes = {x[2].get("node_name") for x in non_idle}
            for x in non_idle:
                if x[1] != "node-application-execute" or x[2].get("application_name") != s.target_application \
                        or x[2].get("node_name") not in s.possible_start_nodes:
                    viol.append({"agent": n, "what": "action-not-the-configured-one", "detail": [x[1], x[2]]})
                    break
            if len(nodes) > 1:
                viol.append({"agent": n, "what": "start-node-changed", "detail": sorted(nodes)})
        elif isinstance(a, ProbabilisticAgent):
            probs = a.config.agent_settings.action_probabilities
            amap = a.action_manager.action_map
            zero = [(amap[i][0], amap[i][1]) for i in amap if probs.get(i, 0) == 0]
            ok = [(amap[i][0], amap[i][1]) for i in amap if probs.get(i, 0) > 0]
            stats["agents"][n] = {"kind": "prob", "actions": len(acts), "zero_entries": len(zero)}
            for x in acts:
                if (x[1], x[2]) not in ok:
                    viol.append({"agent": n, "what": "zero-probability-action-selected" if (x[1], x[2]) in zero
                                 else "action-outside-action-map", "detail": [x[0], x[1], x[2]]})
                    break
        elif isinstance(a, RandomAgent):
            amap = a.action_manager.action_map
            stats["agents"][n] = {"kind": "random", "actions": len(acts), "distinct": len({(x[1], str(x[2])) for x in acts})}
            for x in acts:
                if (x[1], x[2]) not in [(v[0], v[1]) for v in amap.values()]:
                    viol.append({"agent": n, "what": "action-outside-action-map", "detail": [x[0], x[1], x[2]]})
                    break
            if len(acts) != n_steps:
                viol.append({"agent": n, "what": "random-agent-did-not-act-every-step", "detail": [len(acts), n_steps]})
        elif isinstance(a, AbstractTAP):
            s = a.config.agent_settings
            chain = TAP_CHAINS[a.config.type]
            sm = samples[n]
            stages = [x[0] for x in sm]
            stats["agents"][n] = {"kind": a.config.type, "stages": [st for j, st in enumerate(stages) if j == 0 or stages[j - 1] != st],
                                  "actions": len(non_idle), "failed": sum(1 for x in non_idle if x[3] != "success")}
            for j in range(1, len(sm)):
                (a0, next0, conc0), (b0, next1, conc1) = sm[j - 1], sm[j]
                t = j - 1                                # the step that produced sample j ran get_action(t)
                if not allowed(chain, s.repeat_kill_chain, s.repeat_kill_chain_stages, a0, b0):
                    viol.append({"agent": n, "what": "stage-transition-not-allowed", "detail": [t, a0, b0]})
                    break
                item = hist[t] if t < len(hist) else None
                if item is not None and item.action != "do-nothing" and (t < next0 or conc0):
                    viol.append({"agent": n, "what": "acted-outside-execution-slot", "detail": [t, next0, conc0, item.action]})
                    break
                if next1 != next0 and not (t + s.frequency - s.variance <= next1 <= t + s.frequency + s.variance):
                    viol.append({"agent": n, "what": "next-execution-outside-frequency-window", "detail": [t, next1, s.frequency, s.variance]})
                    break
                if conc0 and not conc1:
                    viol.append({"agent": n, "what": "concluded-flag-cleared", "detail": [t]})
                    break
                if conc1 and not conc0 and (s.repeat_kill_chain or b0 not in ("SUCCEEDED", "FAILED")):
                    viol.append({"agent": n, "what": "concluded-against-settings", "detail": [t, b0, s.repeat_kill_chain]})
                    break
            # "only from its configured start nodes": the selected start node is a configured one, every action runs on it
            # (the c2-server-* actions of TAP001's PAYLOAD on the configured C2 server)
            if not ((s.starting_nodes and a.starting_node in s.starting_nodes) or
                    (not s.starting_nodes and a.starting_node == s.default_starting_node)):
                viol.append({"agent": n, "what": "start-node-not-configured", "detail": [a.starting_node, list(s.starting_nodes or []), s.default_starting_node]})
            c2_name = getattr(getattr(s.kill_chain, "COMMAND_AND_CONTROL", None), "c2_server_name", None)
            for x in non_idle:
                node = x[2].get("node_name", x[2].get("source_node"))
                want = c2_name if x[1].startswith("c2-server-") else a.starting_node
                if node != want:
                    viol.append({"agent": n, "what": "action-from-unconfigured-node", "detail": [x[0], x[1], node, want]})
                    break
            stats["agents"][n]["nodes"] = sorted({str(x[2].get("node_name", x[2].get("source_node"))) for x in non_idle})
            first = next((x[0] for x in non_idle), None)
            if first is not None and first < s.start_step - s.variance:
                viol.append({"agent": n, "what": "acted-before-start", "detail": [first, s.start_step, s.variance]})
    try:
        env.close()
    except Exception:
        pass
    logging.disable(logging.NOTSET)
    return {"violations": viol, "stats": stats}


def _tap(cfg: dict) -> dict:
    return next(a for a in cfg["agents"] if a["type"] in ("tap-001", "tap-003"))["agent_settings"]


def _fast(cfg):
    s = _tap(cfg)
    s["start_step"], s["frequency"], s["variance"] = 2, 2, 0


def _fast_var(cfg):
    s = _tap(cfg)
    s["start_step"], s["frequency"], s["variance"] = 3, 3, 1


def _fast_repeat(cfg):
    s = _tap(cfg)
    s["start_step"], s["frequency"], s["variance"], s["repeat_kill_chain"] = 2, 2, 0, True


def _fast_norepeat_stages(cfg):
    s = _tap(cfg)
    s["start_step"], s["frequency"], s["variance"], s["repeat_kill_chain"], s["repeat_kill_chain_stages"] = 2, 2, 0, True, False


def _zero_start(cfg):
    """first execution slot = step 0 (empty history)"""
    s = _tap(cfg)
    s["start_step"], s["frequency"], s["variance"] = 0, 2, 0


def _early_var(cfg):
    """start_step − variance < 0: the first draw may schedule a negative first slot"""
    s = _tap(cfg)
    s["start_step"], s["frequency"], s["variance"] = 1, 3, 2


def _with_random_agent(cfg):
    """a `random-agent` added to the scenario, with the action map of the first probabilistic agent"""
    src = next(a for a in cfg["agents"] if a["type"] == "probabilistic-agent")
    cfg["agents"].append({"ref": "c19_random_agent", "team": "GREEN", "type": "random-agent",
                          "action_space": copy.deepcopy(src["action_space"])})


TWEAKS = {"zero-start": _zero_start, "early-var": _early_var, "random-agent": _with_random_agent, "": None, "fast": _fast, "fast-var": _fast_var, "fast-repeat": _fast_repeat, "fast-fail": _fast_norepeat_stages}


def run_all(ctx):
    plan = [("uc2", "", "random"), ("uc2", "", "idle"),
            ("uc7-tap001", "fast", "idle"), ("uc7-tap001", "fast", "random"), ("uc7-tap001", "fast-fail", "random"),
            ("uc7-tap003", "fast", "idle"), ("uc7-tap003", "fast-repeat", "random"),
            ("uc2", "random-agent", "random"), ("uc7-tap001", "zero-start", "idle"), ("uc7-tap003", "early-var", "random")]
    if ctx.thorough:
        plan += [(n, tw, b) for n in ("uc7-tap001", "uc7-tap003") for tw in ("fast-var", "fast-repeat", "fast-fail", "zero-start", "early-var", "")
                 for b in ("random", "idle")] + [("uc2", "", "random")] * 3
    steps = ctx.scale(70, 128)
    rng = ctx.rng.fork("scenarios")
    total = 0
    for name, tweak, blue in plan:
        seed = rng.below(1 << 20)
        res = run_scenario(name, seed, steps, blue, tweak)
        total += 1
        ctx.cov["traces_validated_against_impl"] += 1
        ctx.count(f"scenario:{name}:{tweak or 'shipped'}:{blue}")
        ctx.count("scenario:steps", res["stats"]["steps"])
        if res["stats"]["env_error"]:
            ctx.count("scenario:environment-raised-mid-episode (outside C19)")
            ctx.notes.append(f"{name}/{tweak or 'shipped'}/blue={blue}/seed={seed}: env.step raised after {res['stats']['steps']} steps: "
                             f"{res['stats']['env_error']} — oracles evaluated on the history up to that step")
        for k, v in res["stats"].get("simok", {}).items():
            ctx.count(f"scenario:SimOk:{k}", v)
        for n, st in res["stats"]["agents"].items():
            ctx.count(f"scenario:agent-kind:{st['kind']}")
            if "failed" in st:
                ctx.count(f"scenario:{st['kind']}:actions", st["actions"])
                ctx.count(f"scenario:{st['kind']}:actions-failed-under-blue", st["failed"])
            if "stages" in st:
                ctx.sample({"scenario": name, "tweak": tweak, "blue": blue, "agent": n, "stages": st["stages"]}, cap=12)
                for stg in set(st["stages"]):
                    ctx.count(f"scenario:{st['kind']}:runs-reaching:{stg}")
        ctx.case({"scenario": name, "tweak": tweak, "blue": blue, "seed": seed}, True)
        for v in res["violations"]:
            ctx.violation({"kind": "scenario-oracle", "what": v["what"], "scenario": name},
                          f"{name} ({tweak or 'shipped'}, blue={blue}, seed={seed}): agent {v['agent']}: {v['what']} {v['detail']}",
                          {"kind": "scenario", "scenario": name, "seed": seed, "steps": steps, "blue": blue, "tweak": tweak, "violation": v})
    ctx.oblige("rig:R-agent scenario oracles (UC2, UC7/TAP001, UC7/TAP003)", "oracle-sweep",
               not any(v["sig"].get("kind") == "scenario-oracle" for v in ctx.violations), f"{total} scenario runs")
