"""C01: scripted-agent SETTINGS inside real scenarios.

Two uses:
* search stage (DESIGN 3.5) for a broken `agents-total:<type>` obligation of a schedule-driven agent (periodic, data-manipulation,
  probabilistic, random): the failing STANDALONE case is mapped back into a scenario file - a shipped scenario that has an agent of that
  type gets that agent's `agent_settings` replaced by the settings of the failing case (the scenario's own node / application names are
  kept so that the actions stay meaningful) - and the environment is stepped past the failing timestep;
* boundary families of the env-level sample: the same substitution with boundary settings (max_executions 0/1/2, start_step 0,
  frequency 1, variance 0 and frequency-1, start_variance = start_step).
"""
from __future__ import annotations

import copy
from typing import Any, Dict, List, Optional, Tuple

from harness.lib import scen
from harness.lib.core import Rng
from harness.rigs import envrig

SCHEDULE_KEYS = ("start_step", "start_variance", "frequency", "variance", "max_executions")


_HOSTS: Dict[str, List[Tuple[str, Dict]]] = {}
# shipped files that are malformed on purpose or need a plug-in (the same list as harness/props/c01.py SKIP): never hosts
NOT_HOSTS = {"bad_primaite_session", "no_nodes_links_agents_network", "eval_only_primaite_session", "extended_config"}


def hosts(agent_type: str) -> List[Tuple[str, Dict]]:
    """Shipped single-RL-agent scenarios that contain an agent of this type, cheapest (fewest agents / nodes) first."""
    if agent_type in _HOSTS:
        return _HOSTS[agent_type]
    out = []
    for name, path in scen.shipped().items():
        if name in NOT_HOSTS:
            continue
        try:
            cfg = scen.load_cfg(path)
        except Exception:
            continue
        if len(envrig.proxy_agent_cfgs(cfg)) != 1:
            continue
        if any(a.get("type") == agent_type for a in cfg.get("agents", [])):
            nodes = len((((cfg.get("simulation") or {}).get("network") or {}).get("nodes")) or [])
            out.append((len(cfg["agents"]) * 100 + nodes, name, cfg))
    _HOSTS[agent_type] = [(n, c) for _, n, c in sorted(out, key=lambda x: (x[0], x[1]))]
    return _HOSTS[agent_type]


def with_settings(cfg: Dict, agent_type: str, overrides: Dict[str, Any], action_probabilities: Optional[Dict[int, float]] = None,
                  max_len: Optional[int] = None) -> Tuple[Dict, str]:
    """`cfg` with the FIRST agent of `agent_type` carrying `overrides` in its agent_settings.  Returns (cfg, agent ref)."""
    cfg = copy.deepcopy(cfg)
    ag = next(a for a in cfg["agents"] if a.get("type") == agent_type)
    st = dict(ag.get("agent_settings") or {})
    for k, v in overrides.items():
        if v is None:
            st.pop(k, None)
        else:
            st[k] = v
    if action_probabilities is not None:
        amap = ((ag.get("action_space") or {}).get("action_map")) or {0: {"action": "do-nothing", "options": {}}}
        entries = [amap[k] for k in sorted(amap)]
        n = len(action_probabilities)
        ag.setdefault("action_space", {})["action_map"] = {i: copy.deepcopy(entries[i % len(entries)]) for i in range(n)}
        st["action_probabilities"] = dict(action_probabilities)
    ag["agent_settings"] = st
    if max_len is not None:
        cfg.setdefault("game", {})["max_episode_length"] = max_len
    return cfg, ag.get("ref", "?")


def overrides_of_case(case: dict) -> Tuple[str, Dict[str, Any], Optional[Dict[int, float]]]:
    """(agent type, schedule overrides, probabilities) of a C19 standalone case."""
    a = case.get("agent")
    if a in ("periodic", "dm"):
        ov = {"start_step": case["start"], "start_variance": case["sv"], "frequency": case["f"], "variance": case["v"]}
        if a == "periodic" or case.get("max") != 999999:
            ov["max_executions"] = case["max"]
        return ("periodic-agent" if a == "periodic" else "red-database-corrupting-agent"), ov, None
    if a in ("prob", "probn"):
        den = case.get("den", 1)
        return "probabilistic-agent", {}, {int(k): w / den for k, w in case["table"]}
    return "random-agent", {}, None


def boundary_variants(rng: Rng, n: int) -> List[Dict[str, Any]]:
    """Boundary settings of the schedule-driven agents (all accepted by the schema: variance < frequency)."""
    pal: List[Dict[str, Any]] = []
    for mx in (0, 1, 2):
        for f, v in ((1, 0), (3, 0), (3, 2), (2, 1)):
            for start, sv in ((0, 0), (1, 1), (2, 0), (3, 3)):
                pal.append({"start_step": start, "start_variance": sv, "frequency": f, "variance": v, "max_executions": mx})
    # always: the smallest budget with the fastest schedule, then a seeded sample
    fixed = [{"start_step": 0, "start_variance": 0, "frequency": 1, "variance": 0, "max_executions": 1},
             {"start_step": 2, "start_variance": 0, "frequency": 3, "variance": 2, "max_executions": 2}]
    return fixed + rng.shuffle(pal)[:max(0, n - len(fixed))]


def steps_needed(ov: Dict[str, Any], cap: int = 60) -> int:
    """Enough steps to use the execution budget up and pass two more slots."""
    start = int(ov.get("start_step", 5)) + abs(int(ov.get("start_variance", 0) or 0))
    gap = int(ov.get("frequency", 5)) + abs(int(ov.get("variance", 0) or 0))
    mx = min(int(ov.get("max_executions", 3) if ov.get("max_executions") is not None else 3), 6)
    return max(6, min(cap, start + (mx + 2) * max(gap, 1) + 3))
