"""R-recv (C13, round 3): two REAL hosts on one link (a Computer `A` and a Server `B`) and the Lean two-node model
(Drivers/C13Recv.lean) driven with the same operation sequences.  What is compared after EVERY operation: the answer, the
list of `receive()` calls the operation caused on either node (object, "may act" at call time, return value) in call order,
and — for both nodes — the whole lifecycle / registry state line and the class data (DNS table, DNS cache, configured
servers, NTP time).

The `receive` of the modelled classes (DNSServer, DNSClient, NTPServer, NTPClient) is the REAL one and its sends travel the
REAL network (NIC, link, ARP, HostNode.receive_frame, SessionManager, SoftwareManager); the `receive` of every other class is
recorded and not run (its payload processing is not modelled).

Implementation-side oracles (independent of Lean), on every recorded `receive` call of a modelled class: an object that
may not act (node not ON or not RUNNING) must return a falsy value, keep its data and send nothing; plus the registry /
open-port oracles of R-svc on both nodes after every operation.

primaite is imported inside functions only.
"""
from __future__ import annotations

from typing import Any, Dict, List, Optional, Tuple

from harness.lib.core import Rng
from harness.rigs import software as base

MODELLED = ("DNSServer", "DNSClient", "NTPServer", "NTPClient", "WebServer", "WebBrowser")
IPS = {"A": "192.168.1.2", "B": "192.168.1.3"}
NAMES = ["x.test", "y.test", "z.test"]
ADDRS = [167772169, 167772170, 3232235800]          # 10.0.0.9, 10.0.0.10, 192.168.1.24
BOGUS = "192.168.1.77"                               # nobody has this address
PORTS = [53, 123, 80, 22]
# the URL pool: id -> (text, host spec of the model line, explicit port, path kind)
URLS = [
    ("http://x.test/", "name:x.test", None, "root"),
    ("http://x.test/users/", "name:x.test", None, "users"),
    ("http://y.test/other/page", "name:y.test", None, "other"),
    (f"http://{IPS['B']}/", f"addr:{int(__import__('ipaddress').IPv4Address(IPS['B']))}:{IPS['B']}", None, "root"),
    (f"http://{IPS['A']}/users", f"addr:{int(__import__('ipaddress').IPv4Address(IPS['A']))}:{IPS['A']}", None, "users"),
    ("http://x.test:8080/users", "name:x.test", 8080, "users"),
    ("http://z.test/", "name:z.test", None, "root"),
    ("http://x.test/users/list", "name:x.test", None, "users"),
]
URL_ID = {u[0]: i for i, u in enumerate(URLS)}
SVC_TYPES = ["dns-server", "ntp-server", "dns-client", "ntp-client", "ftp-server", "web-server"]
LIFE_NAMES = ["dns-client", "dns-server", "ntp-client", "ntp-server"]
LIFE_REQS = ["stop", "start", "pause", "resume", "restart", "disable", "enable"]

_CLOCK = [0]
_PATCHED = False


def ip_int(s) -> int:
    from ipaddress import IPv4Address
    return int(IPv4Address(str(s)))


def _patch_clock():
    """NTPServer.receive reads `datetime.now()`; make it read the answering node's clock (set by the receive recorder)."""
    global _PATCHED
    if _PATCHED:
        return
    from datetime import datetime, timedelta
    import primaite.simulator.system.services.ntp.ntp_server as mod

    class FakeDT:
        @staticmethod
        def now():
            return BASE_DT() + timedelta(seconds=_CLOCK[0])
    mod.datetime = FakeDT
    _PATCHED = True


def BASE_DT():
    from datetime import datetime
    return datetime(2020, 1, 1)


def dt_to_nat(t) -> Optional[int]:
    if t is None:
        return None
    return int((t - BASE_DT()).total_seconds())


class RecvImpl(base.Impl):
    """one real host of the two-node world"""

    def __init__(self, side: str, node_cfg: dict, guards: Dict[str, bool], world: "WorldImpl"):
        self.side = side
        self.world = world
        self.now = 1000 if side == "A" else 2000
        super().__init__(node_cfg, guards)

    def _adopt(self, obj):
        self.objs.append(obj)
        world, me = self.world, self
        cls_name = type(obj).__name__
        real = type(obj).receive

        def recorder(*a, _o=obj, **k):
            payload = k.get("payload", a[0] if a else None)
            kind = type(payload).__name__
            if kind not in ("DNSPacket", "NTPPacket", "dict", "PortScanPayload", "HttpRequestPacket", "HttpResponsePacket"):
                return real(_o, *a, **k)          # ARP / ICMP housekeeping of the real network: not part of the comparison
            can = bool(_o._can_perform_action())
            idx = len(world.log)
            world.log.append(None)                # reserve the slot: nested receive calls come after this one
            if cls_name not in MODELLED:
                world.log[idx] = (me.side, me.uid(_o), can, "-")
                return False
            before = data_of(_o)
            sends0 = world.sends[me.side]
            _CLOCK[0] = me.now
            ret = real(_o, *a, **k)
            world.log[idx] = (me.side, me.uid(_o), can, "t" if ret is True else ("f" if ret is False else ("n" if ret is None else "?")))
            if not can and (ret or data_of(_o) != before or world.sends[me.side] != sends0):
                world.oracle_hits.append(("payload-handled-while-not-running",
                                          f"{cls_name} on {me.side} while {_o.operating_state.name}/node {me.node.operating_state.name}: "
                                          f"ret={ret!r} data {before} -> {data_of(_o)} sends {world.sends[me.side] - sends0}", cls_name))
            return ret
        object.__setattr__(obj, "receive", recorder)
        _stub_db_client(self.node, obj)
        if hasattr(obj, "restore_backup"):
            object.__setattr__(obj, "restore_backup", lambda *a, **k: False)
            object.__setattr__(obj, "backup_database", lambda *a, **k: False)

    def data_lines(self, objs) -> List[str]:
        out = []
        for o in objs:
            d = data_of(o)
            if d is not None:
                out.append(f"{self.side} cfgdata {self.uid(o)} {d}")
        return out

    def ddump(self) -> str:
        parts = []
        for i, o in enumerate(self.objs):
            d = data_of(o)
            if d is None:
                continue
            kind, *rest = d.split(" ")
            parts.append(f"{i}:{kind}" + (f"[{';'.join(rest)}]" if rest else ""))
        return " ".join(parts)

    def ports_line(self) -> str:
        sm = self.sm
        open_ = ",".join(str(p) for p in sorted(set(int(p) for p in sm.get_open_ports())))
        # every port some installed software carries x every protocol some installed software carries (not only the own pairs)
        protos = sorted({o.protocol for o in sm.software.values()})
        chk = sorted({f"{int(o.port)}/{pr}={1 if sm.check_port_is_open(port=o.port, protocol=pr) else 0}"
                      for o in sm.software.values() for pr in protos})
        return f"OPEN[{open_}] CHECK[{','.join(chk)}]"


def kv(d: dict) -> str:
    return ",".join(f"{k}={ip_int(v)}" for k, v in d.items()) or "-"


def data_of(o) -> Optional[str]:
    """class data in the driver's `cfgdata` syntax (None: class not modelled)"""
    n = type(o).__name__
    if n == "DNSServer":
        return f"dnsserver {kv(o.dns_table)}"
    if n == "DNSClient":
        return f"dnsclient {ip_int(o.dns_server) if o.dns_server else '-'} {kv(o.dns_cache)}"
    if n == "NTPServer":
        return "ntpserver"
    if n == "WebServer":
        codes = ",".join("n" if c is None else str(int(c)) for c in o.response_codes_this_timestep) or "-"
        conn = getattr(o, "db_connection", None)
        return f"webserver {codes} {'-' if conn is None else (1 if conn.ok else 0)}"
    if n == "WebBrowser":
        lr = o.latest_response
        latest = "-" if lr is None else ("n" if lr.status_code is None else str(int(lr.status_code)))
        hist = ",".join(f"{URL_ID[h.url]}=" + ("U" if h.status.name != "LOADED" else ("n" if h.response_code is None else str(int(h.response_code))))
                        for h in o.history) or "-"
        tgt = o.config.target_url
        return f"webbrowser {latest} {hist} {'-' if tgt is None else URL_ID[tgt]}"
    if n == "NTPClient":
        t = dt_to_nat(o.time)
        return f"ntpclient {ip_int(o.config.ntp_server_ip) if o.config.ntp_server_ip else '-'} {'-' if t is None else t}"
    return None


_DB_OFFER: Dict[int, Optional[bool]] = {}   # id(node) -> what its database client hands out (None: no connection)


class FakeDbConnection:
    """what `DatabaseClient.get_new_connection()` hands to the web server; the database side is C17's subject and enters the
    payload model as a verdict: do the queries of this connection succeed"""

    def __init__(self, ok: bool):
        self.ok = ok

    def query(self, sql: str) -> bool:
        return self.ok


def _stub_db_client(node, obj):
    """a database client installed on the node hands out connections according to the node-level offer set by the rig"""
    if type(obj).__name__ == "DatabaseClient":
        def offer(*a, _n=node, **k):
            o = _DB_OFFER.get(id(_n))
            return None if o is None else FakeDbConnection(bool(o))
        object.__setattr__(obj, "get_new_connection", offer)


class WorldImpl:
    def __init__(self, guards: Dict[str, bool]):
        base.load()
        _patch_clock()
        from primaite.simulator.network.container import Network
        self.log: List[Any] = []
        self.oracle_hits: List[Tuple[str, str, str]] = []
        self.sends = {"A": 0, "B": 0}
        self.net = Network()
        self.impl: Dict[str, RecvImpl] = {}
        self.init_lines: List[str] = []
        for side, kind in (("A", "computer"), ("B", "server")):
            im = RecvImpl(side, {"power": "ON", "up": 0, "down": 0, "kind": kind, "ip": IPS[side], "hostname": "host_" + side}, guards, self)
            self.impl[side] = im
            self.net.add_node(im.node)
            sess = im.node.session_manager
            orig = sess.receive_payload_from_software_manager

            def counting(*a, _orig=orig, _s=side, **k):
                self.sends[_s] += 1
                return _orig(*a, **k)
            object.__setattr__(sess, "receive_payload_from_software_manager", counting)
            self.init_lines.append(f"{side} addr {ip_int(IPS[side])}")
            self.init_lines += [f"{side} {l}" for l in im.model_init]
            self.init_lines.append(f"{side} now {im.now}")
            self.init_lines += im.data_lines(im.objs)
        self.net.connect(self.impl["A"].node.network_interface[1], self.impl["B"].node.network_interface[1])

    def other(self, side: str) -> str:
        return "B" if side == "A" else "A"

    def take_log(self) -> str:
        out = " ".join(f"{s}.{u}:{1 if c else 0}:{r}" for (s, u, c, r) in [x for x in self.log if x is not None])
        self.log.clear()
        return out

    def answer(self, pre: str) -> str:
        lg = self.take_log()
        return f"{pre} | {lg}" if lg else pre

    def installed(self, side: str, name: str):
        return self.impl[side].sm.software.get(name)

    # -- one operation: returns list of (impl answer, model line); [] when the op is skipped
    def do(self, op: dict) -> List[Tuple[Optional[str], str]]:
        try:
            return self._do(op)
        except Exception as e:  # noqa  -- an exception escaping the real code IS an answer (the model never raises here)
            line = self._line_hint(op)
            if line is None:
                raise
            self.log.clear()
            return [(f"raised:{type(e).__name__}", line)]

    def _line_hint(self, op: dict) -> Optional[str]:
        """the model line of an operation whose real execution raised (only for the operations that carry traffic)"""
        k, side = op["op"], op.get("side")
        if k == "node" and op["nop"]["op"] == "tick":
            return f"wtick {side}"
        if k == "browse":
            o = self.installed(side, "web-browser")
            if o is None:
                return None
            uid = op["url"] if op["url"] is not None else (URL_ID[o.config.target_url] if o.config.target_url else None)
            if uid is None:
                return f"browse {side} {self.impl[side].uid(o)} -"
            text, host, port, path = URLS[uid]
            return f"browse {side} {self.impl[side].uid(o)} {uid} {host} {'-' if port is None else port} {path}"
        if k in ("lookup", "ntpreq"):
            o = self.installed(side, "dns-client" if k == "lookup" else "ntp-client")
            if o is None:
                return None
            return f"lookup {side} {self.impl[side].uid(o)} {op['name']}" if k == "lookup" else f"ntpreq {side} {self.impl[side].uid(o)}"
        if k == "inject":
            port = "0" if op["hdr"] == "icmp" else str(op["port"])
            return f"inject {side} {1 if op['via'] else 0} {op['hdr']} {port} {op['payload']}"
        return None

    def _do(self, op: dict) -> List[Tuple[Optional[str], str]]:
        from ipaddress import IPv4Address
        k = op["op"]
        self.log.clear()
        if k == "node":
            im = self.impl[op["side"]]
            n0 = len(im.objs)
            ans, line = im.do(op["nop"])
            if line is None:
                return []
            if op["nop"]["op"] == "tick":
                return [(self.answer(ans), f"wtick {op['side']}")]
            self.take_log()
            out = [(ans, f"{op['side']} {line}")]
            for l in im.data_lines(im.objs[n0:]):
                out.append(("ok", l))
            return out
        side = op.get("side")
        im = self.impl[side]
        if k == "now":
            im.now = op["t"]
            return [("ok", f"{side} now {op['t']}")]
        if k == "cfg":
            o = self.installed(side, "dns-client" if op["which"] == "dns" else "ntp-client")
            if o is None:
                return []
            tgt = {"peer": IPS[self.other(side)], "none": None, "bogus": BOGUS, "self": IPS[side]}[op["target"]]
            if op["which"] == "dns":
                o.config.dns_server = IPv4Address(tgt) if tgt else None
            else:
                o.config.ntp_server_ip = IPv4Address(tgt) if tgt else None
            return [("ok", f"{side} cfgdata {im.uid(o)} {data_of(o)}")]
        if k == "register":
            o = self.installed(side, "dns-server")
            if o is None:
                return []
            o.dns_register(op["name"], IPv4Address(op["ip"]))
            return [("ok", f"{side} register {im.uid(o)} {op['name']} {op['ip']}")]
        if k == "cache":
            o = self.installed(side, "dns-client")
            if o is None:
                return []
            r = o.add_domain_to_cache(op["name"], IPv4Address(op["ip"]))
            return [(f"ret {1 if r else 0}", f"{side} cache {im.uid(o)} {op['name']} {op['ip']}")]
        if k == "dnslookup":
            o = self.installed(side, "dns-server")
            if o is None:
                return []
            r = o.dns_lookup(op["name"])
            return [("-" if r is None else str(ip_int(r)), f"{side} dnslookup {im.uid(o)} {op['name']}")]
        if k == "lookup":
            o = self.installed(side, "dns-client")
            if o is None:
                return []
            r = o.check_domain_exists(op["name"])
            return [(self.answer(f"ret {1 if r else 0}"), f"lookup {side} {im.uid(o)} {op['name']}")]
        if k == "ntpreq":
            o = self.installed(side, "ntp-client")
            if o is None:
                return []
            o.request_time()
            return [(self.answer("ok"), f"ntpreq {side} {im.uid(o)}")]
        if k == "ports":
            return [(im.ports_line(), f"{side} ports")]
        if k == "dboffer":
            _DB_OFFER[id(im.node)] = op["offer"]
            return [("ok", f"{side} dboffer {'-' if op['offer'] is None else (1 if op['offer'] else 0)}")]
        if k == "target":
            o = self.installed(side, "web-browser")
            if o is None:
                return []
            o.config.target_url = None if op["url"] is None else URLS[op["url"]][0]
            return [("ok", f"{side} cfgdata {im.uid(o)} {data_of(o)}")]
        if k == "browse":
            o = self.installed(side, "web-browser")
            if o is None:
                return []
            uid = op["url"] if op["url"] is not None else (URL_ID[o.config.target_url] if o.config.target_url else None)
            if uid is None:
                line = f"browse {side} {im.uid(o)} -"
            else:
                text, host, port, path = URLS[uid]
                line = f"browse {side} {im.uid(o)} {uid} {host} {'-' if port is None else port} {path}"
            # (an exception escaping get_webpage is an answer `raised:…` through WorldImpl.do: the model never raises here)
            r = o.get_webpage(URLS[op["url"]][0]) if op["url"] is not None else o.get_webpage()
            return [(self.answer(f"ret {1 if r else 0}"), line)]
        if k == "inject":
            frame = self._frame(side, op["hdr"], op["port"], op["payload"])
            ignored = []
            node = im.node
            orig = node.sys_log.info

            def spy(msg, *a, **kw):
                if str(msg).startswith("Ignoring frame"):
                    ignored.append(1)
                return orig(msg, *a, **kw)
            if op["via"]:
                object.__setattr__(node.sys_log, "info", spy)
                try:
                    node.receive_frame(frame, node.network_interface[1])
                finally:
                    object.__setattr__(node.sys_log, "info", orig)
            else:
                node.session_manager.receive_frame(frame, node.network_interface[1])
            pre = "ignored" if ignored else "accepted"
            port = "0" if op["hdr"] == "icmp" else str(op["port"])
            return [(self.answer(pre), f"inject {side} {1 if op['via'] else 0} {op['hdr']} {port} {op['payload']}")]
        raise ValueError(k)

    def _payload(self, spec: str):
        from datetime import timedelta
        from ipaddress import IPv4Address
        parts = spec.split(":")
        if parts[0] == "junk":
            return {"junk": 1}
        if parts[0] == "scan":
            from primaite.simulator.system.applications.nmap import PortScanPayload
            return PortScanPayload(ip_address="192.168.1.2", port=80, protocol="tcp", request=True)
        if parts[0] == "dns":
            from primaite.simulator.network.protocols.dns import DNSPacket, DNSReply, DNSRequest
            rep = None
            if parts[2] == "none":
                rep = DNSReply(domain_name_ip_address=None)
            elif parts[2] != "-":
                rep = DNSReply(domain_name_ip_address=IPv4Address(int(parts[2])))
            return DNSPacket(dns_request=DNSRequest(domain_name_request=parts[1]), dns_reply=rep)
        if parts[0] == "http":
            from primaite.simulator.network.protocols.http import HttpRequestMethod, HttpRequestPacket
            meth = {"get": HttpRequestMethod.GET, "post": HttpRequestMethod.POST, "other": HttpRequestMethod.DELETE}[parts[1]]
            return HttpRequestPacket(request_method=meth, request_url=URLS[int(parts[3])][0])
        if parts[0] == "resp":
            from primaite.simulator.network.protocols.http import HttpResponsePacket, HttpStatusCode
            return HttpResponsePacket(status_code=HttpStatusCode(int(parts[1])))
        if parts[0] == "ntp":
            from primaite.simulator.network.protocols.ntp import NTPPacket, NTPReply
            if parts[1] == "-":
                return NTPPacket()
            return NTPPacket(ntp_reply=NTPReply(ntp_datetime=BASE_DT() + timedelta(seconds=int(parts[1]))))
        raise ValueError(spec)

    def _frame(self, side: str, hdr: str, port: int, spec: str):
        from primaite.simulator.network.protocols.icmp import ICMPPacket
        from primaite.simulator.network.transmission.data_link_layer import EthernetHeader, Frame
        from primaite.simulator.network.transmission.network_layer import IPPacket
        from primaite.simulator.network.transmission.transport_layer import TCPHeader, UDPHeader
        me, peer = self.impl[side].node, self.impl[self.other(side)].node
        eth = EthernetHeader(src_mac_addr=peer.network_interface[1].mac_address, dst_mac_addr=me.network_interface[1].mac_address)
        ip = dict(src_ip_address=IPS[self.other(side)], dst_ip_address=IPS[side])
        payload = self._payload(spec)
        if hdr == "tcp":
            return Frame(ethernet=eth, ip=IPPacket(protocol="tcp", **ip), tcp=TCPHeader(src_port=port, dst_port=port), payload=payload)
        if hdr == "udp":
            return Frame(ethernet=eth, ip=IPPacket(protocol="udp", **ip), udp=UDPHeader(src_port=port, dst_port=port), payload=payload)
        return Frame(ethernet=eth, ip=IPPacket(protocol="icmp", **ip), icmp=ICMPPacket(), payload=payload)


# --------------------------------------------------------------------------------------------------- generation
def _install(rng: Rng, side: str, t: Optional[str] = None, listen: Optional[List[int]] = None) -> dict:
    t = t or rng.choice(SVC_TYPES)
    if listen is None:
        listen = sorted({rng.choice(PORTS) for _ in range(rng.range(1, 2))}) if rng.chance(1, 3) else []
    return {"op": "node", "side": side, "nop": {"op": "isvc", "type": t, "listen": listen, "health": "GOOD", "fix": 2, "cfg": True}}


def _payload_spec(rng: Rng) -> str:
    k = rng.below(10)
    if k == 0:
        return "junk"
    if k == 1:
        return "scan"
    if k < 6:
        rep = rng.choice(["-", "-", "none", str(rng.choice(ADDRS))])
        return f"dns:{rng.choice(NAMES)}:{rep}"
    return f"ntp:{rng.choice(['-', '-', str(rng.choice([5, 77, 4000]))])}"


def gen_world_case(rng: Rng, max_ops: int = 30, focus: Optional[str] = None) -> dict:
    focus = focus or rng.choice(["dns", "ntp", "shared-port", "stopped-owner", "mixed", "mixed", "web", "web"])
    if focus == "web":
        return gen_web_case(rng, max_ops)
    ops: List[dict] = []
    registered: List[str] = []
    sides = ["A", "B"]
    # set-up: servers, listeners, client configuration, a few registered names
    if focus in ("dns", "mixed", "shared-port", "stopped-owner"):
        ops.append(_install(rng, "B", "dns-server", []))
        if focus == "shared-port" or rng.chance(1, 4):
            ops.append(_install(rng, "A", "dns-server", []))     # two programs sharing 53/tcp on the client's node
        ops.append({"op": "cfg", "side": "A", "which": "dns", "target": "peer"})
        for _ in range(rng.range(1, 3)):
            ops.append({"op": "register", "side": "B", "name": rng.choice(NAMES), "ip": rng.choice(ADDRS)})
            registered.append(ops[-1]["name"])
    if focus in ("ntp", "mixed", "shared-port", "stopped-owner"):
        ops.append(_install(rng, "B", "ntp-server", []))
        if focus == "shared-port" or rng.chance(1, 4):
            ops.append(_install(rng, "A", "ntp-server", []))
        ops.append({"op": "cfg", "side": "A", "which": "ntp", "target": "peer"})
    if focus == "stopped-owner":
        # a stopped owner of a port and a running listener on it (and the other way round)
        side = rng.choice(sides)
        t, port, owner = rng.choice([("ftp-server", 53, "dns-client"), ("dns-server", 123, "ntp-client"), ("ntp-server", 53, "dns-client"),
                                     ("web-server", 123, "ntp-client"), ("dns-client", 123, "ntp-client")])
        ops.append(_install(rng, side, t, [port]))
        ops.append({"op": "node", "side": side, "nop": {"op": "sreq", "name": rng.choice([owner, t]), "r": rng.choice(["stop", "pause", "disable"])}})
    n = rng.range(6, max_ops)
    w = {"dns": [40, 4, 12, 3, 14, 3, 3, 4, 6], "ntp": [4, 40, 12, 3, 14, 3, 3, 4, 6], "shared-port": [16, 16, 14, 8, 22, 10, 4, 4, 6],
         "stopped-owner": [12, 12, 18, 6, 26, 6, 6, 4, 10], "mixed": [14, 14, 14, 10, 18, 10, 6, 6, 8]}[focus]
    tot = sum(w)
    while len(ops) < n:
        k = rng.below(tot)
        side = rng.choice(sides)
        acc = 0
        for j, x in enumerate(w):
            acc += x
            if k < acc:
                break
        if j == 0:     # DNS client / server API
            r = rng.below(10)
            if r < 5:
                ops.append({"op": "lookup", "side": rng.choice(["A", "A", "A", "B"]),
                            "name": rng.choice(registered) if registered and rng.chance(2, 3) else rng.choice(NAMES)})
            elif r < 7:
                ops.append({"op": "register", "side": side, "name": rng.choice(NAMES), "ip": rng.choice(ADDRS)})
            elif r < 8:
                ops.append({"op": "cache", "side": side, "name": rng.choice(NAMES), "ip": rng.choice(ADDRS)})
            else:
                ops.append({"op": "dnslookup", "side": side, "name": rng.choice(NAMES)})
        elif j == 1:   # NTP: a node tick (every RUNNING client asks) or a direct request
            if rng.chance(1, 2):
                ops.append({"op": "node", "side": rng.choice(["A", "A", "B"]), "nop": {"op": "tick"}})
            elif rng.chance(2, 3):
                ops.append({"op": "ntpreq", "side": rng.choice(["A", "A", "B"])})
            else:
                ops.append({"op": "now", "side": side, "t": rng.choice([7, 1000, 2000, 31337])})
        elif j == 2:   # lifecycle request on one of the four, often followed by traffic aimed at that service
            nm = rng.choice(LIFE_NAMES)
            ops.append({"op": "node", "side": side, "nop": {"op": "sreq", "name": nm, "r": rng.choice(LIFE_REQS)}})
            if rng.chance(1, 2):
                dns = nm.startswith("dns")
                spec = (f"dns:{rng.choice(NAMES)}:{rng.choice(['-', str(rng.choice(ADDRS))])}" if dns
                        else f"ntp:{rng.choice(['-', '77'])}")
                ops.append({"op": "inject", "side": side, "via": rng.chance(1, 2), "hdr": "tcp" if dns else "udp",
                            "port": 53 if dns else 123, "payload": spec})
            if rng.chance(1, 3):
                ops.append({"op": "lookup", "side": "A", "name": rng.choice(NAMES)} if nm.startswith("dns") else {"op": "ntpreq", "side": "A"})
        elif j == 3:   # node power
            ops.append({"op": "node", "side": side, "nop": {"op": rng.choice(["poff", "pon", "rshut", "rstart", "pon", "rstart"])}})
        elif j == 4:   # injected frames / session-manager deliveries
            hdr = rng.choice(["tcp", "tcp", "udp", "udp", "icmp"]) if rng.chance(1, 8) else None
            spec = _payload_spec(rng)
            if hdr is None:
                hdr = "udp" if spec.startswith("ntp") else "tcp"
                if rng.chance(1, 8):
                    hdr = "tcp" if hdr == "udp" else "udp"
            port = rng.choice(PORTS) if rng.chance(1, 4) else (123 if spec.startswith("ntp") else 53)
            ops.append({"op": "inject", "side": side, "via": rng.chance(2, 3), "hdr": hdr, "port": port, "payload": spec})
        elif j == 5:   # install / uninstall
            if rng.chance(3, 5):
                ops.append(_install(rng, side))
            else:
                ops.append({"op": "node", "side": side, "nop": {"op": "uninst", "name": rng.choice(LIFE_NAMES + ["ftp-server", "web-server"])}})
        elif j == 6:   # client configuration
            ops.append({"op": "cfg", "side": side, "which": rng.choice(["dns", "ntp"]), "target": rng.choice(["peer", "peer", "none", "bogus", "self"])})
        elif j == 7:   # a plain tick
            ops.append({"op": "node", "side": side, "nop": {"op": "tick"}})
        else:
            ops.append({"op": "ports", "side": side})
    return {"ops": ops[:max(n, 1)], "focus": focus}


def gen_web_case(rng: Rng, max_ops: int = 30) -> dict:
    """browser on A, DNS server + web server (+ database client with a scripted verdict) on B; fetches of every URL kind, with
    lifecycle requests, power events, injected HTTP traffic, (un)installs and DNS / target / database changes in between"""
    ipA, ipB = ip_int(IPS["A"]), ip_int(IPS["B"])
    ops: List[dict] = [_install(rng, "B", "dns-server", []), _install(rng, "B", "web-server", [rng.choice([8080, 8080, 53])] if rng.chance(1, 3) else []),
                       {"op": "cfg", "side": "A", "which": "dns", "target": "peer"},
                       {"op": "register", "side": "B", "name": "x.test", "ip": ipB}]
    if rng.chance(2, 3):
        ops.append({"op": "register", "side": "B", "name": "y.test", "ip": rng.choice([ipB, ipB, ipA, ADDRS[0]])})
    if rng.chance(2, 3):
        ops.append({"op": "node", "side": "B", "nop": {"op": "iapp", "type": "database-client", "listen": [], "health": "GOOD", "fix": 2, "cfg": True}})
    ops.append({"op": "dboffer", "side": "B", "offer": rng.choice([None, True, True, False])})
    if rng.chance(1, 4):
        ops.append(_install(rng, "A", "web-server", []))      # the browser's own node also serves 80/tcp (shared port)
    if rng.chance(1, 3):
        ops.append({"op": "target", "side": "A", "url": rng.choice([None, 0, 1, 5])})
    if rng.chance(9, 10):   # system applications of a node built outside a game are CLOSED until run
        ops.append({"op": "node", "side": "A", "nop": {"op": "aapi", "pick": 0, "ev": "run"}})
    if rng.chance(1, 3):
        ops.append({"op": "node", "side": "B", "nop": {"op": "aapi", "pick": 0, "ev": "run"}})
    n = rng.range(10, max_ops)
    while len(ops) < n:
        k = rng.below(100)
        side = rng.choice(["A", "B"])
        if k < 38:
            ops.append({"op": "browse", "side": rng.choice(["A", "A", "A", "B"]), "url": rng.choice([0, 1, 1, 2, 3, 4, 5, 6, 7, None])})
        elif k < 50:
            nm = rng.choice(["web-server", "web-server", "dns-server", "dns-client"])
            ops.append({"op": "node", "side": rng.choice(["B", "B", "A"]), "nop": {"op": "sreq", "name": nm, "r": rng.choice(LIFE_REQS)}})
        elif k < 56:
            ops.append(rng.choice([{"op": "node", "side": "A", "nop": {"op": "areq", "name": "web-browser", "r": rng.choice(["close", "scan", "fix"])}},
                                   {"op": "node", "side": "A", "nop": {"op": "aapi", "pick": 0, "ev": "run"}}]))
        elif k < 62:
            ops.append({"op": "node", "side": side, "nop": {"op": rng.choice(["poff", "pon", "rshut", "rstart", "pon", "rstart"])}})
        elif k < 76:
            uid = rng.choice([0, 1, 2, 7])
            spec = rng.choice([f"http:{rng.choice(['get', 'get', 'post', 'other'])}:{URLS[uid][3]}:{uid}",
                               f"resp:{rng.choice(['200', '404', '500', '405'])}", "junk", f"dns:x.test:{ipB}"])
            ops.append({"op": "inject", "side": side, "via": rng.chance(2, 3), "hdr": "tcp", "port": rng.choice([80, 80, 80, 8080, 53]), "payload": spec})
        elif k < 82:
            ops.append({"op": "dboffer", "side": "B", "offer": rng.choice([None, True, False])})
        elif k < 86:
            ops.append({"op": "target", "side": "A", "url": rng.choice([None, 0, 1, 2, 5])})
        elif k < 90:
            ops.append({"op": "node", "side": rng.choice(["A", "B"]), "nop": {"op": "uninst", "name": rng.choice(["database-client", "dns-client", "web-server", "dns-server"])}})
        elif k < 94:
            ops.append(rng.choice([{"op": "node", "side": "B", "nop": {"op": "iapp", "type": "database-client", "listen": [], "health": "GOOD", "fix": 2, "cfg": True}},
                                   _install(rng, "B", "web-server", []), _install(rng, "B", "dns-server", [])]))
        elif k < 97:
            ops.append({"op": "register", "side": "B", "name": rng.choice(NAMES), "ip": rng.choice([ipB, ipB, ipA, ADDRS[0]])})
        else:
            ops.append({"op": "node", "side": side, "nop": {"op": "tick"}})
    return {"ops": ops[:max(n, 1)], "focus": "web"}


# --------------------------------------------------------------------------------------------------- run one case
def run_world_case(case: dict, guards: Dict[str, bool]) -> dict:
    w = WorldImpl(guards)
    lines = list(w.init_lines)
    impl: List[Optional[str]] = ["ok"] * len(lines)

    def dumps():
        for s in ("A", "B"):
            lines.append(f"{s} dump")
            impl.append(w.impl[s].dump())
            lines.append(f"{s} ddump")
            impl.append(w.impl[s].ddump())
    dumps()
    oracle_hits: List[Tuple[int, str, str, Any]] = []
    executed = []
    for i, op in enumerate(case["ops"]):
        res = w.do(op)
        if not res:
            continue
        executed.append(i)
        for ans, line in res:
            lines.append(line)
            impl.append(ans)
        if any(str(a).startswith("raised") for a, _ in res):
            break  # the state after an exception escaped the real code is not compared
        dumps()
        for s in ("A", "B"):
            for kind, detail in w.impl[s].oracle():
                oracle_hits.append((i, kind, f"node {s}: {detail}", False))
        for kind, detail, extra in w.oracle_hits:
            oracle_hits.append((i, kind, detail, extra))
        w.oracle_hits.clear()
    return {"impl": impl, "lines": lines, "oracle": oracle_hits, "executed": executed}


# --------------------------------------------------------------------------------------------------- connection bookkeeping
CONN_IDS = ["c1", "c2", "c3", "c4", "c5"]
CONN_TYPES = ["ftp-server", "database-service", "web-server", "terminal", "dns-server"]


def gen_conn_case(rng: Rng, max_ops: int = 24) -> dict:
    ops = []
    for _ in range(rng.range(4, max_ops)):
        if rng.chance(3, 5):
            ops.append({"op": "add", "id": rng.choice(CONN_IDS)})
        else:
            ops.append({"op": "term", "id": rng.choice(CONN_IDS), "sd": rng.chance(2, 3)})
    return {"type": rng.choice(CONN_TYPES), "max": rng.choice([0, 1, 2, 2, 3]),
            "health": rng.choice(["GOOD", "GOOD", "COMPROMISED", "OVERWHELMED", "FIXING"]), "ops": ops}


def run_conn_case(case: dict) -> dict:
    """`IOSoftware.add_connection` / `terminate_connection` on a real instance with a small `max_sessions`"""
    base.load()
    from primaite.simulator.system.software import SoftwareHealthState
    node = base.make_node("computer", {"power": "ON", "up": 0, "down": 0, "kind": "computer", "hostname": "conn_host"})
    sm = node.software_manager
    if case["type"] == "database-service":
        pass  # needs its FTP client: already part of a computer's system software
    cls = base.registries()[0][case["type"]]
    if not any(type(o) is cls for o in sm.software.values()):
        sm.install(cls)
    obj = next(o for o in sm.software.values() if type(o) is cls)
    obj.max_sessions = case["max"]
    obj.health_state_actual = SoftwareHealthState[case["health"]]
    sent = []
    object.__setattr__(sm, "send_payload_to_session_manager", lambda *a, **k: (sent.append(k.get("payload")), True)[1])

    def show():
        return f"[{','.join(str(k) for k in obj._connections)}] {obj.health_state_actual.name}"
    lines = [f"conn new {case['max']} {case['health']}"]
    impl = [show()]
    oracle = []
    for i, op in enumerate(case["ops"]):
        n0 = len(obj._connections)
        if op["op"] == "add":
            r = obj.add_connection(connection_id=op["id"])
            lines.append(f"conn add {op['id']}")
            # the property's oracle on the implementation: OVERWHELMED exactly when the request met a full table
            if (obj.health_state_actual.name == "OVERWHELMED") != (n0 >= case["max"]):
                oracle.append((i, "overwhelmed-iff-at-capacity", f"{n0} connections, max {case['max']}, health {obj.health_state_actual.name}"))
        else:
            r = obj.terminate_connection(connection_id=op["id"], send_disconnect=op["sd"])
            lines.append(f"conn term {op['id']} {1 if op['sd'] else 0}")
        if len(obj._connections) > max(case["max"], n0):
            oracle.append((i, "more-connections-than-max-sessions", f"{len(obj._connections)} > {case['max']}"))
        impl.append(f"ret {1 if r else 0} {show()}")
    return {"impl": impl, "lines": lines, "oracle": oracle}


# --------------------------------------------------------------------------------------------------- attack loops of the red applications
BOT_TYPES = {"dos": "dos-bot", "dm": "data-manipulation-bot", "rw": "ransomware-script"}


def gen_bot_case(rng: Rng) -> dict:
    kind = rng.choice(["dos", "dos", "dm", "dm", "dm", "rw"])
    return {"kind": kind, "state": rng.choice(["RUNNING", "RUNNING", "RUNNING", "CLOSED", "INSTALLING"]),
            "node_on": not rng.chance(1, 6), "configured": not rng.chance(1, 6), "repeat": rng.chance(1, 2),
            "stage": rng.choice([0, 0, 1, 2, 3] if kind == "dos" else [0, 0, 0, 1, 2, 2, 3, 4, 5]), "trials": [rng.chance(2, 3), rng.chance(2, 3)],
            "sessions": rng.choice([0, 1, 3, 7]), "has_client": not rng.chance(1, 5), "offer": rng.choice([None, True, True, False]),
            "conn": rng.choice([None, None, True, False]),
            "entry": rng.choice(["loop", "loop", "loop", "attack", "tick", "run"])}


class _CountingConn(FakeDbConnection):
    def __init__(self, ok, counter):
        super().__init__(ok)
        self.counter = counter

    def query(self, sql):
        self.counter["queries"] += 1
        return self.ok


def run_bot_case(case: dict) -> dict:
    """one call of a bot's attack loop (or of another entry point) on a real instance put into the given state; the model
    line carries the state before the call, the answer is the state after it and how often the bot acted"""
    base.load()
    from ipaddress import IPv4Address
    from primaite.simulator.network.hardware.node_operating_state import NodeOperatingState
    from primaite.simulator.system.applications.application import ApplicationOperatingState
    import primaite.simulator.system.applications.red_applications.data_manipulation_bot as dm_mod
    import primaite.simulator.system.applications.red_applications.dos_bot as dos_mod
    node = base.make_node("computer", {"power": "ON", "up": 0, "down": 0, "kind": "computer", "hostname": "bot_host"})
    sm = node.software_manager
    kind = case["kind"]
    cls = base.registries()[1][BOT_TYPES[kind]]
    from primaite.simulator.system.applications.database_client import DatabaseClient
    if kind != "dos" and case["has_client"]:
        sm.install(DatabaseClient)
    sm.install(cls)
    bot = sm.software[BOT_TYPES[kind]]
    counter = {"queries": 0, "asked": 0, "connects": 0, "trials": 0}
    script = list(case["trials"])

    def trial(p):
        counter["trials"] += 1
        return script.pop(0) if script else False
    saved = (dos_mod.simulate_trial, dm_mod.simulate_trial)
    dos_mod.simulate_trial = trial
    dm_mod.simulate_trial = trial
    try:
        dbc = sm.software.get("database-client")
        if dbc is not None:
            def offer(*a, **k):
                counter["asked"] += 1
                return None if case["offer"] is None else _CountingConn(bool(case["offer"]), counter)
            object.__setattr__(dbc, "get_new_connection", offer)
        if kind == "dos":
            object.__setattr__(bot, "connect", lambda *a, **k: (counter.__setitem__("connects", counter["connects"] + 1), True)[1])
            bot.max_sessions = case["sessions"]
            bot.dos_intensity = 1.0
            bot.repeat = case["repeat"]
            bot.target_ip_address = IPv4Address("192.168.1.77") if case["configured"] else None
            bot.attack_stage = dos_mod.DoSAttackStage(case["stage"])
        else:
            bot.server_ip_address = IPv4Address("192.168.1.77") if case["configured"] else None
            bot.payload = "DELETE"
            if kind == "dm":
                bot.repeat = case["repeat"]
                bot.attack_stage = dm_mod.DataManipulationAttackStage(case["stage"])
            bot._db_connection = None if case["conn"] is None else _CountingConn(bool(case["conn"]), counter)
        bot.operating_state = ApplicationOperatingState[case["state"]]
        if case["state"] == "INSTALLING":
            bot.install_countdown = 2
        node.operating_state = NodeOperatingState.ON if case["node_on"] else NodeOperatingState.OFF
        can = bool(bot._can_perform_action())
        entry = case["entry"]
        if entry == "loop" or (entry in ("attack",) and kind == "dos"):
            ret = bot._application_loop()
            entry = "loop"
        elif entry == "attack":
            ret = bot.attack()
        elif entry == "tick":
            bot.apply_timestep(1)
            ret = None
        else:
            ret = bot.run()
        can_after = bool(bot._can_perform_action())
    finally:
        dos_mod.simulate_trial, dm_mod.simulate_trial = saved
    b = lambda x: 1 if x else 0   # noqa
    ob = lambda x: "-" if x is None else (1 if x else 0)   # noqa
    oracle = []
    acted = counter["connects"] + counter["queries"] + counter["asked"]
    if acted and not (can or can_after):
        oracle.append(("bot-acted-while-not-running", f"{kind} {entry} in {case['state']}/node {'ON' if case['node_on'] else 'OFF'}: {counter}"))
    lines, impl = [], []
    if entry == "loop":
        if kind == "dos":
            lines.append(f"bot dos {b(can)} {b(case['configured'])} {b(case['repeat'])} {b(case['trials'][0])} {case['sessions']} {case['stage']}")
            impl.append(f"stage={bot.attack_stage.value} connects={counter['connects']} trials={counter['trials']} ret={b(ret)}")
        elif kind == "dm":
            conn = bot._db_connection
            lines.append(f"bot dm {b(can)} {b(case['configured'])} {b(case['repeat'])} {b(dbc is not None)} {ob(case['offer'])} "
                         f"{''.join(str(b(t)) for t in case['trials'])} {ob(case['conn'])} {case['stage']}")
            impl.append(f"stage={bot.attack_stage.value} conn={'-' if conn is None else b(conn.ok)} asked={counter['asked']} "
                        f"queries={counter['queries']} trials={counter['trials']} ret={b(ret)}")
        else:
            conn = bot._db_connection
            lines.append(f"bot rw {b(can)} {b(case['configured'])} {b(dbc is not None)} {ob(case['offer'])} {ob(case['conn'])}")
            impl.append(f"conn={'-' if conn is None else b(conn.ok)} asked={counter['asked']} queries={counter['queries']} ret={b(ret)}")
    return {"lines": lines, "impl": impl, "oracle": oracle, "entry": entry, "acted": acted, "can": can}


# --------------------------------------------------------------------------------------------------- C2 connection state machine
def gen_c2_case(rng: Rng) -> dict:
    freq = rng.choice([1, 2, 3, 5])
    return {"kind": rng.choice(["beacon", "beacon", "server"]), "state": rng.choice(["RUNNING"] * 5 + ["CLOSED", "INSTALLING"]),
            "node_on": not rng.chance(1, 8), "health": rng.choice(["GOOD"] * 5 + ["COMPROMISED", "FIXING", "OVERWHELMED"]),
            "active": not rng.chance(1, 6), "remote": not rng.chance(1, 5), "freq": freq,
            "inact": rng.choice([0, 0, max(freq - 1, 0), max(freq - 1, 0), freq, freq + 1, rng.below(freq + 2)]),
            "attempted": rng.chance(1, 4), "reply": rng.chance(1, 2), "nic_on": rng.chance(2, 3)}


def run_c2_case(case: dict) -> dict:
    """one `apply_timestep` of a real C2Beacon / C2Server put into the given connection state (the peer and the network are the
    input `reply`: `_send_keep_alive` is stubbed to count and, when `reply`, to do what the answered exchange does), and the
    verdict of `_check_connection`"""
    base.load()
    from ipaddress import IPv4Address
    from types import SimpleNamespace
    from primaite.simulator.network.hardware.node_operating_state import NodeOperatingState
    from primaite.simulator.system.applications.application import ApplicationOperatingState
    from primaite.simulator.system.software import SoftwareHealthState
    node = base.make_node("computer", {"power": "ON", "up": 0, "down": 0, "kind": "computer", "hostname": "c2_host"})
    sm = node.software_manager
    name = "c2-beacon" if case["kind"] == "beacon" else "c2-server"
    sm.install(base.registries()[1][name])
    app = sm.software[name]
    counter = {"sent": 0, "closed": 0}

    def send_keep_alive(session_id=None, **k):
        counter["sent"] += 1
        if case["reply"]:
            app.keep_alive_inactivity = 0
            app.c2_connection_active = True
        return True
    object.__setattr__(app, "_send_keep_alive", send_keep_alive)
    real_close = type(app).close

    def close(*a, **k):
        counter["closed"] += 1
        return real_close(app, *a, **k)
    object.__setattr__(app, "close", close)
    app.config.keep_alive_frequency = case["freq"]
    app.keep_alive_inactivity = case["inact"]
    app.c2_connection_active = case["active"]
    app.c2_remote_connection = IPv4Address("192.168.1.77") if case["remote"] else None
    app.c2_session = SimpleNamespace(uuid="s", with_ip_address="192.168.1.77")
    if case["kind"] == "beacon":
        app.keep_alive_attempted = case["attempted"]
    app.operating_state = ApplicationOperatingState[case["state"]]
    if case["state"] == "INSTALLING":
        app.install_countdown = 3
    app.health_state_actual = SoftwareHealthState[case["health"]]
    if case["health"] == "FIXING":
        app._fixing_countdown = 3
    node.operating_state = NodeOperatingState.ON if case["node_on"] else NodeOperatingState.OFF
    for nic in node.network_interface.values():   # an unlinked NIC cannot be enabled through the API: set the flag
        nic.enabled = bool(case.get("nic_on", False))
    b = lambda x: 1 if x else 0   # noqa
    running, good = case["state"] == "RUNNING", case["health"] == "GOOD"
    can_net = bool(app._can_perform_network_action())
    allowed = bool(app._check_connection()[0])
    lines = [f"c2 allowed {b(can_net)} {b(case['remote'])}"]
    impl = [str(b(allowed))]
    app.apply_timestep(1)
    after = (f"active={b(app.c2_connection_active)} remote={b(app.c2_remote_connection is not None)} inact={app.keep_alive_inactivity} "
             f"freq={app.config.keep_alive_frequency}")
    if case["kind"] == "beacon":
        lines.append(f"c2 btick {b(running)} {b(good)} {b(case['reply'])} {b(case['active'])} {b(case['remote'])} {case['inact']} {case['freq']} "
                     f"{b(case['attempted'])}")
        impl.append(f"{after} attempted={b(app.keep_alive_attempted)} sent={counter['sent']} closed={b(counter['closed'])}")
    else:
        lines.append(f"c2 stick {b(running)} {b(good)} {b(case['active'])} {b(case['remote'])} {case['inact']} {case['freq']}")
        impl.append(after)
    oracle = []
    if (counter["sent"] or counter["closed"]) and not (running and good and case["active"]):
        oracle.append(("c2-acted-while-not-running", f"{case['kind']} in {case['state']}/{case['health']}/active={case['active']}: {counter}"))
    if counter["closed"] and app.operating_state.name != "CLOSED":
        oracle.append(("c2-close-did-not-close", f"operating state {app.operating_state.name} after close()"))
    return {"lines": lines, "impl": impl, "oracle": oracle, "sent": counter["sent"], "closed": counter["closed"],
            "acts": running and good and case["active"], "allowed": allowed}
