"""R-env (C04 part): differential runs of the real PrimaiteGymEnv.

(a) dirty-history differential   used environment vs fresh environment, both reset(seed=s), same later actions
(b) interleaving differential    instance A alone vs A with an interleaved instance B built from another scenario; a difference is
                                 attributed to a channel by re-running with that channel shielded around B's operations
(c) identity disjointness        no mutable object reachable from the new game is reachable from the old one
(d) scheduler copies             every call of the scheduler returns a fresh deep copy; the stored scenario never changes
Everything that is compared is canonicalised: uuids and MAC addresses -> first-seen index, numpy -> python, insertion order kept."""
from __future__ import annotations

import copy
import enum
import hashlib
import json
import logging
import re
import types
from typing import Any, Callable, Dict, List, Optional, Tuple

from harness.lib import scen
from harness.lib.core import Rng

UUID_RE = re.compile(r"[0-9a-f]{8}-[0-9a-f]{4}-[0-9a-f]{4}-[0-9a-f]{4}-[0-9a-f]{12}")
MAC_RE = re.compile(r"(?<![0-9a-f:])(?:[0-9a-f]{2}:){5}[0-9a-f]{2}(?![0-9a-f:])")


# ------------------------------------------------------------------------------------------------ canonical form
def _plain(o: Any) -> Any:
    import numpy as np
    if isinstance(o, dict):
        return {str(_plain_key(k)): _plain(v) for k, v in o.items()}
    if isinstance(o, (list, tuple)):
        return [_plain(x) for x in o]
    if isinstance(o, (set, frozenset)):
        return {"__set__": sorted(repr(_plain(x)) for x in o)}
    if isinstance(o, np.ndarray):
        return o.tolist()
    if isinstance(o, np.generic):
        return o.item()
    if isinstance(o, enum.Enum):
        return f"{type(o).__name__}.{o.name}"
    if isinstance(o, float):
        return repr(o)  # same process, same operations: exact equality is the oracle
    if isinstance(o, (str, int, bool)) or o is None:
        return o
    if hasattr(o, "model_dump"):
        try:
            return _plain(o.model_dump())
        except Exception:
            return repr(type(o))
    return str(o)


def _plain_key(k: Any) -> Any:
    if isinstance(k, enum.Enum):
        return f"{type(k).__name__}.{k.name}"
    return k


class Canon:
    """one per trajectory: opaque identifiers are numbered in order of first appearance"""

    def __init__(self):
        self.ids: Dict[str, str] = {}

    def _sub(self, m) -> str:
        s = m.group(0)
        if s not in self.ids:
            self.ids[s] = f"<id{len(self.ids)}>"
        return self.ids[s]

    def text(self, o: Any) -> str:
        s = json.dumps(_plain(o), sort_keys=False, default=str)
        s = UUID_RE.sub(self._sub, s)
        return MAC_RE.sub(self._sub, s)


def step_record(canon: Canon, env, obs, reward, terminated, truncated, info, with_state: bool) -> Dict[str, str]:
    acts = {}
    for name, it in (info.get("agent_actions") or {}).items():
        acts[name] = [it.timestep, it.action, it.parameters, it.request, getattr(it.response, "status", None), getattr(it.response, "data", None),
                      it.reward]
    rec = {"obs": canon.text(obs), "reward": repr(float(reward)) if reward is not None else "None", "flags": f"{int(bool(terminated))}{int(bool(truncated))}",
           "actions": canon.text(acts), "step": str(env.game.step_counter)}
    if with_state:
        rec["state"] = canon.text(env.game.get_sim_state())
    return rec


def reset_record(canon: Canon, env, obs, with_state: bool) -> Dict[str, str]:
    rec = {"obs": canon.text(obs), "reward": "reset", "flags": "--", "actions": canon.text({n: len(a.history) for n, a in env.game.agents.items()}),
           "step": str(env.game.step_counter)}
    if with_state:
        rec["state"] = canon.text(env.game.get_sim_state())
    return rec


def first_difference(t1: List[Dict[str, str]], t2: List[Dict[str, str]]) -> Optional[dict]:
    if len(t1) != len(t2):
        return {"index": min(len(t1), len(t2)), "component": "length", "a": len(t1), "b": len(t2)}
    for i, (r1, r2) in enumerate(zip(t1, t2)):
        for k in ("flags", "step", "reward", "obs", "actions", "state"):
            if r1.get(k) != r2.get(k):
                d = {"index": i, "component": k, **_where(r1.get(k), r2.get(k))}
                j = next((j for j, (x, y) in enumerate(zip(t1, t2)) if x.get("rng") != y.get("rng")), None)
                if j is not None:
                    d["generators_differ_from_record"] = j
                return d
    # the state of the process-global generators after each operation (recorded by the history differentials only): what every later draw
    # is a function of. Looked at only when everything the caller sees is equal, so that a behavioural difference is reported as such.
    for i, (r1, r2) in enumerate(zip(t1, t2)):
        if r1.get("rng") != r2.get("rng"):
            return {"index": i, "component": "rng", "path": "state of the random / numpy.random / torch generators after the operation",
                    "a": str(r1.get("rng")), "b": str(r2.get("rng"))}
    return None


def _where(a: Optional[str], b: Optional[str]) -> dict:
    """path of the first differing leaf of two canonical JSON texts"""
    try:
        ja, jb = json.loads(a), json.loads(b)
    except Exception:
        return {"a": str(a)[:120], "b": str(b)[:120]}
    path: List[str] = []

    def walk(x, y) -> bool:
        if type(x) is not type(y):
            return True
        if isinstance(x, dict):
            if list(x.keys()) != list(y.keys()):
                ka, kb = list(x.keys()), list(y.keys())
                path.append(f"<keys {[k for k in ka if k not in kb][:3]} / {[k for k in kb if k not in ka][:3]} / order>")
                return True
            for k in x:
                path.append(str(k))
                if walk(x[k], y[k]):
                    return True
                path.pop()
            return False
        if isinstance(x, list):
            if len(x) != len(y):
                path.append("<len>")
                return True
            for i, (p, q) in enumerate(zip(x, y)):
                path.append(str(i))
                if walk(p, q):
                    return True
                path.pop()
            return False
        return x != y
    walk(ja, jb)
    node_a, node_b = ja, jb
    try:
        for p in path:
            if p.startswith("<"):
                break
            node_a = node_a[p] if isinstance(node_a, dict) else node_a[int(p)]
            node_b = node_b[p] if isinstance(node_b, dict) else node_b[int(p)]
    except Exception:
        pass
    return {"path": "/".join(path)[:300], "a": json.dumps(node_a)[:120], "b": json.dumps(node_b)[:120]}


def digest(t: List[Dict[str, str]]) -> str:
    return hashlib.sha1(json.dumps(t).encode()).hexdigest()[:12]


# ------------------------------------------------------------------------------------------------ running
def rng_fp() -> str:
    """digest of the state of the process-global generators that `set_random_seed` seeds (Python's, numpy's, torch's CPU generator)"""
    import random
    import sys

    import numpy as np
    h = hashlib.sha1(repr(random.getstate()).encode())
    st = np.random.get_state()
    h.update(st[1].tobytes())
    h.update(repr(st[2:]).encode())
    th = sys.modules.get("torch")
    if th is not None:
        try:
            h.update(th.get_rng_state().numpy().tobytes())
        except Exception:
            pass
    return h.hexdigest()[:16]


def save_rng():
    import random
    import sys

    import numpy as np
    th = sys.modules.get("torch")
    return (random.getstate(), np.random.get_state(), th.get_rng_state() if th is not None else None)


def restore_rng(saved) -> None:
    import random
    import sys

    import numpy as np
    random.setstate(saved[0])
    np.random.set_state(saved[1])
    th = sys.modules.get("torch")
    if th is not None and saved[2] is not None:
        th.set_rng_state(saved[2])


# F-11 repair: every environment runs __init__ / reset / step on its OWN saved state of the two process-wide generators (decorator
# `own_generator_state`); the key of `self.__dict__` it is kept under is regenerated (Gen/OwnGeneratorState.stateKey) and compared with this
# literal by c04.py's obligation "rig:own-state-key"
OWN_STATE_KEY = "_generator_state"


def _real_env(env):
    """the environment object that carries the saved state (the multi-agent adapter of this rig wraps the real one)"""
    return env.__dict__["env"] if isinstance(env, MarlAdapter) else env


def env_rng(env):
    """the generator state the environment's NEXT operation starts from: its own saved state (what an unseeded `reset()` continues);
    on a tree without the repair: the process-wide state"""
    s = save_rng()
    own = getattr(_real_env(env), "__dict__", {}).get(OWN_STATE_KEY)
    return (own[0], own[1], s[2]) if own is not None else s


def hand_rng(env, saved) -> None:
    """make `saved` the generator state the environment's next operation starts from (and the process-wide state, for a tree without the
    repair)"""
    restore_rng(saved)
    d = getattr(_real_env(env), "__dict__", None)
    if isinstance(d, dict) and OWN_STATE_KEY in d:
        d[OWN_STATE_KEY] = (saved[0], saved[1])


SEED_MAX = 2 ** 32 - 1     # the largest value numpy.random.seed accepts


def configured_seed(cfg: Any) -> Optional[int]:
    s = cfg.get("game", {}).get("seed") if isinstance(cfg, dict) else None
    return s if isinstance(s, int) and not isinstance(s, bool) and s >= 0 else None


def seed_family(configured: Optional[int], rng: Rng) -> List[Optional[int]]:
    """the seed arguments every differential draws from: 0 (falsy!), 1, the scenario's configured `game.seed` (3 if it has none), the
    largest accepted value, a random one, and None = `reset()` without a seed argument"""
    return [0, 1, configured if configured is not None else 3, SEED_MAX, rng.range(2, 2 ** 31), None]


def seed_text(s: Optional[int]) -> str:
    return "none" if s is None else str(int(s))


def run_ops(env, ops: List[Any], canon: Canon, with_state: bool = True, with_rng: bool = False) -> List[Dict[str, str]]:
    """ops: ("reset", seed or None) | ("step", action). Returns the canonical trajectory."""
    out = []
    for op in ops:
        try:
            if op[0] == "reset":
                obs, info = env.reset(seed=op[1]) if op[1] is not None else env.reset()
                out.append(reset_record(canon, env, obs, with_state))
            else:
                n = int(env.action_space.n)
                obs, r, term, trunc, info = env.step(op[1] % n)
                out.append(step_record(canon, env, obs, r, term, trunc, info, with_state))
            if with_rng:
                out[-1]["rng"] = rng_fp()
        except Exception as e:  # an operation that raises is an observable outcome (and ends the comparison for this instance)
            import traceback
            tb = traceback.extract_tb(e.__traceback__)[-1]
            out.append({"flags": "raised", "step": "-", "reward": "-", "obs": json.dumps({"exc": type(e).__name__, "msg": str(e)[:80],
                        "where": f"{tb.filename.split('/')[-1]}:{tb.name}"}), "actions": "-", "state": "-"})
    return out


def gen_actions(rng: Rng, n: int, space: int, do_nothing_share: int = 4) -> List[int]:
    return [0 if rng.chance(1, do_nothing_share) else rng.below(max(1, space)) for _ in range(n)]


# ------------------------------------------------------------------------------------------------ (a) dirty history
def _apply_history(env, history: List[Any]) -> None:
    for op in history:
        if op[0] == "reset":
            env.reset(seed=op[1]) if op[1] is not None else env.reset()
        else:
            env.step(op[1] % int(env.action_space.n))


def compare_after_history(cfg_or_path, history: List[Any], fresh_resets: int, later: List[Any], make: Callable = None, keep: bool = False) -> dict:
    """THE oracle of (a), self-contained (also what a replay file re-executes): a used environment (construct + `history`) and a fresh one
    (process state normalised to a new interpreter's, construct, `fresh_resets` resets so that an episode-scheduled scenario is at the same
    episode) both execute `later` = reset(seed) + actions. With `seed = None` (`reset()`: Gymnasium keeps the generator running) the fresh
    environment's reset starts from the generator state the used one had at ITS reset: what an unseeded reset may carry over from the
    past is that state and nothing else."""
    make = make or scen.make_env
    normalise_process_state()
    used = make(cfg_or_path)
    _apply_history(used, history)
    old_game = used.game
    unseeded = later[0][0] == "reset" and later[0][1] is None
    saved = env_rng(used) if unseeded else None
    t_used = run_ops(used, later, Canon(), with_rng=True)
    after_used = save_rng()
    normalise_process_state()
    fresh = make(cfg_or_path)
    for k in range(fresh_resets):
        fresh.reset(seed=1000003 + k)
    if saved is not None:
        hand_rng(fresh, saved)
    t_fresh = run_ops(fresh, later, Canon(), with_rng=True)
    out = {"diff": first_difference(t_used, t_fresh), "digest": digest(t_used), "t_used": t_used, "t_fresh": t_fresh}
    if keep:
        out.update({"used": used, "fresh": fresh, "old_game": old_game, "after_used": after_used})
    else:
        for e in (used, fresh):
            try:
                e.close()
            except Exception:
                pass
    return out


class HistoryRaised(Exception):
    """an operation of the dirty history itself raised: `history` ends with that operation"""

    def __init__(self, history, exc):
        super().__init__(f"{type(exc).__name__}: {str(exc)[:100]}")
        self.history, self.exc = history, exc


def raises_only_after_reset(cfg_or_path, history: List[Any], make: Callable = None) -> dict:
    """Oracle for an operation that RAISES in an episode after a reset: the used environment executes `history` (its last operation is
    expected to raise); a NEWLY CONSTRUCTED environment executes the steps of the last episode alone (no reset). `fails` iff the used one
    raises and the new one does not: the reset left something a newly constructed environment does not have."""
    make = make or scen.make_env
    normalise_process_state()
    used = make(cfg_or_path)
    used_exc = None
    try:
        _apply_history(used, history)
    except Exception as e:
        used_exc = f"{type(e).__name__}: {str(e)[:100]}"
    last = len(history) - 1 - next((i for i, op in enumerate(reversed(history)) if op[0] == "reset"), len(history))
    tail = [op for op in history[last + 1:] if op[0] == "step"]
    normalise_process_state()
    fresh = make(cfg_or_path)
    fresh_exc = None
    try:
        _apply_history(fresh, tail)
    except Exception as e:
        fresh_exc = f"{type(e).__name__}: {str(e)[:100]}"
    for e in (used, fresh):
        try:
            e.close()
        except Exception:
            pass
    return {"fails": used_exc is not None and fresh_exc is None and last >= 0, "used": used_exc, "fresh": fresh_exc, "episode_steps": len(tail)}


def dirty_history(cfg_or_path, rng: Rng, n_dirty: int, n_later: int, dirty_episodes: int, seeds: List[Optional[int]], make: Callable = None,
                  extra_history: Optional[List[int]] = None, extra_later: Optional[List[int]] = None) -> dict:
    """A used environment (dirty_episodes episodes of generated actions, the last one cut mid-episode); then, for EVERY seed argument in
    `seeds` in turn (each compared episode is part of the dirty history of the next): `reset(seed)` + generated actions on the used
    environment against a fresh environment that has been reset equally often. Returns the per-seed results and the first difference."""
    make = make or scen.make_env
    normalise_process_state()
    used = make(cfg_or_path)
    space = int(used.action_space.n)
    history: List[Any] = []
    for ep in range(dirty_episodes):
        if ep > 0:
            s = rng.below(2 ** 31)
            used.reset(seed=s)
            history.append(("reset", s))
        # `extra_history`: actions every dirty episode ends with (e.g. scans of SEVERAL networks); `extra_later`: actions every compared
        # episode ends with (the scan of one of them alone) - pairs whose second member must not depend on the first having happened
        for a in gen_actions(rng.fork(f"dirty{ep}"), n_dirty, space, 8) + list(extra_history or []):
            history.append(("step", a))
            try:
                used.step(a)
            except Exception as e:
                raise HistoryRaised(list(history), e)
    old_game = used.game
    # how dirty is the last episode of the history: accepted requests per action type, nodes not ON, files no longer GOOD, ...
    dirtied: Dict[str, int] = {}
    try:
        for ag in old_game.agents.values():
            for it in ag.history:
                if it.action != "do-nothing":
                    k = f"history-action:{it.action}:{getattr(it.response, 'status', '?')}"
                    dirtied[k] = dirtied.get(k, 0) + 1
        st = json.dumps(_plain(old_game.get_sim_state()))
        for label, pat in (("state:nodes-not-on", r'"operating_state": [0234]'), ("state:deleted-files", r'"deleted": true'),
                           ("state:nonzero-num-access", r'"num_access": [1-9]'), ("state:file-health-not-good", r'"health_status": [2-9]')):
            dirtied[label] = len(re.findall(pat, st))
    except Exception:
        pass
    results: List[dict] = []
    fresh = None
    resets = dirty_episodes - 1
    for mi, seed in enumerate(seeds):
        later = [("reset", seed)] + [("step", a) for a in gen_actions(rng.fork(f"later{mi}"), n_later if mi == 0 else max(4, n_later // 2), space)
                                     + list(extra_later or []) + (list(extra_history or []) if mi + 1 < len(seeds) else [])]
        saved = env_rng(used) if seed is None else None
        t_used = run_ops(used, later, Canon(), with_rng=True)
        after_used = save_rng()
        if fresh is not None:
            try:
                fresh.close()
            except Exception:
                pass
        normalise_process_state()
        fresh = make(cfg_or_path)
        for k in range(resets):     # same episode number as the used one (matters for scheduled scenarios)
            fresh.reset(seed=1000003 + k)
        if saved is not None:
            hand_rng(fresh, saved)
        t_fresh = run_ops(fresh, later, Canon(), with_rng=True)
        res = {"seed": seed, "history": list(history), "fresh_resets": resets, "later": later, "diff": first_difference(t_used, t_fresh),
               "digest": digest(t_used)}
        if seed is None:
            # measured, not claimed (Gymnasium: `reset()` keeps the generator running): does the episode after an unseeded reset equal the
            # one of a fresh environment that is NOT handed the used environment's generator state?
            normalise_process_state()
            plain = make(cfg_or_path)
            for k in range(resets):
                plain.reset(seed=1000003 + k)
            res["unseeded_equals_plain_fresh"] = first_difference(t_used, run_ops(plain, later, Canon(), with_rng=True)) is None
            try:
                plain.close()
            except Exception:
                pass
        results.append(res)
        history += later
        resets += 1
        # the fresh environments were built under the used environment's feet: put the generators back where its last operation left them
        # (the class attributes from_config writes are rewritten by the used environment's next reset, which is its next operation)
        restore_rng(after_used)
    first = next((r for r in results if r["diff"] is not None), None)
    return {"diff": first["diff"] if first else None, "first": first, "results": results, "used": used, "fresh": fresh, "old_game": old_game,
            "history": results[0]["history"] if results else history, "later": results[0]["later"] if results else [],
            "digest": results[0]["digest"] if results else "", "episodes": (used.episode_counter, fresh.episode_counter if fresh else -1),
            "dirtied": dirtied}


# ------------------------------------------------------------------------------------------------ the multi-agent environment
def _ray_base_available() -> str:
    """`primaite.session.ray_envs` needs `ray.rllib.env.multi_agent_env.MultiAgentEnv` as a base class and nothing else of ray. Where
    ray.rllib cannot be imported (this sandbox: `dm-tree` is missing) the THIRD-PARTY base is replaced by an empty class, so that the
    REAL `PrimaiteRayMARLEnv` / `PrimaiteRayEnv` code runs (not a re-implementation of it)."""
    import sys
    import types
    if "primaite.session.ray_envs" in sys.modules:
        return "loaded"
    try:
        import ray.rllib.env.multi_agent_env  # noqa: F401
        return "ray"
    except Exception:
        pass

    class MultiAgentEnv:
        def __init__(self, *a, **k):
            pass

        def reset(self, *, seed=None, options=None):
            return None
    for name in ("ray.rllib", "ray.rllib.env", "ray.rllib.env.multi_agent_env"):
        m = types.ModuleType(name)
        m.__path__ = []
        sys.modules[name] = m
    sys.modules["ray.rllib.env.multi_agent_env"].MultiAgentEnv = MultiAgentEnv
    return "stub-base"


class MarlAdapter:
    """`PrimaiteRayMARLEnv` behind the single-agent surface the differentials use: one integer action `a` becomes the action
    `(a + k) mod n_k` of the k-th RL agent; the record carries every agent's observation and reward (the scalar reward is their sum, the
    per-agent rewards travel inside the observation record), the `__all__` flags and every agent's last history item. Everything else
    (`game`, `episode_counter`, `episode_scheduler`, `io`) is the wrapped environment's."""

    class _Space:
        def __init__(self, n: int):
            self.n = n

    def __init__(self, cfg):
        _ray_base_available()
        import logging
        from primaite.session.ray_envs import PrimaiteRayMARLEnv
        logging.getLogger("primaite.session.environment").setLevel(logging.WARNING)    # the class logs every step at INFO level
        self.env = PrimaiteRayMARLEnv(env_config=cfg)

    def __getattr__(self, name):
        return getattr(self.__dict__["env"], name)

    @property
    def action_space(self):
        return MarlAdapter._Space(max(int(a.action_manager.space.n) for a in self.env.agents.values()))

    def reset(self, seed=None, options=None):
        return self.env.reset(seed=seed, options=options)

    def step(self, a: int):
        acts = {name: (a + k) % int(ag.action_manager.space.n) for k, (name, ag) in enumerate(self.env.agents.items())}
        obs, rewards, term, trunc, infos = self.env.step(acts)
        info = {"agent_actions": {name: agent.history[-1] for name, agent in self.env.game.agents.items()}}
        return ({"obs": obs, "rewards": {k: repr(float(v)) for k, v in rewards.items()}, "terminateds": term, "truncateds": trunc},
                float(sum(rewards.values())), term.get("__all__"), trunc.get("__all__"), info)

    def close(self):
        self.env.close()


# ------------------------------------------------------------------------------------------------ (b) interleaving
_IMPORT_TIME: Dict[str, Any] = {}


def nmne_class_attrs_at_import() -> Dict[str, Any]:
    """the two NMNE class attributes as the import left them (captured the first time the rig looks, before any environment ran in this
    process): since the F-10 repair no operation writes them (None / False); the rig still normalises and shields them so that a
    re-introduced write is attributed"""
    if not _IMPORT_TIME:
        from primaite.game.agent.observations.nic_observations import NICObservation
        from primaite.simulator.network.hardware.base import NetworkInterface
        _IMPORT_TIME["nmne_config"] = NetworkInterface.nmne_config
        _IMPORT_TIME["capture_nmne"] = NICObservation.capture_nmne
    return _IMPORT_TIME


class Shield:
    """Save / restore a channel of process-global state around the other instance's operations (attribution only)."""

    def __init__(self, rng: bool, nmne: bool, simout: bool = False):
        self.rng, self.nmne, self.simout = rng, nmne, simout

    def __enter__(self):
        import random

        import numpy as np
        from primaite.game.agent.observations.nic_observations import NICObservation
        from primaite.simulator.network.hardware.base import NetworkInterface
        from primaite.simulator import SIM_OUTPUT
        self.saved = (random.getstate(), np.random.get_state(), NetworkInterface.nmne_config, NICObservation.capture_nmne, dict(vars(SIM_OUTPUT)))
        return self

    def __exit__(self, *exc):
        import random

        import numpy as np
        from primaite.game.agent.observations.nic_observations import NICObservation
        from primaite.simulator.network.hardware.base import NetworkInterface
        if self.rng:
            random.setstate(self.saved[0])
            np.random.set_state(self.saved[1])
        if self.nmne:
            NetworkInterface.nmne_config = self.saved[2]
            NICObservation.capture_nmne = self.saved[3]
        if self.simout:
            # the process-wide output settings (SIM_OUTPUT: save_* flags, log levels, paths) as they were before the other instance's operation
            from primaite.simulator import SIM_OUTPUT
            vars(SIM_OUTPUT).clear()
            vars(SIM_OUTPUT).update(self.saved[4])
        return False


_PINNED = False


def pin_opaque_widths():
    """`Frame.size` is the JSON length of the frame, and an ICMP frame carries `secrets.randbits(16)` as a decimal number: its digit count
    (1-5) leaks into link loads and traffic counters (nondeterminism of the F-9 kind: C03/C18's business, present in a single instance run
    twice). C04's differential keeps the randomness but pins the width: 16-bit identifiers are drawn from 32768..65535."""
    global _PINNED
    if _PINNED:
        return
    import secrets
    orig = secrets.randbits

    def randbits(k):
        v = orig(k)
        return v | (1 << (k - 1)) if k == 16 else v
    secrets.randbits = randbits
    # the same for wall-clock stamps: pydantic prints a datetime whose microsecond is 0 without the fraction (7 characters shorter), and
    # frames / NTP replies carry `datetime.now()`: one frame in a million is 7 bytes smaller. Keep the clock, pin the width.
    import datetime as _dtmod
    import sys

    class _DT(_dtmod.datetime):
        @classmethod
        def now(cls, tz=None):
            d = _dtmod.datetime.now(tz)
            return d if d.microsecond else d.replace(microsecond=1)
    for name, mod in list(sys.modules.items()):
        if name.startswith("primaite") and mod is not None and getattr(mod, "datetime", None) is _dtmod.datetime:
            setattr(mod, "datetime", _DT)
    _PINNED = True


NORMALISE_HOOKS: List[Callable[[], None]] = []   # c04.py registers the restoration of mutated import-only inventory objects here


def normalise_process_state():
    """Both runs of a differential start from the same process-global state (what a fresh interpreter would have, with a fixed seed):
    otherwise the leftovers of the previous run would be mistaken for an effect of the other instance."""
    import random

    import numpy as np
    from primaite.game.agent.observations.nic_observations import NICObservation
    from primaite.simulator.network.hardware.base import NetworkInterface
    from primaite.simulator.system.core.packet_capture import PacketCapture
    pin_opaque_widths()
    orig = nmne_class_attrs_at_import()
    random.seed(20240917)
    np.random.seed(20240917)
    if NetworkInterface.nmne_config is not orig["nmne_config"]:
        NetworkInterface.nmne_config = orig["nmne_config"]
    if NICObservation.capture_nmne is not orig["capture_nmne"]:
        NICObservation.capture_nmne = orig["capture_nmne"]
    PacketCapture.clear()
    for hook in NORMALISE_HOOKS:
        hook()


def run_schedule(cfg_a: Dict, cfg_b: Optional[Dict], schedule: List[Tuple], shield: Optional[Tuple[bool, bool]] = None,
                 globals_fp: Optional[Callable[[], Dict[str, str]]] = None, own: Optional[List[str]] = None) -> List[Dict[str, str]]:
    """schedule entries: ("A", "construct") ("A", "reset", seed or None) ("A", "step", act); the same for the OTHER instances "B", "C", …
    (all built from cfg_b) plus (other, "close"). Returns A's canonical trajectory. The others' entries are skipped when cfg_b is None
    (A alone).
    With `globals_fp`, the fingerprint of the run-time written, readable process globals right after each of A's OWN construct / reset
    operations is appended to `own` (what A's `from_config` left behind must be a function of A's scenario alone); after an operation of A
    that SEEDS (construct with a configured `game.seed`, `reset(seed=s)`) the state of the process-global generators is part of it."""
    envs: Dict[str, Any] = {}
    canon = Canon()
    traj: List[Dict[str, str]] = []
    normalise_process_state()
    for ent in schedule:
        who, op = ent[0], ent[1]
        if who != "A":
            if cfg_b is None:
                continue
            ctx = Shield(*shield) if shield else None
            if ctx:
                ctx.__enter__()
            try:
                if op == "construct":
                    envs[who] = scen.make_env(cfg_b)
                elif op == "reset":
                    envs[who].reset(seed=ent[2]) if ent[2] is not None else envs[who].reset()
                elif op == "step":
                    envs[who].step(ent[2] % int(envs[who].action_space.n))
                elif op == "close":
                    envs[who].close()
                    del envs[who]
                elif op == "draw":
                    foreign_draws(ent[2])
            finally:
                if ctx:
                    ctx.__exit__(None, None, None)
        else:
            if op == "construct":
                if configured_seed(cfg_a) is None:
                    # An environment built from a scenario WITHOUT `game.seed` starts from wherever the process-wide generators are - by
                    # design (`constructProgNoSeed` is not `progOK`: `noSeed_not_ok`), and from then on it runs on its own state. What such
                    # a construction may take from the process is that generator state and NOTHING else: both runs hand it the same one
                    # (as the reference of an unseeded `reset()` is handed the used environment's state). Before the F-11 repair this was
                    # hidden behind the open finding.
                    import random

                    import numpy as np
                    random.seed(20240918)
                    np.random.seed(20240918)
                envs["A"] = scen.make_env(cfg_a)
                if globals_fp is not None and own is not None:
                    own.append(json.dumps({**globals_fp(), "generators": rng_fp() if configured_seed(cfg_a) is not None else "-"}, sort_keys=True))
            elif op == "reset":
                # identifiers are numbered per EPISODE (a reset builds a new game: every identifier is new anyway); a trajectory-wide
                # numbering would carry a divergence of the previous episode (one more file created there) into every later record
                canon = Canon()
                traj += run_ops(envs["A"], [("reset", ent[2])], canon)
                if globals_fp is not None and own is not None:
                    own.append(json.dumps({**globals_fp(), "generators": rng_fp() if (ent[2] is not None and ent[2] >= 0) else "-"}, sort_keys=True))
            elif op == "step":
                traj += run_ops(envs["A"], [("step", ent[2])], canon)
    return traj


OTHERS = ("B", "C")


def foreign_draws(k: int) -> None:
    """another user of the process-wide generators (a training loop, a notebook cell, another library) between two operations of the
    environments: `k` draws from Python's and numpy's generator; an even `k` also RE-SEEDS both"""
    import random

    import numpy as np
    if k % 2 == 0:
        random.seed(1000 + k)
        np.random.seed(1000 + k)
    for _ in range(k):
        random.random()
        np.random.randint(0, 65535)


def schedule_well_formed(schedule: List[Tuple]) -> bool:
    """every instance is constructed before it is used and is not used after it was closed; A is constructed"""
    alive = set()
    for e in schedule:
        if e[1] == "construct":
            if e[0] in alive:
                return False
            alive.add(e[0])
        elif e[0] not in alive:
            return False
        elif e[1] == "close":
            alive.discard(e[0])
    return any(e[0] == "A" and e[1] == "construct" for e in schedule)


def gen_schedule(rng: Rng, n_a: int, space_a: int, space_b: int, b_first: bool, fam_a: Optional[List[Optional[int]]] = None,
                 fam_b: Optional[List[Optional[int]]] = None) -> List[Tuple]:
    """A: construct, reset(seed from the family), n_a steps, now and then another reset. Other instances B / C (same scenario): constructed
    before or after A, reset, stepped, reset mid-way, closed and re-built, closed and NOT re-built (then a successor is constructed later),
    two of them alive at once; one shape closes B BEFORE A is constructed (A is the successor of a closed instance)."""
    fam_a = fam_a or [rng.below(2 ** 31)]
    fam_b = fam_b or [rng.below(2 ** 31)]
    sa, sb = rng.choice(fam_a), rng.choice(fam_b)
    alive = {"B"}
    if b_first and rng.chance(1, 3):
        # B lives a little and is closed before A exists; C is built after A
        s: List[Tuple] = [("B", "construct"), ("B", "reset", sb)] + [("B", "step", rng.below(max(1, space_b))) for _ in range(rng.range(1, 4))]
        s += [("B", "close"), ("A", "construct"), ("C", "construct")]
        alive = {"C"}
        first_other = "C"
    else:
        s = [("B", "construct"), ("A", "construct")] if b_first else [("A", "construct"), ("B", "construct")]
        first_other = "B"
    if rng.chance(1, 2):
        s += [("A", "reset", sa), (first_other, "reset", sb)]
    else:
        s += [(first_other, "reset", sb), ("A", "reset", sa)]
    acts = gen_actions(rng.fork("a"), n_a, space_a)
    for i, a in enumerate(acts):
        k = rng.below(3)
        for _ in range(k):
            r = rng.below(24)
            if not alive:
                w = rng.choice(list(OTHERS))
                s.append((w, "construct"))
                alive.add(w)
                continue
            w = rng.choice(sorted(alive))
            if r == 0:
                s.append((w, "reset", rng.choice(fam_b)))
            elif r == 1:
                s += [(w, "close"), (w, "construct"), (w, "reset", rng.choice(fam_b))]
            elif r == 2:
                s.append((w, "close"))
                alive.discard(w)
            elif r == 3 and len(alive) < len(OTHERS):
                n = sorted(set(OTHERS) - alive)[0]
                s.append((n, "construct"))
                alive.add(n)
            elif r in (4, 5):
                # somebody else in the process uses (r = 5: also re-seeds) the process-wide generators; attributed to the instance `w` only so
                # that the schedule stays a list of (who, op, arg)
                s.append((w, "draw", 2 * rng.range(1, 4) + (r - 4) - 1))
            else:
                s.append((w, "step", rng.below(max(1, space_b))))
        if i and rng.chance(1, 10):
            s.append(("A", "reset", rng.choice(fam_a)))
        s.append(("A", "step", a))
    return s


# F-10 is REPAIRED (fix3-C04): a difference that disappears when the two NMNE class attributes are shielded is a regression and must be a
# VIOLATION. The merged known_findings.json (not editable from here) still lists F-10 as open with channel "nmne-class-attrs"; the channel is
# therefore reported under a name that stale entry does not match.
NMNE_CHANNEL = "nmne-class-attrs-written-again(F-10-regression)"
# F-11 is REPAIRED as well (fix4-RNG: every environment runs its operations on its own saved generator state): a difference that disappears
# when the process-wide generators are shielded is a regression and must be a VIOLATION; reported under a name the stale open entry
# (channel "global-rng") of the merged known_findings.json does not match
RNG_CHANNEL = "process-wide-generators-shared-again(F-11-regression)"
# the process-wide output settings (`primaite.simulator.SIM_OUTPUT`, written by every `PrimaiteIO(...)`, i.e. by every environment's
# construction): classified sink-only, so a trajectory difference that disappears when they are shielded is a VIOLATION
SIMOUT_CHANNEL = "sim-output-settings"


def interleaving(cfg_a: Dict, cfg_b: Dict, schedule: List[Tuple], globals_fp: Optional[Callable[[], Dict[str, str]]] = None) -> dict:
    own_solo: List[str] = []
    own_inter: List[str] = []
    solo = run_schedule(cfg_a, None, schedule, globals_fp=globals_fp, own=own_solo)
    inter = run_schedule(cfg_a, cfg_b, schedule, globals_fp=globals_fp, own=own_inter)
    diff = first_difference(solo, inter)
    res = {"diff": diff, "channels": [], "solo": solo, "inter": inter, "digest": digest(solo), "own_globals": None}
    # F-10 says: B's from_config OVERWRITES the class attributes A reads. A different defect class: A's own from_config does not
    # (re)write them, so what A sees right after its own construction / reset depends on who ran before.
    for i, (x, y) in enumerate(zip(own_solo, own_inter)):
        if x != y:
            res["own_globals"] = {"index": i, "solo": x[:400], "interleaved": y[:400]}
            break
    if diff is None:
        return res
    fixes = {}
    singles = ((RNG_CHANNEL, (True, False, False)), (NMNE_CHANNEL, (False, True, False)), (SIMOUT_CHANNEL, (False, False, True)))
    for name, sh in singles + (("both", (True, True, True)),):
        t = run_schedule(cfg_a, cfg_b, schedule, shield=sh)
        fixes[name] = first_difference(solo, t)
    if fixes["both"] is not None:
        res["channels"] = ["unknown"]
        res["residual"] = fixes["both"]
        # which known channels contribute as well
        for name, _ in singles:
            if fixes[name] != diff:
                res["channels"].append(name)
    else:
        alone = [name for name, _ in singles if fixes[name] is None]
        if alone:
            res["channels"] = alone[:1]
        else:
            contributing = [name for name, _ in singles if fixes[name] != diff]
            res["channels"] = contributing or [name for name, _ in singles]
    res["fixes"] = {k: (v is None) for k, v in fixes.items()}
    return res


def per_step_same(solo: List[Dict[str, str]], inter: List[Dict[str, str]]) -> List[bool]:
    return [a == b for a, b in zip(solo, inter)]


# ------------------------------------------------------------------------------------------------ model flags of a scenario
# agents that draw nothing from a process-global generator in `step`: a probabilistic agent and (since /repo 903a159) a random agent own a
# private generator whose seed is drawn from numpy's global one when the agent is BUILT (construct / reset: `draws_at_build`)
RNG_AGENT_SAFE = {"proxy-agent", "probabilistic-agent", "random-agent"}
RNG_APPS = {"data-manipulation-bot", "dos-bot"}


def uses_global_rng(cfg: Dict) -> bool:
    for a in cfg.get("agents", []):
        if a.get("type") not in RNG_AGENT_SAFE:
            return True
    for n in cfg.get("simulation", {}).get("network", {}).get("nodes", []):
        for app in n.get("applications", []) or []:
            if app.get("type") in RNG_APPS:
                return True
    return False


def draws_at_build(cfg: Dict) -> bool:
    """does `from_config` of this scenario draw from a process-global generator? Every scripted agent does (periodic / TAP agents draw their
    start step and node; a probabilistic agent draws the seed of its PRIVATE generator from numpy's global one)"""
    return any(a.get("type") != "proxy-agent" for a in cfg.get("agents", []))


def nmne_key(cfg: Dict) -> str:
    from primaite.simulator.network.nmne import NMNEConfig
    c = NMNEConfig(**cfg.get("simulation", {}).get("network", {}).get("nmne_config", {}))
    return json.dumps(c.model_dump(), sort_keys=True)


def model_lines(cfg_a: Dict, cfg_b: Dict, schedule: List[Tuple], ids: Dict[str, int]) -> Tuple[List[str], List[int]]:
    """protocol lines for drv_c04 and, for each line, the index of A's trajectory record it corresponds to (-1: none). The seed arguments go
    to the model as they are (`resetopt 0`, `resetopt none`, `constructopt <game.seed or none>`): which skeleton program a call is, is the
    model's business (Model.Isolation.resetCall / constructCall)."""
    def nid(cfg):
        return ids.setdefault(nmne_key(cfg), len(ids))
    inst = {"A": 0, "B": 1, "C": 2}
    lines = ["reset",
             f"new 0 7 {nid(cfg_a)} 0 {int(uses_global_rng(cfg_a))} 0 0 {int(draws_at_build(cfg_a))}",
             f"new 1 9 {nid(cfg_b)} 0 {int(uses_global_rng(cfg_b))} 0 0 {int(draws_at_build(cfg_b))}",
             f"new 2 9 {nid(cfg_b)} 0 {int(uses_global_rng(cfg_b))} 0 0 {int(draws_at_build(cfg_b))}"]
    idx = [-1, -1, -1, -1]
    k = 0
    for ent in schedule:
        who = inst[ent[0]]
        cfg = cfg_a if who == 0 else cfg_b
        op = ent[1]
        if op == "close":
            continue
        if op == "draw":
            lines.append(f"ev {who} foreign 0")
            idx.append(-1)
            continue
        if op == "construct":
            gs = cfg.get("game", {}).get("seed")
            lines.append(f"ev {who} constructopt {seed_text(gs if isinstance(gs, int) else None)}")
            idx.append(-1)
        elif op == "reset":
            lines.append(f"ev {who} resetopt {seed_text(ent[2])}")
            idx.append(k if who == 0 else -1)
            k += 1 if who == 0 else 0
        else:
            lines.append(f"ev {who} step {ent[2] % 1000}")
            idx.append(k if who == 0 else -1)
            k += 1 if who == 0 else 0
    return lines, idx


# ------------------------------------------------------------------------------------------------ (c) identity
_ATOMS = (str, bytes, int, float, bool, complex, type(None), type, types.ModuleType, types.BuiltinFunctionType, enum.Enum, logging.Logger,
          logging.Handler, logging.Formatter, re.Pattern, range, type(Ellipsis), type(NotImplemented))


def reachable(root: Any, limit: int = 2_000_000) -> Dict[int, Any]:
    """ids of the mutable objects reachable from root through attributes, containers, bound methods and closures."""
    import ipaddress
    import pathlib

    import numpy as np
    seen: Dict[int, Any] = {}
    visited = set()
    stack = [root]
    while stack and len(visited) < limit:
        o = stack.pop()
        if id(o) in visited:
            continue
        visited.add(id(o))
        if isinstance(o, _ATOMS) or isinstance(o, (ipaddress.IPv4Address, ipaddress.IPv4Network, ipaddress.IPv4Interface, pathlib.PurePath, np.dtype)):
            continue
        if isinstance(o, (tuple, frozenset)):
            stack.extend(o)
            continue
        if isinstance(o, types.MethodType):
            stack.append(o.__self__)
            continue
        if isinstance(o, types.FunctionType):
            for c in o.__closure__ or ():
                try:
                    stack.append(c.cell_contents)
                except ValueError:
                    pass
            continue
        if isinstance(o, (types.WrapperDescriptorType, types.MethodWrapperType, types.MethodDescriptorType, property, classmethod, staticmethod)):
            continue
        seen[id(o)] = o
        if hasattr(o, "cache_info") and hasattr(o, "__wrapped__"):
            # a functools.lru_cache / cache wrapper: what it has cached is state of the wrapper (visible to the collector only)
            import gc
            stack.extend(x for x in gc.get_referents(o) if isinstance(x, (list, dict)))
        if isinstance(o, dict):
            stack.extend(o.keys())
            stack.extend(o.values())
        elif isinstance(o, (list, set)):
            stack.extend(o)
        elif isinstance(o, np.ndarray):
            pass
        else:
            d = getattr(o, "__dict__", None)
            if isinstance(d, dict):
                stack.extend(d.values())
            priv = getattr(o, "__pydantic_private__", None)
            if isinstance(priv, dict):
                stack.extend(priv.values())
            for sl in getattr(type(o), "__slots__", ()) or ():
                if isinstance(sl, str) and hasattr(o, sl):
                    try:
                        stack.append(getattr(o, sl))
                    except Exception:
                        pass
    return seen


def import_time_roots() -> List[Tuple[str, Any]]:
    """(label, object) of the class-level / module-level tables and objects of the loaded primaite modules (the import-only globals)"""
    import sys

    def objlike(v) -> bool:
        try:
            if isinstance(v, (dict, list, set)):
                return True
            return hasattr(v, "__dict__") and not isinstance(v, (type, types.ModuleType, types.FunctionType, property, classmethod, staticmethod))
        except Exception:
            return False
    roots = []
    for name, mod in list(sys.modules.items()):
        if not name.startswith("primaite") or mod is None:
            continue
        for k, v in list(vars(mod).items()):
            if objlike(v):
                roots.append((f"{name}.{k}", v))
            if isinstance(v, type) and getattr(v, "__module__", "").startswith("primaite"):
                for ck, cv in list(vars(v).items()):
                    # dunder attributes are interpreter / pydantic internals. NB `__pydantic_parent_namespace__` strongly holds
                    # dict-typed locals of the frame that first instantiated a lazily rebuilt model (a pydantic artefact that
                    # pins the first game's kwargs in memory; nothing in primaite reads it) - see design_notes/C04.md
                    if ck.startswith("__"):
                        continue
                    if objlike(cv):
                        roots.append((f"{v.__module__}.{v.__qualname__}.{ck}", cv))
    return roots


def import_time_objects() -> Dict[int, Any]:
    """objects reachable from class-level / module-level tables of the loaded primaite modules (the import-only globals)."""
    out: Dict[int, Any] = {}
    for _, r in import_time_roots():
        try:
            out.update(reachable(r, limit=200_000))
        except Exception:
            pass
    return out


def name_import_time_object(oid: int) -> str:
    """the module / class attribute through which the object with this id is reachable"""
    for label, r in import_time_roots():
        try:
            if oid in reachable(r, limit=200_000):
                return label
        except Exception:
            pass
    return "?"


def stray_import_time_objects(game: Any, allowed: Dict[int, Any]) -> List[Tuple[str, str]]:
    """(type, module-level name) of every mutable import-time object that the game's object graph references, the AirSpaceFrequency
    constants (never mutated: frequency table entries) excepted: an object handed out from module / class level to a caller that may
    fill it in is shared by every episode and every environment of the process"""
    from primaite.simulator.network.airspace import AirSpaceFrequency
    freq = reachable(AirSpaceFrequency._registry)
    g = reachable(game)
    out = {}
    for i, o in g.items():
        if i in allowed and i not in freq:
            out[i] = f"{type(o).__module__}.{type(o).__qualname__}"
    # report the outermost objects only (a shared model drags its dict / set attributes along)
    inner = set()
    for i in out:
        for j in reachable(g[i], limit=10_000):
            if j != i:
                inner.add(j)
    return sorted((t, name_import_time_object(i)) for i, t in out.items() if i not in inner)


def shared_between_history_items(env) -> List[str]:
    """mutable objects (the response, its data, responses nested in it) that two DIFFERENT history items of the environment's agents have
    in common: every item must own the answer it records, or a later write through one answer rewrites the other. (`parameters` are, by
    design, the entry of the agent's own action map and are not looked at.)"""
    owner: Dict[int, str] = {}
    out = []
    for name, ag in env.game.agents.items():
        for k, it in enumerate(ag.history):
            objs = {}
            part = getattr(it, "response", None)
            if part is not None:
                objs.update(reachable(part, limit=2000))
            for i, o in objs.items():
                me = f"{name}#{k}"
                if i in owner and owner[i] != me:
                    out.append(f"{type(o).__module__}.{type(o).__qualname__} shared by history items {owner[i]} and {me}")
                owner.setdefault(i, me)
    return out


def shared_objects(a: Any, b: Any, allowed: Dict[int, Any]) -> List[str]:
    ra, rb = reachable(a), reachable(b)
    out = []
    for i in set(ra) & set(rb):
        if i in allowed:
            continue
        o = ra[i]
        if isinstance(o, (dict, list, set)) and len(o) == 0:
            pass  # an empty shared container is still a shared mutable object: report it
        out.append(f"{type(o).__module__}.{type(o).__qualname__}")
    return sorted(out)


# ------------------------------------------------------------------------------------------------ (d) scheduler
def scheduler_copies(env, episodes: List[int]) -> List[str]:
    problems = []
    sched = env.episode_scheduler
    for e in episodes:
        c1, c2 = sched(e), sched(e)
        if c1 != c2:
            problems.append(f"scheduler({e}) returns different scenarios on two calls")
        r1, r2 = reachable(c1), reachable(c2)
        if set(r1) & set(r2):
            problems.append(f"scheduler({e}) returns objects sharing {len(set(r1) & set(r2))} mutable sub-objects")
        own = reachable(getattr(sched, "config", None)) if hasattr(sched, "config") else {}
        if set(own) & set(r1):
            problems.append(f"scheduler({e}) hands out {len(set(own) & set(r1))} of its own mutable sub-objects")
        g = reachable(env.game)
        if set(own) & set(g):
            problems.append(f"the game holds {len(set(own) & set(g))} mutable objects of the scheduler's stored scenario")
    return problems
