"""Deep state fingerprint for C05's "refused requests change nothing".

`describe_state()` is what the components CHOOSE to show (observations are built from it).  A refused request must not change
anything at all, so this module walks the OBJECT GRAPH below the simulation — every pydantic field, private attribute and
extra attribute of every object reachable from it, dictionaries (with their key ORDER), lists, sets, enums, addresses —
and flattens it into `path -> value`.  Only logging machinery is left out (a refusal is allowed to write a log line):

    attributes named   sys_log, pcap, logger, _LOGGER            (SysLog / PacketCapture / logging handles)
    objects of type    SysLog, PacketCapture, Logger, PrettyTable, validators, functions / bound methods / lambdas

Request managers are NOT skipped: their key lists (in dictionary order) and the identity of what each key leads to are part of
the fingerprint, so a refusal that re-registers, drops or re-targets a route is seen.  Object identity is canonical by
first-visit path (`@<path>`), so the same object graph always gives the same fingerprint within one process.
"""
from __future__ import annotations

import enum
from collections import deque
from typing import Any, Dict, List, Tuple

SKIP_ATTRS = {"sys_log", "pcap", "logger", "_LOGGER", "_logger"}
SKIP_TYPES = {"SysLog", "PacketCapture", "Logger", "PrettyTable", "RootLogger", "_SimOutput"}
PRIMS = (type(None), bool, int, float, str, bytes)


def _key(k: Any) -> str:
    if isinstance(k, enum.Enum):
        return f"{type(k).__name__}.{k.name}"
    if isinstance(k, tuple):
        return "(" + ",".join(_key(x) for x in k) + ")"
    return repr(k) if isinstance(k, PRIMS) else f"<{type(k).__name__}:{k}>"


class Walker:
    def __init__(self, max_nodes: int = 2_000_000):
        self.out: Dict[str, str] = {}
        self.seen: Dict[int, str] = {}
        self.keep: List[Any] = []          # keeps visited objects alive so ids stay unique during the walk
        self.max_nodes = max_nodes
        self.n_objects = 0
        from primaite.simulator.core import RequestManager, RequestPermissionValidator, RequestType
        self.RM, self.RT, self.RV = RequestManager, RequestType, RequestPermissionValidator

    def walk(self, root: Any, path: str = ""):
        todo = deque([(root, path)])
        while todo:
            o, p = todo.popleft()
            if len(self.out) > self.max_nodes:
                raise RuntimeError("fingerprint larger than max_nodes")
            if isinstance(o, PRIMS):
                self.out[p] = repr(o)
                continue
            if isinstance(o, enum.Enum):
                self.out[p] = f"{type(o).__name__}.{o.name}"
                continue
            tn = type(o).__name__
            if tn in SKIP_TYPES or isinstance(o, self.RV):
                continue
            if callable(o) and not isinstance(o, self.RM):
                continue  # functions, bound methods, lambdas, classes
            oid = id(o)
            if oid in self.seen:
                self.out[p] = "@" + self.seen[oid]
                continue
            self.seen[oid] = p
            self.keep.append(o)
            self.n_objects += 1
            if isinstance(o, self.RM):
                # structure of the request tree: keys in dictionary order, kind of target, identity of a sub-manager
                self.out[p + "/#keys"] = "[" + ",".join(_key(k) for k in o.request_types) + "]"
                for k, rt in o.request_types.items():
                    if isinstance(rt.func, self.RM):
                        todo.append((rt.func, f"{p}/{_key(k)}"))
                    else:
                        self.out[f"{p}/{_key(k)}"] = "<leaf>"
                continue
            if isinstance(o, dict):
                self.out[p + "/#keys"] = "[" + ",".join(_key(k) for k in o) + "]"
                for k, v in o.items():
                    if isinstance(k, str) and k in SKIP_ATTRS:
                        continue
                    todo.append((v, f"{p}/{_key(k)}"))
                continue
            if isinstance(o, (list, tuple, deque)):
                self.out[p + "/#len"] = str(len(o))
                for i, v in enumerate(o):
                    todo.append((v, f"{p}/{i}"))
                continue
            if isinstance(o, (set, frozenset)):
                self.out[p] = "{" + ",".join(sorted(_key(x) for x in o)) + "}"
                continue
            attrs: List[Tuple[str, Any]] = []
            d = getattr(o, "__dict__", None)
            if isinstance(d, dict):
                attrs += list(d.items())
            for extra in ("__pydantic_private__", "__pydantic_extra__"):
                try:
                    e = object.__getattribute__(o, extra)
                except Exception:
                    e = None
                if isinstance(e, dict):
                    attrs += list(e.items())
            if not attrs:
                slots = [s for c in type(o).__mro__ for s in getattr(c, "__slots__", ()) if isinstance(s, str)]
                vals = [(s, getattr(o, s)) for s in slots if hasattr(o, s) and not s.startswith("__")]
                if vals and tn not in ("IPv4Address", "IPv4Network", "IPv4Interface"):
                    attrs = vals
                else:
                    r = repr(o)
                    self.out[p] = r if " at 0x" not in r else f"<{tn}>"
                    continue
            self.out[p + "/#type"] = tn
            for k, v in attrs:
                if k in SKIP_ATTRS:
                    continue
                todo.append((v, f"{p}/{k}"))


def fingerprint(sim) -> Dict[str, str]:
    w = Walker()
    w.walk(sim, "sim")
    return w.out


def diff(a: Dict[str, str], b: Dict[str, str], cap: int = 8) -> List[str]:
    out = []
    for k in a.keys() | b.keys():
        if a.get(k) != b.get(k):
            out.append(f"{k}: {a.get(k, '<absent>')[:80]} -> {b.get(k, '<absent>')[:80]}")
    out.sort()
    return out[:cap] + ([f"... {len(out) - cap} more"] if len(out) > cap else [])


def leaf_count_describe_state(state: Any) -> int:
    """number of leaf values of a describe_state() dictionary (for the evidence: how much more the fingerprint covers)"""
    if isinstance(state, dict):
        return sum(leaf_count_describe_state(v) for v in state.values())
    if isinstance(state, (list, tuple)):
        return sum(leaf_count_describe_state(v) for v in state)
    return 1


def attr_names(fp: Dict[str, str]) -> set:
    return {p.rsplit("/", 1)[-1] for p in fp}


def describe_names(state: Any, acc: set = None) -> set:
    acc = set() if acc is None else acc
    if isinstance(state, dict):
        for k, v in state.items():
            acc.add(str(k))
            describe_names(v, acc)
    elif isinstance(state, (list, tuple)):
        for v in state:
            describe_names(v, acc)
    return acc
