"""R-env (C04 part, order inside ONE operation).

Since the F-10 repair the only process global that an operation re-writes and then reads is the state of the GENERATORS: `watch_seed` monitors
that — a function that draws from a global generator (inventory `rngUses`) entered before the operation's `random.seed` call is
`draw-before-seed`, an operation called with a seed that returns without having called it is `not-seeded`; the package functions entered
before the seeding are handed back for the cross-check of the static call graph. The placeholder monitor below stays for any readable
run-time written global that may (re)appear.

The derived class `rewrittenBeforeRead` needs that, inside a construct / reset operation,
the operation's write of a run-time written global comes BEFORE every read of it, and that the write happens at all.

Dynamic extraction with `sys.setprofile`: before the operation every readable run-time written global (`module:Class.attr`) is replaced by a
same-valued object of fresh identity (a placeholder); at every Python call event the monitor polls which placeholders are still installed
(= not yet written by this operation) and whether the function being entered is one of the inventory's reader functions of that global.
  * a reader entered while the placeholder is still installed  -> `read-before-own-write`
  * a placeholder still installed when the operation returns    -> `not-rewritten` (the operation's result depends on what ran before)
The readers / writers come from the regenerated inventory (harness/extract/sharedstate.py) and the committed role table (sink functions
are not readers)."""
from __future__ import annotations

import copy
import importlib
import sys
from typing import Any, Dict, List, Tuple


class _B(int):
    """same truth value / number as a bool or int, fresh identity"""


def _owner(name: str) -> Tuple[Any, str]:
    mod, _, path = name.partition(":")
    o = importlib.import_module("primaite" if mod == "primaite" else "primaite." + mod)
    parts = path.split(".")
    for p in parts[:-1]:
        o = getattr(o, p)
    return o, parts[-1]


def _code_of(fname: str):
    mod, _, path = fname.partition(":")
    try:
        o = importlib.import_module("primaite" if mod == "primaite" else "primaite." + mod)
        parts = path.split(".")
        for p in parts[:-1]:
            o = getattr(o, p)
        raw = o.__dict__.get(parts[-1]) if hasattr(o, "__dict__") and parts[-1] in getattr(o, "__dict__", {}) else getattr(o, parts[-1])
    except Exception:
        return None
    for attr in ("fget", "__func__", "__wrapped__"):
        if hasattr(raw, attr) and getattr(raw, attr) is not None:
            raw = getattr(raw, attr)
    return getattr(raw, "__code__", None)


def _placeholder(v: Any) -> Any:
    if isinstance(v, (bool, int)):
        return _B(v)
    if hasattr(v, "model_copy"):
        return v.model_copy(deep=True)
    return copy.copy(v)


class Monitor:
    def __init__(self, names: List[str], inv, roles: Dict[str, Tuple[List[str], bool]]):
        self.drawers: Dict[Any, str] = {}
        for (_, f, c) in inv.rng:
            if c.split(".")[-1] not in ("seed", "getstate", "setstate", "get_state", "set_state"):   # a draw (not seeding, not the F-11 save / restore)
                code = _code_of(f)
                if code is not None:
                    self.drawers[code] = f
        self.names = names
        self.owner = {n: _owner(n) for n in names}
        self.readers: Dict[Any, List[str]] = {}      # code object -> globals it reads
        self.reader_names: Dict[Any, str] = {}
        self.unresolved: List[str] = []
        for n in names:
            e = inv.entries[n]
            for f in sorted(e["readers"] - e["writers"]):
                ph, sink = roles.get(f, ([], True))
                if sink or not ph:
                    continue
                c = _code_of(f)
                if c is None:
                    self.unresolved.append(f)
                    continue
                self.readers.setdefault(c, []).append(n)
                self.reader_names[c] = f

    def run(self, what: str, fn, watch_seed: bool = False) -> dict:
        ph = {}
        for n in self.names:
            cls, attr = self.owner[n]
            ph[n] = _placeholder(getattr(cls, attr))
            setattr(cls, attr, ph[n])
        pending = dict(ph)
        problems: List[dict] = []
        stats = {"events": 0, "reads_after_write": 0, "write_event": {}, "before_write": set(), "seed_event": None, "draws_after_seed": 0}
        seeding = {"pending": bool(watch_seed)}

        def prof(frame, event, arg):
            if event != "call":
                return
            stats["events"] += 1
            if watch_seed:
                code = frame.f_code
                if seeding["pending"] and code.co_name == "seed" and code.co_filename.endswith("random.py"):
                    seeding["pending"] = False
                    stats["seed_event"] = stats["events"]
                d = self.drawers.get(code)
                if d is not None:
                    if seeding["pending"]:
                        if len(problems) < 5:
                            problems.append({"kind": "draw-before-seed", "global": "<process-global generators>", "reader": d, "operation": what})
                    else:
                        stats["draws_after_seed"] += 1
            if pending or (watch_seed and seeding["pending"]):
                # the package functions entered before the operation's write: cross-check of the STATIC call graph (extractor)
                mod = frame.f_globals.get("__name__", "")
                if mod == "primaite" or mod.startswith("primaite."):
                    qn = frame.f_code.co_qualname.replace(".<locals>", "")
                    if "<" not in qn:
                        stats["before_write"].add(f"{mod[len('primaite.'):] if mod != 'primaite' else 'primaite'}:{qn}")
                for n in list(pending):
                    cls, attr = self.owner[n]
                    if getattr(cls, attr) is not pending[n]:
                        del pending[n]
                        stats["write_event"][n] = stats["events"]
            gl = self.readers.get(frame.f_code)
            if gl:
                for n in gl:
                    if n in pending:
                        if len(problems) < 5:
                            problems.append({"kind": "read-before-own-write", "global": n, "reader": self.reader_names[frame.f_code], "operation": what})
                    else:
                        stats["reads_after_write"] += 1
        old = sys.getprofile()
        sys.setprofile(prof)
        try:
            out = fn()
        finally:
            sys.setprofile(old)
        for n in self.names:
            cls, attr = self.owner[n]
            if getattr(cls, attr) is ph[n]:
                problems.append({"kind": "not-rewritten", "global": n, "operation": what})
        if watch_seed and seeding["pending"]:
            problems.append({"kind": "not-seeded", "global": "<process-global generators>", "operation": what})
        return {"problems": problems, "stats": stats, "result": out}


def monitor_build(cfg: Dict, names: List[str], inv, roles, seeds=(11, 0)) -> dict:
    """construct an environment from cfg (given a configured `game.seed`), then reset it with each seed argument, all under the monitor"""
    from harness.lib import scen
    from harness.rigs import isolation as iso
    iso.normalise_process_state()
    mon = Monitor(names, inv, roles)
    cfg = copy.deepcopy(cfg)
    cfg.setdefault("game", {})["seed"] = seeds[-1]
    runs = [mon.run(f"PrimaiteGymEnv(cfg) with game.seed={seeds[-1]}", lambda: scen.make_env(cfg), watch_seed=True)]
    env = runs[0]["result"]
    for s in seeds:
        for a in (0, 1, 2):
            try:
                env.step(a % int(env.action_space.n))
            except Exception:
                break
        runs.append(mon.run(f"reset(seed={s})", lambda s=s: env.reset(seed=s), watch_seed=True))
    try:
        env.close()
    except Exception:
        pass
    before = {"__init__": sorted(runs[0]["stats"]["before_write"]), "reset": sorted(set().union(*[r["stats"]["before_write"] for r in runs[1:]]))}
    return {"before_write": before, "operations": len(runs),
            "problems": [p for r in runs for p in r["problems"]], "events": sum(r["stats"]["events"] for r in runs),
            "reads_after_write": sum(r["stats"]["reads_after_write"] for r in runs),
            "draws_after_seed": sum(r["stats"]["draws_after_seed"] for r in runs),
            "seed_event": [r["stats"]["seed_event"] for r in runs],
            "write_event": {"construct": runs[0]["stats"]["write_event"], "reset": runs[1]["stats"]["write_event"]},
            "readers_monitored": sorted(set(mon.reader_names.values())), "drawers_monitored": sorted(set(mon.drawers.values())),
            "unresolved": mon.unresolved}
