"""R-env (C01 part): run the real PrimaiteGymEnv (and, for scenarios with several RL agents, the real PrimaiteGame driven
the way PrimaiteRayMARLEnv drives it) on operation lists and evaluate the episode contract after every operation.

An operation list (`ops`) is plain JSON, so that every violation record can be re-executed by `check.py C01 --replay f`:

    ["reset", seed | null, options | null]     env.reset(seed=…, options=…)      (reset() without arguments when both are null)
    <int>                                      env.step(<int>)                   (gym driver)
    {"<agent>": <int>, …}                      one MARL step with these actions  (game driver)
    ["mask"]                                   env.action_masks()
    ["spaces"]                                 read env.action_space / env.observation_space
    ["close"]                                  env.close()

`play` returns the protocol lines for the Lean model (Drivers/C01.lean), what the implementation showed for each of them,
the oracle failures, the executed prefix of the operation list and statistics about the scripted agents.
"""
from __future__ import annotations

import copy
import math
import traceback
from typing import Any, Dict, List, Optional, Tuple

from harness.lib import scen
from harness.lib.core import Rng
from harness.rigs import request as rreq

DOCUMENTED = {"pending", "success", "failure", "unreachable"}
CHECK_REQUESTS = False      # opt-in oracle of `_check_step` (set by C01's pair / variant units and by their replays)


# ------------------------------------------------------------------------------------------------ scenario helpers
def proxy_agent_cfg(cfg: Dict) -> Optional[Dict]:
    for a in cfg.get("agents", []):
        if a.get("type") == "proxy-agent":
            return a
    return None


def proxy_agent_cfgs(cfg: Dict) -> List[Dict]:
    return [a for a in cfg.get("agents", []) if a.get("type") == "proxy-agent"]


def with_proxy(cfg: Dict) -> Dict:
    """Scenarios shipped without an RL agent get a minimal one (empty observation, do-nothing map) so that they can be
    driven through the gym API; its action map is then replaced by `augmented`."""
    if proxy_agent_cfg(cfg) is not None:
        return cfg
    cfg = copy.deepcopy(cfg)
    cfg.setdefault("agents", []).append({
        "ref": "verif_defender", "team": "BLUE", "type": "proxy-agent",
        "observation_space": {"type": "custom", "options": {"components": [{"type": "none", "label": "ICS", "options": {}}]}},
        "action_space": {"action_map": {0: {"action": "do-nothing", "options": {}}}},
        "reward_function": {"reward_components": [{"type": "dummy", "weight": 1.0}]},
        "agent_settings": {"flatten_obs": False},
    })
    return cfg


def augmented(cfg: Dict, rng: Rng, n_actions: int) -> Optional[Dict]:
    """Same scenario, but the RL agent's action map is generated: n_actions entries over every registered action type."""
    import primaite.game.game  # noqa: F401
    from primaite.game.agent.actions.abstract import AbstractAction
    reg = dict(AbstractAction._registry)
    cfg = copy.deepcopy(cfg)
    pa = proxy_agent_cfg(cfg)
    if pa is None:
        return None
    game = scen.make_game(cfg)
    vocab = rreq._vocab(game.simulation)
    amap = {0: {"action": "do-nothing", "options": {}}}
    tries = 0
    while len(amap) < n_actions and tries < n_actions * 20:
        tries += 1
        ident, opts, _ = rreq.gen_action(rng, game.simulation, vocab, reg)
        try:
            reg[ident].ConfigSchema(type=ident, **opts)
        except Exception:
            continue
        amap[len(amap)] = {"action": ident, "options": opts}
    pa.setdefault("action_space", {})["action_map"] = amap
    return cfg


def scheduled_dirs() -> Dict[str, Any]:
    """Folder scenarios shipped with the package (schedule.yaml + base scenario + variants)."""
    return {d.name: d for d in sorted(scen.PKG.iterdir()) if d.is_dir() and (d / "schedule.yaml").exists()}


def quiet(cfg: Dict) -> Dict:
    io = dict(cfg.get("io_settings") or {})
    io.update(scen.QUIET_IO)
    cfg["io_settings"] = io
    return cfg


def schedule_entries(path) -> List[Dict]:
    """The merged configuration of every entry of a folder scenario's schedule (what `reset` number k+1 would load)."""
    import yaml
    from primaite.session.episode_schedule import build_scheduler
    n = len(yaml.safe_load((path / "schedule.yaml").read_text())["schedule"])
    sched = build_scheduler(str(path))
    return [quiet(copy.deepcopy(sched(k))) for k in range(n)]


# ------------------------------------------------------------------------------------------------ drivers
class MarlDriver:
    """PrimaiteGame with several RL agents, driven exactly as `PrimaiteRayMARLEnv.__init__/reset/step/close` drive it (the
    class itself needs ray.rllib, which cannot be imported here).  The call order of its `step` and `reset` is pinned to
    the source by Gen/Episode.lean (`marlStepPipeline`, `marlResetPipeline`, obligation C01_gen_pipeline)."""

    def __init__(self, cfg: Dict):
        from primaite.game.game import PrimaiteGame
        from primaite.session.episode_schedule import build_scheduler
        from primaite.session.io import PrimaiteIO
        self.episode_counter = 0
        self.episode_scheduler = build_scheduler(copy.deepcopy(cfg))
        self.io = PrimaiteIO.from_config(self.episode_scheduler(0).get("io_settings", {}))
        self.game = PrimaiteGame.from_config(self.episode_scheduler(self.episode_counter))
        self._agent_ids = list(self.game.rl_agents.keys())

    @property
    def agents(self):
        return {name: self.game.rl_agents[name] for name in self._agent_ids}

    def _get_obs(self):
        import gymnasium
        out = {}
        for name in self._agent_ids:
            agent = self.game.rl_agents[name]
            obs = gymnasium.spaces.flatten(agent.observation_manager.space, agent.observation_manager.current_observation)
            if agent.config.agent_settings.action_masking:
                out[name] = {"action_mask": self.game.action_mask(name), "observations": obs}
            else:
                out[name] = obs
        return out

    def reset(self, seed=None, options=None):
        from primaite.game.game import PrimaiteGame
        from primaite.simulator.system.core.packet_capture import PacketCapture
        if seed is not None:   # gymnasium's Env.reset(seed) only seeds env.np_random; the scenario's RNGs are seeded here so that replays repeat
            import random

            import numpy as np
            random.seed(seed)
            np.random.seed(seed)
        self.episode_counter += 1
        PacketCapture.clear()
        self.game = PrimaiteGame.from_config(self.episode_scheduler(self.episode_counter))
        self.game.setup_for_episode(episode=self.episode_counter)
        state = self.game.get_sim_state()
        self.game.update_agents(state)
        return self._get_obs(), {}

    def step(self, actions: Dict[str, int]):
        for name, action in actions.items():
            self.agents[name].store_action(action)
        self.game.pre_timestep()
        self.game.apply_agent_actions()
        self.game.advance_timestep()
        state = self.game.get_sim_state()
        self.game.update_agents(state)
        obs = self._get_obs()
        rewards = {name: agent.reward_function.current_reward for name, agent in self.agents.items()}
        truncated = self.game.calculate_truncated()
        info = {"agent_actions": {name: agent.history[-1] for name, agent in self.game.agents.items()}}
        return obs, rewards, False, truncated, info

    def action_masks(self):
        return {name: self.game.action_mask(name) for name in self._agent_ids}

    def close(self):
        pass


class GameStepDriver:
    """A scenario WITHOUT an RL agent, advanced by `PrimaiteGame.step()` (the loop the game offers for scripted agents only; its call
    order is pinned by Gen/Episode.lean `gameStepPipeline`).  `reset` builds a new game from the configuration, as the environments do."""

    def __init__(self, cfg: Dict):
        from primaite.game.game import PrimaiteGame
        self.cfg = copy.deepcopy(cfg)
        self.episode_counter = 0
        self.game = PrimaiteGame.from_config(copy.deepcopy(self.cfg))

    def reset(self, seed=None, options=None):
        from primaite.game.game import PrimaiteGame
        from primaite.simulator.system.core.packet_capture import PacketCapture
        if seed is not None:
            import random

            import numpy as np
            random.seed(seed)
            np.random.seed(seed)
        self.episode_counter += 1
        PacketCapture.clear()
        self.game = PrimaiteGame.from_config(copy.deepcopy(self.cfg))
        self.game.setup_for_episode(episode=self.episode_counter)
        return {}, {}

    def step(self, _action=None):
        self.game.step()
        rewards = {name: agent.reward_function.current_reward for name, agent in self.game.agents.items()}
        info = {"agent_actions": {name: agent.history[-1] for name, agent in self.game.agents.items()}}
        return {}, rewards, False, self.game.calculate_truncated(), info

    def action_masks(self):
        return {}

    def close(self):
        self.game.close()


def make_driver(cfg: Dict, marl=False):
    """marl: False = PrimaiteGymEnv, True = MarlDriver, "game" = GameStepDriver."""
    if marl == "game":
        return GameStepDriver(cfg)
    return MarlDriver(cfg) if marl else scen.make_env(cfg)


# ------------------------------------------------------------------------------------------------ observation of one run
def fmt(env) -> str:
    g = env.game
    lens = ",".join(str(len(a.history)) for a in g.agents.values())
    last = ",".join(str(a.history[-1].timestep) if a.history else "-" for a in g.agents.values())
    return f"step={g.step_counter} hist={lens} lastts={last}"


def seq_sum(xs: List[float]) -> float:
    t = 0.0
    for x in xs:
        t += x
    return t


def exc_info(e: BaseException) -> Dict[str, Any]:
    """Where an exception came from: innermost frame inside primaite, and whether a scripted agent's `get_action` /
    `process_action_response` is on the stack (then the agent file is named)."""
    frames = traceback.extract_tb(e.__traceback__)
    prim = [f for f in frames if "/primaite/" in f.filename]
    inner = prim[-1] if prim else (frames[-1] if frames else None)
    where = f"{inner.filename.split('primaite/')[-1]}:{inner.name}" if inner else "?"
    agent_frames = [f for f in frames if "/game/agent/" in f.filename and f.name in ("get_action", "process_action_response")]
    out = {"exc": type(e).__name__, "msg": (str(e).splitlines()[0] if str(e) else "")[:300], "where": where,
           "stack": [f"{f.filename.split('primaite/')[-1]}:{f.name}" for f in prim[-5:]]}
    if agent_frames:
        out["agent_file"] = agent_frames[-1].filename.split("/")[-1]
        out["agent_method"] = agent_frames[-1].name
    return out


def _is_tap(agent) -> bool:
    return hasattr(agent, "current_kill_chain_stage") and hasattr(agent, "next_execution_timestep")


class Play:
    """Result of `play`."""

    def __init__(self):
        self.lines: List[str] = []       # protocol lines for the Lean driver
        self.impl: List[str] = []        # what the implementation showed, one per line
        self.fails: List[dict] = []      # oracle failures
        self.log: List[Any] = []         # executed prefix of ops (the failing operation included)
        self.steps = 0
        self.resets = 0
        self.surface: Dict[str, int] = {}   # public-surface calls made and checked
        self.scripted: Dict[str, dict] = {}  # per scripted agent: kind, team, non-idle actions, outcomes, kill-chain stages
        self.stage_samples: Dict[str, List[str]] = {}   # TAP agent -> stage name after every step of the LAST episode
        self.raised: Optional[dict] = None
        self._dirty = False              # steps taken since the scripted-agent statistics were last collected


def _typed(x: Any) -> Any:
    """structure with type names: `'1.2.3.4'` and `IPv4Address('1.2.3.4')` differ"""
    if isinstance(x, dict):
        return ("dict", sorted(((repr(k), _typed(v)) for k, v in x.items()), key=repr))
    if isinstance(x, (list, tuple)):
        return (type(x).__name__, [_typed(v) for v in x])
    if isinstance(x, bool):       # AgentHistoryItem.request is validated by pydantic, which stores a bool as the int it equals
        return ("int", repr(int(x)))
    return (type(x).__name__, repr(x))


def _check_step(env, p: Play, max_len: Optional[int], before: Tuple[int, Dict[str, int]], reward, terminated, truncated, obs, info,
                op) -> None:
    g = env.game
    tick0, lens0 = before
    log = list(p.log)
    if g.step_counter != tick0 + 1:
        p.fails.append({"kind": "tick-not-advanced-by-one", "before": tick0, "after": g.step_counter, "log": log})
    rewards = reward if isinstance(reward, dict) else {"": reward}
    for who, r in rewards.items():
        try:
            if isinstance(r, bool) or not math.isfinite(float(r)):
                p.fails.append({"kind": "reward-not-finite", "value": repr(r), "agent": who, "log": log})
        except Exception:
            p.fails.append({"kind": "reward-not-numeric", "value": repr(r)[:80], "agent": who, "log": log})
    if obs is None:
        p.fails.append({"kind": "no-observation", "log": log})
    if terminated is not False:
        p.fails.append({"kind": "terminated-not-false", "value": repr(terminated), "log": log})
    if max_len is not None and bool(truncated) != (g.step_counter >= max_len):
        p.fails.append({"kind": "truncated-flag-wrong", "steps": g.step_counter, "max": max_len, "value": repr(truncated), "log": log})
    for name, ag in g.agents.items():
        if len(ag.history) != lens0.get(name, 0) + 1:
            p.fails.append({"kind": "not-exactly-one-history-item-per-step", "agent": name, "before": lens0.get(name, 0),
                            "after": len(ag.history), "log": log})
            continue
        it = ag.history[-1]
        if it.timestep != tick0:
            p.fails.append({"kind": "history-item-stamped-with-wrong-tick", "agent": name, "stamp": it.timestep, "tick": tick0, "log": log})
        if info["agent_actions"].get(name) is not it:
            p.fails.append({"kind": "info-not-last-item", "agent": name, "log": log})
        if getattr(it.response, "status", None) not in DOCUMENTED:
            p.fails.append({"kind": "response-without-status", "agent": name, "action": it.action, "response": repr(it.response)[:80],
                            "log": log})
        if CHECK_REQUESTS:
            # opt-in oracle: a handler never MUTATES the request it was given - the request stored in the history item is still the one
            # `form_request` builds from the item's action and parameters (same structure, same types)
            try:
                again = ag.action_manager.form_request(action_identifier=it.action, action_options=it.parameters)
                if _typed(again) != _typed(it.request):
                    p.fails.append({"kind": "handler-mutated-its-request", "agent": name, "action": it.action, "formed": repr(again)[:200],
                                    "stored": repr(it.request)[:200], "log": log})
            except Exception:
                pass
        if not isinstance(it.action, str) or not isinstance(it.parameters, dict):
            p.fails.append({"kind": "history-item-without-action", "agent": name, "log": log})
        tot = seq_sum([h.reward for h in ag.history if h.reward is not None])
        if any(h.reward is None for h in ag.history) or tot != ag.reward_function.total_reward:
            p.fails.append({"kind": "total-not-sum-of-step-rewards", "agent": name, "total": ag.reward_function.total_reward,
                            "sum": tot, "log": log})


def _scripted_stats(env, p: Play) -> None:
    """Statistics of the episode that is about to end (called before a reset and at the end of the run)."""
    g = env.game
    if not p._dirty:
        return
    p._dirty = False
    for name, ag in g.agents.items():
        typ = ag.config.type
        if typ == "proxy-agent":
            continue
        st = p.scripted.setdefault(name, {"type": typ, "team": ag.config.team, "actions": 0, "not_success": 0, "shapes": {}, "stages": [],
                                          "failed_in_stage": {}})
        samples = p.stage_samples.get(name, [])
        st["timeline"] = [(h.timestep, h.action, getattr(h.response, "status", "?")) for h in ag.history if h.action != "do-nothing"][:80]
        st["stage_samples"] = list(samples)
        for h in ag.history:
            if h.action == "do-nothing":
                continue
            st["actions"] += 1
            status = getattr(h.response, "status", "?")
            keys = ",".join(sorted(str(k) for k in (getattr(h.response, "data", None) or {}).keys()))[:120]
            shape = f"{h.action}|{status}|{keys}"
            st["shapes"][shape] = st["shapes"].get(shape, 0) + 1
            if status != "success":
                st["not_success"] += 1
                if h.timestep < len(samples):
                    stg = samples[h.timestep]
                    st["failed_in_stage"][stg] = st["failed_in_stage"].get(stg, 0) + 1
        for s in samples:
            if not st["stages"] or st["stages"][-1] != s:
                st["stages"].append(s)
    p.stage_samples = {}


def play(env, ops: List[Any], max_len: Optional[int], p: Optional[Play] = None, announce: bool = True) -> Play:
    """Execute `ops` on a driver (PrimaiteGymEnv or MarlDriver), evaluating the episode contract after every operation."""
    p = p or Play()
    marl = isinstance(env, (MarlDriver, GameStepDriver))
    if announce:
        n_agents = len(env.game.agents)
        ml = max_len if max_len is not None else env.game.options.max_episode_length
        # the model's `new` is a reset to episode 0; the implementation's constructor does not call update_agents, but the
        # bookkeeping observable here (tick 0, empty histories) is the same
        p.lines += ["reset", f"new {n_agents} {ml}"]
        p.impl += ["ok", fmt(env)]
    for op in ops:
        p.log.append(op)
        log = list(p.log)
        if isinstance(op, list) and op and op[0] == "reset":
            seed = op[1] if len(op) > 1 else None
            options = op[2] if len(op) > 2 else None
            _scripted_stats(env, p)
            try:
                if seed is None and options is None:
                    obs, info = env.reset()
                elif options is None:
                    obs, info = env.reset(seed=seed)
                else:
                    obs, info = env.reset(seed=seed, options=options)
            except Exception as e:
                p.raised = {"kind": "reset-raises", **exc_info(e), "reset_number": p.resets + 1, "log": log}
                p.fails.append(p.raised)
                return p
            p.resets += 1
            p.lines.append("envreset")
            p.impl.append(fmt(env))
            if obs is None or info != {}:
                p.fails.append({"kind": "reset-return-shape", "log": log})
            for a in env.game.agents.values():
                if a.history or a.reward_function.total_reward != 0:
                    p.fails.append({"kind": "reset-not-fresh", "agent": a.config.ref, "log": log})
            if options is not None:
                p.surface["reset(options=…)"] = p.surface.get("reset(options=…)", 0) + 1
            p.surface["reset(seed)" if seed is not None else "reset()"] = p.surface.get("reset(seed)" if seed is not None else "reset()", 0) + 1
            continue
        if isinstance(op, list) and op and op[0] in ("mask", "spaces", "close"):
            try:
                if op[0] == "mask":
                    m = env.action_masks()
                    if not marl:
                        n = len(env.agent.action_manager.action_map)
                        if len(m) != n or any(int(x) not in (0, 1) for x in m):
                            p.fails.append({"kind": "action-mask-shape", "len": len(m), "actions": n, "log": log})
                elif op[0] == "spaces":
                    if not marl:
                        sp_a, sp_o = env.action_space, env.observation_space
                        if int(sp_a.n) != len(env.agent.action_manager.action_map) or sp_o is None:
                            p.fails.append({"kind": "space-shape", "log": log})
                else:
                    env.close()
            except Exception as e:
                p.raised = {"kind": f"{op[0]}-raises", **exc_info(e), "log": log}
                p.fails.append(p.raised)
                return p
            key = {"mask": "action_masks()", "spaces": "action_space/observation_space", "close": "close()"}[op[0]]
            p.surface[key] = p.surface.get(key, 0) + 1
            continue
        # a step
        g = env.game
        before = (g.step_counter, {n: len(a.history) for n, a in g.agents.items()})
        past_trunc = max_len is not None and g.step_counter >= max_len
        try:
            obs, reward, terminated, truncated, info = env.step(op)
        except Exception as e:
            g = env.game
            missing = [n for n, a in g.agents.items() if len(a.history) != before[1].get(n, 0) + 1]
            ident = None
            if not marl:
                try:
                    ident = env.agent.action_manager.action_map[op]
                except Exception:
                    ident = None
            p.raised = {"kind": "step-raises", **exc_info(e), "action": ident[0] if ident else None, "options": ident[1] if ident else None,
                        "tick": before[0], "agents_without_item_for_this_tick": missing[:6], "log": log}
            p.fails.append(p.raised)
            p._dirty = True
            _scripted_stats(env, p)
            return p
        p.steps += 1
        p._dirty = True
        if past_trunc:
            p.surface["step after truncation"] = p.surface.get("step after truncation", 0) + 1
        p.lines.append(f"step {0 if marl else int(op)}")
        p.impl.append(f"{fmt(env)} trunc={1 if truncated else 0} term={1 if terminated else 0}")
        _check_step(env, p, max_len, before, reward, terminated, truncated, obs, info, op)
        for name, ag in env.game.agents.items():
            if _is_tap(ag):
                p.stage_samples.setdefault(name, []).append(ag.current_kill_chain_stage.name)
    _scripted_stats(env, p)
    return p


def run_ops(cfg: Dict, ops: List[Any], max_len: Optional[int] = None, marl: bool = False) -> Play:
    """Build the environment for `cfg` (optionally with another max_episode_length) and play `ops`."""
    cfg = copy.deepcopy(cfg)
    if max_len is not None:
        cfg.setdefault("game", {})["max_episode_length"] = max_len
    else:
        max_len = (cfg.get("game") or {}).get("max_episode_length", 256)
    p = Play()
    try:
        env = make_driver(cfg, marl)
    except Exception as e:
        p.raised = {"kind": "env-construction-raises", **exc_info(e), "log": []}
        p.fails.append(p.raised)
        return p
    return play(env, ops, max_len, p)


# ------------------------------------------------------------------------------------------------ generated operation lists
def gen_ops(rng: Rng, n_actions: int, episodes: int, steps_per_episode: int, surface: bool = True) -> List[Any]:
    """Several episodes of random actions over the whole action space with a mid-episode reset, a run past truncation, and
    the rest of the public surface sprinkled in between (masks, spaces, close, reset without seed / with options)."""
    ops: List[Any] = []
    for ep in range(episodes):
        how = rng.below(6) if surface else 0
        if how == 4:
            ops.append(["reset", None, None])
        elif how == 5:
            ops.append(["reset", rng.below(2 ** 31), {"verif": ep}])
        else:
            ops.append(["reset", rng.below(2 ** 31), None])
        k = steps_per_episode if not (ep == 0 and episodes > 1) else rng.range(1, max(1, steps_per_episode // 2))  # mid-episode reset
        for _ in range(k):
            if surface and rng.chance(1, 12):
                ops.append([rng.choice(["mask", "spaces", "close"])])
            ops.append(rng.below(n_actions))
    if surface:
        ops.append(["close"])
    return ops


def n_actions_of(cfg: Dict) -> int:
    pa = proxy_agent_cfg(cfg)
    return len(((pa or {}).get("action_space") or {}).get("action_map") or {}) or 1


def run_scheduled(path, rng: Rng, extra_resets: int, steps: int) -> Play:
    """An episode-scheduled scenario: more resets than the schedule has entries (the scheduler must loop), a few steps each."""
    import yaml
    from primaite.session.environment import PrimaiteGymEnv
    p = Play()
    n_sched = len(yaml.safe_load((path / "schedule.yaml").read_text())["schedule"])
    try:
        env = PrimaiteGymEnv(env_config=str(path))
    except Exception as e:
        p.raised = {"kind": "env-construction-raises", **exc_info(e), "log": []}
        p.fails.append(p.raised)
        return p
    for ep in range(n_sched + extra_resets):
        # the model is re-announced at every reset because max_episode_length and the number of agents may differ per entry
        q = play(env, [["reset", rng.below(2 ** 31), None]], None, p, announce=False)
        if q.raised:
            q.raised["schedule_length"] = n_sched
            return p
        max_len = env.game.options.max_episode_length
        p.lines[-1:] = ["reset", f"new {len(env.game.agents)} {max_len}"]
        p.impl[-1:] = ["ok", fmt(env)]
        n = int(env.action_space.n)
        ops = [rng.below(n) for _ in range(steps if ep % 2 else max(1, steps // 2))]
        play(env, ops, max_len, p, announce=False)
        if p.raised:
            return p
    play(env, [["close"]], None, p, announce=False)
    return p


def replay_scheduled(env, ops: List[Any]) -> Play:
    """Re-execute the operation list of `run_scheduled` (the model is re-announced after every reset, as there)."""
    p = Play()
    chunk: List[Any] = []
    chunks: List[List[Any]] = []
    for op in ops:
        if isinstance(op, list) and op and op[0] == "reset":
            if chunk:
                chunks.append(chunk)
            chunk = [op]
        else:
            chunk.append(op)
    if chunk:
        chunks.append(chunk)
    for ch in chunks:
        if ch and isinstance(ch[0], list) and ch[0][0] == "reset":
            play(env, ch[:1], None, p, announce=False)
            if p.raised:
                return p
            max_len = env.game.options.max_episode_length
            p.lines[-1:] = ["reset", f"new {len(env.game.agents)} {max_len}"]
            p.impl[-1:] = ["ok", fmt(env)]
            ch = ch[1:]
        play(env, ch, env.game.options.max_episode_length, p, announce=False)
        if p.raised:
            return p
    return p
