"""R-env (C01 part): run the real PrimaiteGymEnv on shipped scenarios and on variants whose RL action map is replaced by a
generated one (every registered action type x existing / missing / powered-off components), over several episodes with
mid-episode resets, and record the episode bookkeeping at every step."""
from __future__ import annotations

import copy
import math
from typing import Any, Dict, List, Optional, Tuple

from harness.lib import scen
from harness.lib.core import Rng
from harness.rigs import request as rreq

DOCUMENTED = {"pending", "success", "failure", "unreachable"}


def proxy_agent_cfg(cfg: Dict) -> Optional[Dict]:
    for a in cfg.get("agents", []):
        if a.get("type") == "proxy-agent":
            return a
    return None


def with_proxy(cfg: Dict) -> Dict:
    """Scenarios shipped without an RL agent get a minimal one (empty observation, do-nothing map) so that they can be
    driven through the gym API; its action map is then replaced by `augmented`."""
    if proxy_agent_cfg(cfg) is not None:
        return cfg
    cfg = copy.deepcopy(cfg)
    cfg.setdefault("agents", []).append({
        "ref": "verif_defender", "team": "BLUE", "type": "proxy-agent",
        "observation_space": {"type": "custom", "options": {"components": [{"type": "none", "label": "ICS", "options": {}}]}},
        "action_space": {"action_map": {0: {"action": "do-nothing", "options": {}}}},
        "reward_function": {"reward_components": [{"type": "dummy", "weight": 1.0}]},
        "agent_settings": {"flatten_obs": False},
    })
    return cfg


def augmented(cfg: Dict, rng: Rng, n_actions: int) -> Optional[Dict]:
    """Same scenario, but the RL agent's action map is generated: n_actions entries over every registered action type."""
    import primaite.game.game  # noqa: F401
    from primaite.game.agent.actions.abstract import AbstractAction
    reg = dict(AbstractAction._registry)
    cfg = copy.deepcopy(cfg)
    pa = proxy_agent_cfg(cfg)
    if pa is None:
        return None
    game = scen.make_game(cfg)
    vocab = rreq._vocab(game.simulation)
    amap = {0: {"action": "do-nothing", "options": {}}}
    tries = 0
    while len(amap) < n_actions and tries < n_actions * 20:
        tries += 1
        ident, opts, _ = rreq.gen_action(rng, game.simulation, vocab, reg)
        try:
            reg[ident].ConfigSchema(type=ident, **opts)
        except Exception:
            continue
        amap[len(amap)] = {"action": ident, "options": opts}
    pa.setdefault("action_space", {})["action_map"] = amap
    return cfg


def fmt(env) -> str:
    g = env.game
    lens = ",".join(str(len(a.history)) for a in g.agents.values())
    last = ",".join(str(a.history[-1].timestep) if a.history else "-" for a in g.agents.values())
    return f"step={g.step_counter} hist={lens} lastts={last}"


def seq_sum(xs: List[float]) -> float:
    t = 0.0
    for x in xs:
        t += x
    return t


def run_case(cfg: Dict, rng: Rng, episodes: int, steps_per_episode: int, max_len: int) -> Tuple[List[str], List[str], List[dict], List[Any]]:
    """Returns (model protocol lines, implementation lines, oracle failures, action log)."""
    cfg = copy.deepcopy(cfg)
    cfg.setdefault("game", {})["max_episode_length"] = max_len
    lines: List[str] = []
    impl: List[str] = []
    fails: List[dict] = []
    log: List[Any] = []
    try:
        env = scen.make_env(cfg)
    except Exception as e:
        return [], [], [{"kind": "env-construction-raises", "exc": type(e).__name__, "msg": str(e)[:300]}], log
    n_agents = len(env.game.agents)
    lines.append("reset")
    impl.append("ok")
    lines.append(f"new {n_agents} {max_len}")
    # the model's `new` is a reset to episode 0; the implementation's constructor does not call update_agents, but the
    # bookkeeping observable here (tick 0, empty histories) is the same
    impl.append(fmt(env))
    for ep in range(episodes):
        try:
            obs, info = env.reset(seed=rng.below(2 ** 31))
        except Exception as e:
            fails.append({"kind": "reset-raises", "exc": type(e).__name__, "msg": str(e)[:300], "log": list(log)})
            break
        log.append("reset")
        lines.append("envreset")
        impl.append(fmt(env))
        for a in env.game.agents.values():
            if a.history or a.reward_function.total_reward != 0:
                fails.append({"kind": "reset-not-fresh", "agent": a.config.ref, "log": list(log)})
        if not env.observation_space.contains(obs):
            pass  # C02's business
        n = int(env.action_space.n)
        amap = env.agent.action_manager.action_map
        k = steps_per_episode if not (ep == 0 and episodes > 1) else rng.range(1, max(1, steps_per_episode // 2))  # mid-episode reset
        for t in range(k):
            act = rng.below(n)
            ident = amap[act][0]
            log.append(act)
            try:
                obs, reward, terminated, truncated, info = env.step(act)
            except Exception as e:
                import traceback
                tb = traceback.extract_tb(e.__traceback__)[-1]
                fails.append({"kind": "step-raises", "exc": type(e).__name__, "msg": str(e)[:300], "action": ident,
                              "options": amap[act][1], "where": f"{tb.filename.split('primaite/')[-1]}:{tb.name}", "log": list(log)})
                return lines, impl, fails, log
            lines.append(f"step {act}")
            impl.append(f"{fmt(env)} trunc={1 if truncated else 0} term={1 if terminated else 0}")
            try:
                if not math.isfinite(float(reward)):
                    fails.append({"kind": "reward-not-finite", "value": repr(reward), "log": list(log)})
            except Exception:
                fails.append({"kind": "reward-not-numeric", "value": repr(reward), "log": list(log)})
            if obs is None:
                fails.append({"kind": "no-observation", "log": list(log)})
            for name, ag in env.game.agents.items():
                it = ag.history[-1]
                if info["agent_actions"][name] is not it:
                    fails.append({"kind": "info-not-last-item", "agent": name, "log": list(log)})
                if getattr(it.response, "status", None) not in DOCUMENTED:
                    fails.append({"kind": "response-without-status", "agent": name, "action": it.action, "response": repr(it.response)[:80],
                                  "log": list(log)})
                tot = seq_sum([h.reward for h in ag.history if h.reward is not None])
                if any(h.reward is None for h in ag.history) or tot != ag.reward_function.total_reward:
                    fails.append({"kind": "total-not-sum-of-step-rewards", "agent": name, "total": ag.reward_function.total_reward,
                                  "sum": tot, "log": list(log)})
    try:
        env.close()
    except Exception as e:
        fails.append({"kind": "close-raises", "exc": type(e).__name__, "log": list(log)})
    return lines, impl, fails, log


def scheduled_dirs() -> Dict[str, Any]:
    """Folder scenarios shipped with the package (schedule.yaml + base scenario + variants)."""
    return {d.name: d for d in sorted(scen.PKG.iterdir()) if d.is_dir() and (d / "schedule.yaml").exists()}


def run_scheduled(path, rng: Rng, extra_resets: int, steps: int) -> Tuple[List[str], List[str], List[dict], List[Any]]:
    """An episode-scheduled scenario: more resets than the schedule has entries (the scheduler must loop), a few steps each."""
    import yaml
    from primaite.session.environment import PrimaiteGymEnv
    lines: List[str] = []
    impl: List[str] = []
    fails: List[dict] = []
    log: List[Any] = []
    n_sched = len(yaml.safe_load((path / "schedule.yaml").read_text())["schedule"])
    try:
        env = PrimaiteGymEnv(env_config=str(path))
    except Exception as e:
        return [], [], [{"kind": "env-construction-raises", "exc": type(e).__name__, "msg": str(e)[:300]}], log
    for ep in range(n_sched + extra_resets):
        try:
            env.reset(seed=rng.below(2 ** 31))
        except Exception as e:
            fails.append({"kind": "reset-raises", "exc": type(e).__name__, "msg": str(e)[:300], "reset_number": ep + 1,
                          "schedule_length": n_sched, "log": list(log)})
            break
        log.append("reset")
        max_len = env.game.options.max_episode_length
        lines += ["reset", f"new {len(env.game.agents)} {max_len}"]
        impl += ["ok", fmt(env)]
        for a in env.game.agents.values():
            if a.history or a.reward_function.total_reward != 0:
                fails.append({"kind": "reset-not-fresh", "agent": a.config.ref, "log": list(log)})
        n = int(env.action_space.n)
        for t in range(steps if ep % 2 else max(1, steps // 2)):
            act = rng.below(n)
            log.append(act)
            try:
                obs, reward, terminated, truncated, info = env.step(act)
            except Exception as e:
                fails.append({"kind": "step-raises", "exc": type(e).__name__, "msg": str(e)[:300],
                              "action": env.agent.action_manager.action_map[act][0], "log": list(log)})
                return lines, impl, fails, log
            lines.append(f"step {act}")
            impl.append(f"{fmt(env)} trunc={1 if truncated else 0} term={1 if terminated else 0}")
            if not math.isfinite(float(reward)):
                fails.append({"kind": "reward-not-finite", "value": repr(reward), "log": list(log)})
    try:
        env.close()
    except Exception as e:
        fails.append({"kind": "close-raises", "exc": type(e).__name__, "log": list(log)})
    return lines, impl, fails, log
