"""R-req: the live request tree of real simulations against the Lean model of `__call__` / `check_valid`.

* snapshot the tree (keys in dictionary order, one validator id per edge, one handler id per leaf);
* for a request, evaluate every validator met along the path ON THE REAL OBJECTS and hand the valuation to the model;
* stubbed mode: leaf handlers replaced by recorders, so dispatch can be compared exactly (status, depth, handler, #args)
  on thousands of routes and mutations without changing the simulation;
* live mode: real handlers, response must carry one of the four statuses, refused requests must leave describe_state()
  unchanged.
"""
from __future__ import annotations

import json
from typing import Any, Dict, List, Optional, Tuple
from urllib.parse import quote

from harness.lib.core import Rng


def enc(k: Any) -> str:
    """wire form of one request element (ints and strs are different dictionary keys in Python; `True`, `1` and `1.0` are
    the SAME key: they compare equal and hash alike, so `request_types[True]` finds NIC number 1)."""
    if isinstance(k, bool):
        return "i:" + str(int(k))
    if isinstance(k, int):
        return "i:" + str(k)
    if isinstance(k, float) and k == k and k not in (float("inf"), float("-inf")) and k == int(k):
        return "i:" + str(int(k))
    if isinstance(k, str):
        return "s:" + quote(k, safe="")
    return "o:" + quote(json.dumps(k, sort_keys=True, default=str), safe="")


class Snap:
    def __init__(self, rm):
        from primaite.simulator.core import RequestManager
        self.RequestManager = RequestManager
        self.vid: Dict[int, int] = {}      # id(RequestType) -> validator/edge id
        self.hid: Dict[int, int] = {}      # id(RequestType) -> handler id (leaves)
        self.leaves: List[Any] = []
        self.forwarders: List[Any] = []
        self.tokens = self._walk(rm)
        self.n_edges = len(self.vid)

    def _walk(self, rm) -> List[str]:
        toks = ["N", str(len(rm.request_types))]
        for key, rt in rm.request_types.items():
            v = self.vid.setdefault(id(rt), len(self.vid))
            toks += [enc(key), str(v)]
            if isinstance(rt.func, self.RequestManager):
                toks += self._walk(rt.func)
            else:
                h = self.hid.setdefault(id(rt), len(self.hid))
                inner = getattr(getattr(rt.func, "__self__", None), "_request_manager", None)
                if getattr(rt.func, "__name__", "") == "apply_request" and isinstance(inner, self.RequestManager):
                    # a route registered with a component's bound `apply_request` instead of its manager: a LEAF for `check_valid`
                    # (and for the model), but `__call__` forwards through it — it must not be stubbed (a stub would hide the rules
                    # behind it); the handlers behind it are stubbed instead
                    self.forwarders.append(rt)
                    self._walk(inner)
                else:
                    self.leaves.append(rt)
                toks += ["L", str(h)]
        return toks


def valuation(rm, path: List[Any], snap: Snap, context=None) -> Tuple[Dict[int, bool], Optional[str]]:
    """Truth value of every validator on the path (as far as the keys exist), evaluated on the real objects with the
    options that validator would be given. Returns also the name of an exception a validator raised, if any."""
    vals: Dict[int, bool] = {}
    cur = rm
    for i, key in enumerate(path):
        try:
            present = key in cur.request_types
        except TypeError:  # unhashable element (a dict inside a request)
            return vals, None
        if not present:
            return vals, None
        rt = cur.request_types[key]
        try:
            vals[snap.vid[id(rt)]] = bool(rt.validator(path[i + 1:], context))
        except Exception as e:  # a validator indexing missing options
            return vals, type(e).__name__
        if isinstance(rt.func, snap.RequestManager):
            cur = rt.func
        else:
            return vals, None
    return vals, None


def model_line(path: List[Any], vals: Dict[int, bool]) -> str:
    return "call " + " ".join(f"{v}={1 if t else 0}" for v, t in sorted(vals.items())) + " -- " + " ".join(enc(k) for k in path)


class Probe:
    """Instrumentation applied in-process: depth recorder on RequestManager.__call__, stub or pass-through leaf handlers."""

    def __init__(self, sim, snap: Snap, stub: bool):
        self.sim, self.snap, self.stub = sim, snap, stub
        self.depth = -1
        self.reached: Optional[Tuple[int, int]] = None
        self._orig_call = None
        self._orig_funcs: List[Tuple[Any, Any]] = []

    def __enter__(self):
        from primaite.interface.request import RequestResponse
        RM = self.snap.RequestManager
        self._orig_call = RM.__call__
        probe = self

        def wrapped(rm_self, request, context):
            probe.depth += 1
            return probe._orig_call(rm_self, request, context)
        RM.__call__ = wrapped
        for rt in self.snap.leaves:
            orig = rt.func
            h = self.snap.hid[id(rt)]
            self._orig_funcs.append((rt, orig))
            if self.stub:
                def f(request, context, h=h):
                    probe.reached = (h, len(request))
                    return RequestResponse(status="success", data={"stub": h})
            else:
                def f(request, context, h=h, orig=orig):
                    probe.reached = (h, len(request))
                    return orig(request, context)
            rt.func = f
        return self

    def __exit__(self, *a):
        self.snap.RequestManager.__call__ = self._orig_call
        for rt, orig in self._orig_funcs:
            rt.func = orig

    def call(self, path: List[Any]):
        """Returns (canonical outcome string comparable with the model, response or exception)."""
        self.depth, self.reached = -1, None
        try:
            resp = self.sim.apply_request(list(path))
        except Exception as e:
            import traceback
            tb = traceback.extract_tb(e.__traceback__)
            self.last_where = " <- ".join(f"{t.filename.split('primaite/')[-1]}:{t.name}:{t.lineno}" for t in tb[-3:][::-1])
            self.last_msg = str(e)[:200]
            return f"raised {type(e).__name__}", e
        if self.reached is not None:
            return f"reached {self.reached[0]} {self.reached[1]}", resp
        st = getattr(resp, "status", None)
        if st == "unreachable":
            return f"unreachable {self.depth}", resp
        if st == "failure":
            return f"failure {self.depth}", resp
        return f"odd-response {st!r}", resp


# ------------------------------------------------------------------------------------------ request families
def mutations(rng: Rng, path: List[Any], k: int = 4) -> List[List[Any]]:
    """delete / misspell / truncate / append at random depths."""
    out = []
    n = len(path)
    for _ in range(k):
        kind = rng.below(8)
        i = rng.below(n) if n else 0
        if kind == 0 and n:
            out.append(path[:i] + path[i + 1:])
        elif kind == 1 and n:
            e = path[i]
            out.append(path[:i] + [(e + "_x") if isinstance(e, str) else (e + 97 if isinstance(e, int) else "x")] + path[i + 1:])
        elif kind == 2:
            out.append(path[:i])
        elif kind == 3:
            out.append(path + [rng.choice(["extra", 1, "root"])])
        elif kind == 4:
            j = rng.below(n) if n else 0
            q = list(path)
            if n:
                q[i], q[j] = q[j], q[i]
            out.append(q)
        elif kind == 5 and n:  # an element that cannot be a dictionary key at all (RequestFormat allows dicts as options)
            out.append(path[:i] + [rng.choice([["x"], {"a": 1}, [], {}])] + path[i + 1:])
        elif kind == 6 and n:  # non-string scalars: None, float, bool, negative int
            out.append(path[:i] + [rng.choice([None, 1.5, True, -1, 0, ""])] + path[i + 1:])
        else:                  # empty request / over-long request
            out.append([] if rng.chance(1, 3) else path + ["extra"] * rng.range(2, 40))
    return out


def _vocab(sim) -> Dict[str, Any]:
    nodes = sim.network.nodes.values()
    v: Dict[str, Any] = {"nodes": {}}
    for n in nodes:
        sw = n.software_manager.software
        from primaite.simulator.system.applications.application import Application
        from primaite.simulator.system.services.service import Service
        fs = n.file_system
        folders = {f.name: [x.name for x in f.files.values()] + [x.name for x in f.deleted_files.values()] for f in
                   list(fs.folders.values()) + list(fs.deleted_folders.values())}
        ips = [str(i.ip_address) for i in n.network_interface.values() if hasattr(i, "ip_address")]
        v["nodes"][n.config.hostname] = {
            "kind": type(n).__name__,
            "services": [k for k, s in sw.items() if isinstance(s, Service)],
            "applications": [k for k, s in sw.items() if isinstance(s, Application)],
            "folders": folders, "nics": list(n.network_interface.keys()), "ips": ips,
            "users": list(getattr(n.user_manager, "users", {}).keys()) if hasattr(n, "user_manager") else [],
        }
    return v


def gen_action(rng: Rng, sim, vocab: Dict[str, Any], registry: Dict[str, Any], ghost_p: Tuple[int, int] = (1, 6)) -> Tuple[str, Dict, bool]:
    """One (action type, options) with parameters naming existing components (or, with probability ghost_p, a missing one).
    Returns (identifier, options, names_only_existing_components)."""
    ident = rng.choice(sorted(registry))
    cls = registry[ident]
    fields = [k for k in cls.ConfigSchema.model_fields if k != "type"]
    names = sorted(vocab["nodes"])
    want = {"target_router": ("Router", "WirelessRouter"), "target_firewall_nodename": ("Firewall",)}
    node = rng.choice(names) if names else "ghost"
    for f in fields:
        if f in want:
            c = [n for n in names if vocab["nodes"][n]["kind"] in want[f]]
            if c:
                node = rng.choice(c)
    if ident.startswith("network-port") or ident.startswith("host-nic"):
        pass
    exists = True
    info = vocab["nodes"].get(node, {"services": [], "applications": [], "folders": {}, "nics": [], "ips": [], "users": []})

    def ghost() -> bool:
        nonlocal exists
        if rng.chance(*ghost_p):
            exists = False
            return True
        return False
    all_ips = [ip for n in names for ip in vocab["nodes"][n]["ips"]] or ["10.0.0.1"]
    opts: Dict[str, Any] = {}
    folder = None
    for f in fields:
        fi = cls.ConfigSchema.model_fields[f]
        if f in ("node_name", "source_node", "target_nodename", "target_router", "target_firewall_nodename"):
            opts[f] = "ghost_node" if ghost() else node
        elif f == "application_name":
            pool = info["applications"]
            opts[f] = "ghost-app" if (ghost() or not pool) else rng.choice(pool)
            if not pool:
                exists = False
        elif f == "service_name":
            pool = info["services"]
            opts[f] = "ghost-svc" if (ghost() or not pool) else rng.choice(pool)
            if not pool:
                exists = False
        elif f in ("folder_name", "target_folder_name", "exfiltration_folder_name"):
            pool = sorted(info["folders"])
            folder = "ghost_folder" if (ghost() or not pool) else rng.choice(pool)
            if folder == "ghost_folder" and "create" not in ident:
                exists = False
            opts[f] = folder
        elif f in ("file_name", "target_file_name"):
            pool = info["folders"].get(folder, [])
            opts[f] = "ghost_file.txt" if (ghost() or not pool) else rng.choice(pool)
            if opts[f] == "ghost_file.txt" and "create" not in ident:
                exists = False
        elif f in ("nic_num", "port_num"):
            pool = info["nics"]
            opts[f] = 99 if (ghost() or not pool) else rng.choice(pool)
            if not pool:
                exists = False
        elif f == "position":
            opts[f] = rng.choice([0, 1, 5, 22, 23]) if not rng.chance(1, 8) else rng.choice([24, 25, 100, -1])
        elif f in ("src_ip", "dst_ip"):
            opts[f] = rng.choice(["ALL"] + all_ips)
        elif f in ("src_wildcard", "dst_wildcard"):
            opts[f] = rng.choice(["NONE", "0.0.0.255", "0.0.255.255"])
        elif f in ("src_port", "dst_port"):
            opts[f] = rng.choice(["ALL", 80, 5432, 21, "HTTP"])
        elif f == "protocol_name":
            opts[f] = rng.choice(["ALL", "tcp", "udp", "icmp"])
        elif f == "permission":
            opts[f] = rng.choice(["PERMIT", "DENY"])
        elif f == "firewall_port_name":
            opts[f] = rng.choice(["internal", "dmz", "external"])
        elif f == "firewall_port_direction":
            opts[f] = rng.choice(["inbound", "outbound"])
        elif f in ("remote_ip", "ip_address", "target_ip_address", "server_ip_address", "c2_server_ip_address"):
            opts[f] = rng.choice(all_ips)
        elif f == "username":
            opts[f] = rng.choice((info["users"] or ["admin"]) + ["nobody"])
        elif f in ("password", "current_password", "new_password", "server_password"):
            opts[f] = rng.choice(["admin", "wrong", "pw2"])
        elif f == "is_admin":
            opts[f] = rng.chance(1, 2)
        elif f == "command":
            opts[f] = rng.choice([["file_system", "create", "folder", "verif_dir"], ["service", "ftp-client", "stop"], ["bogus"]])
        elif f == "commands":
            opts[f] = [["file_system", "create", "folder", "verif_dir"]]
        elif f == "force":
            opts[f] = rng.chance(1, 2)
        elif fi.is_required():
            opts[f] = "x"
    return ident, opts, exists


def perturb(rng: Rng, sim, registry, vocab, steps: int) -> List[Any]:
    """Drive the simulation into a random reachable state with real agent-style requests and ticks."""
    done = []
    dirty = ["node-shutdown", "node-startup", "node-reset", "node-service-stop", "node-service-disable", "node-service-pause",
             "node-service-restart", "node-application-close", "node-application-remove", "node-file-delete", "node-folder-scan",
             "host-nic-disable", "network-port-disable", "node-file-corrupt", "node-service-start", "node-application-install",
             "node-file-create", "node-file-delete", "node-folder-create", "node-file-restore"]
    sub = {k: registry[k] for k in dirty if k in registry}
    t = 1
    for _ in range(steps):
        ident, opts, _ = gen_action(rng, sim, vocab, sub, ghost_p=(0, 1))
        try:
            req = registry[ident].form_request(registry[ident].ConfigSchema(type=ident, **opts))
            sim.apply_request(req)
            done.append(req)
        except Exception:
            pass
        if rng.chance(1, 5):  # power events on NETWORK devices (routers, firewalls, switches): their routes must be power-gated too
            try:
                devs = [n for n in sim.network.nodes.values() if type(n).__name__ not in ("Computer", "Server", "Printer")]
                if devs:
                    n = rng.choice(devs)
                    q = ["network", "node", n.config.hostname, "startup" if n.operating_state.name == "OFF" else "shutdown"]
                    sim.apply_request(q)
                    done.append(q)
            except Exception:
                pass
        if rng.chance(1, 6):  # churn: delete an existing file and create one of the same name again (and sometimes restore)
            try:
                cands = [(n, fo, fi) for n in sim.network.nodes.values() for fo in n.file_system.folders.values() for fi in fo.files.values()]
                if cands:
                    n, fo, fi = rng.choice(cands)
                    base = ["network", "node", n.config.hostname, "file_system"]
                    seq = [base + ["delete", "file", fo.name, fi.name], base + ["create", "file", fo.name, fi.name, False]]
                    if rng.chance(1, 3):
                        seq.append(base + ["delete", "file", fo.name, fi.name])
                        seq.append(base + ["restore", "file", fo.name, fi.name])
                    for q in seq:
                        sim.apply_request(q)
                        done.append(q)
            except Exception:
                pass
        if rng.chance(1, 12):  # API-level uninstall of a service (no agent action does this; scripts and tests do)
            try:
                from primaite.simulator.system.services.service import Service
                n = rng.choice(list(sim.network.nodes.values()))
                svcs = [k for k, v in n.software_manager.software.items() if isinstance(v, Service)
                        and k not in ("arp", "icmp", "user-manager", "user-session-manager", "terminal")]
                if svcs:
                    name = rng.choice(sorted(svcs))
                    n.software_manager.uninstall(name)
                    done.append(["api:uninstall", n.config.hostname, name])
            except Exception:
                pass
        for _ in range(rng.below(3)):
            sim.pre_timestep(t)
            sim.apply_timestep(t)
            t += 1
            done.append(["tick"])
    return done


def target_exists(sim, req: List[Any]) -> Optional[bool]:
    """Independent oracle read from the OBJECT GRAPH (not from the request tree): does this request name existing
    components, for the documented route shapes? None = shape not covered by this oracle."""
    from primaite.simulator.network.hardware.nodes.network.firewall import Firewall
    from primaite.simulator.network.hardware.nodes.network.router import Router
    from primaite.simulator.system.applications.application import Application
    from primaite.simulator.system.services.service import Service
    if len(req) < 4 or req[0] != "network" or req[1] != "node":
        return None
    node = next((n for n in sim.network.nodes.values() if n.config.hostname == req[2]), None)
    if node is None:
        return False
    r = req[3:]
    if r[0] in ("application", "service"):
        if len(r) < 3:
            return None
        sw = node.software_manager.software.get(r[1])
        if sw is None or not isinstance(sw, Application if r[0] == "application" else Service):
            return False
        generic = ("scan", "fix", "close", "compromise") if r[0] == "application" else (
            "scan", "fix", "compromise", "stop", "start", "pause", "resume", "restart", "disable", "enable")
        return True if r[2] in generic else None  # type-specific verbs (execute, configure, ...) exist only on some software
    if r[0] == "network_interface":
        return len(r) >= 3 and r[1] in node.network_interface
    if r[0] == "acl":
        return isinstance(node, Router) and len(r) >= 2  # a Firewall is a Router and keeps the inherited acl object
    if r[0] in ("internal", "dmz", "external"):
        return isinstance(node, Firewall) and len(r) >= 4 and r[1] in ("inbound", "outbound") and r[2] == "acl"
    if r[0] == "file_system":
        if len(r) >= 2 and r[1] in ("create", "delete", "restore"):
            return len(r) >= 3 and r[2] in ("file", "folder")
        if len(r) >= 2 and r[1] == "access":
            return True
        if len(r) >= 3 and r[1] == "folder":
            f = node.file_system.get_folder(r[2], include_deleted=True)
            return None if f is None else None  # folder/file sub-routes are dynamic: left to the dispatch comparison
        return None
    if r[0] == "software_manager":
        return len(r) >= 3 and r[1] == "application" and r[2] in ("install", "uninstall")
    if len(r) == 1 and r[0] in ("scan", "shutdown", "startup", "reset", "logon", "logoff"):
        return True
    if r[0] == "os":
        return len(r) == 2 and r[1] == "scan"
    return None


class ValidatorSpy:
    """Records which permission rules answered False while installed (class-level patch of every validator class)."""

    def __init__(self):
        self.false_messages: List[str] = []
        self._orig = []

    def __enter__(self):
        from primaite.simulator.core import RequestPermissionValidator
        import primaite.game.game  # noqa: F401  (imports every simulator module, so every subclass exists)
        seen, todo = set(), [RequestPermissionValidator]
        while todo:
            c = todo.pop()
            for sub in c.__subclasses__():
                if sub not in seen:
                    seen.add(sub)
                    todo.append(sub)
        spy = self
        for cls in seen:
            if "__call__" not in cls.__dict__:
                continue
            orig = cls.__dict__["__call__"]
            self._orig.append((cls, orig))

            def wrapped(v_self, request, context, orig=orig):
                ok = orig(v_self, request, context)
                if not ok:
                    try:
                        spy.false_messages.append(v_self.fail_message)
                    except Exception:
                        spy.false_messages.append("<no message>")
                return ok
            cls.__call__ = wrapped
        return self

    def __exit__(self, *a):
        for cls, orig in self._orig:
            cls.__call__ = orig

    def reset(self):
        self.false_messages = []


def structure_mismatches(sim) -> List[dict]:
    """Independent structural oracle: every dynamic level of the live request tree must name exactly the live components
    of the OBJECT GRAPH and point at THAT component's own request manager (registries agree; no stale or missing route)."""
    out: List[dict] = []
    from primaite.simulator.core import RequestManager
    from primaite.simulator.system.applications.application import Application
    from primaite.simulator.system.services.service import Service

    def sub(rm, key):
        rt = rm.request_types.get(key)
        return rt.func if rt is not None and isinstance(rt.func, RequestManager) else None

    top = sim._request_manager
    net = sub(top, "network")
    node_rm = sub(net, "node") if net else None
    if node_rm is None:
        return [{"kind": "no-node-manager"}]
    nodes = {n.config.hostname: n for n in sim.network.nodes.values()}

    def compare(level: str, where: str, rm, live: Dict[Any, Any]):
        if rm is None:
            if live:
                out.append({"kind": "missing-manager", "level": level, "where": where})
            return
        keys = {k for k, rt in rm.request_types.items() if isinstance(rt.func, RequestManager)}
        for k in keys - set(live):
            out.append({"kind": "stale-route", "level": level, "where": where, "key": str(k)})
        for k in set(live) - keys:
            out.append({"kind": "missing-route", "level": level, "where": where, "key": str(k)})
        for k in keys & set(live):
            if rm.request_types[k].func is not live[k]._request_manager:
                out.append({"kind": "route-points-at-other-object", "level": level, "where": where, "key": str(k)})

    compare("node", "network", node_rm, nodes)
    for name, n in nodes.items():
        nrm = n._request_manager
        sw = n.software_manager.software
        compare("service", name, sub(nrm, "service"), {k: v for k, v in sw.items() if isinstance(v, Service)})
        compare("application", name, sub(nrm, "application"), {k: v for k, v in sw.items() if isinstance(v, Application)})
        compare("network_interface", name, sub(nrm, "network_interface"), dict(n.network_interface))
        fs_rm = sub(nrm, "file_system")
        if fs_rm is None:
            continue
        folders = {f.name: f for f in n.file_system.folders.values()}
        fo_rm = sub(fs_rm, "folder")
        # deleted folders keep (or lose) their route depending on the code; only live folders are asserted to be routed correctly
        if fo_rm is not None:
            for fname, folder in folders.items():
                rt = fo_rm.request_types.get(fname)
                if rt is None:
                    out.append({"kind": "missing-route", "level": "folder", "where": name, "key": fname})
                    continue
                if rt.func is not folder._request_manager:
                    out.append({"kind": "route-points-at-other-object", "level": "folder", "where": name, "key": fname})
                fi_rm = sub(folder._request_manager, "file")
                files = {f.name: f for f in folder.files.values()}
                if fi_rm is not None:
                    for finame, file in files.items():
                        frt = fi_rm.request_types.get(finame)
                        if frt is None:
                            out.append({"kind": "missing-route", "level": "file", "where": f"{name}:{fname}", "key": finame})
                        elif frt.func is not file._request_manager:
                            out.append({"kind": "route-points-at-other-object", "level": "file", "where": f"{name}:{fname}", "key": finame})
    return out
