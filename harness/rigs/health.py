"""R-health: drive one real Node (inside a Simulation/Network, through `sim.apply_request`, `sim.pre_timestep` /
`sim.apply_timestep`, and a few Python-API calls that stand for the external writers) and the Lean model
(Drivers/C14.lean) with the same operation sequences; diff the response and the whole health-relevant state
after every operation.

A case is a dict
  {"node": {"start": d, "shut": d, "scan": d, "initial": "ON"|"OFF"},
   "sw":   [{"cls": key of SW_CLASSES, "fix": d, "health": name, "aux": d|None}, ...]   (installed in this order),
   "sysfix": {name: d}                                    fixing_duration of system software,
   "folders": [{"name":..., "scan": d, "restore": d, "files": [{"name":..., "health": name}]}],
   "ops": [[...], ...]}                                   operations in driver line syntax (list of words)
"""
from __future__ import annotations

import io
import contextlib
from typing import Dict, List, Optional, Tuple

from harness.lib.core import Rng

HOST = "n0"
SW_CLASSES = {
    # key: (module, class, is_app)
    "dns-server": ("primaite.simulator.system.services.dns.dns_server", "DNSServer", False),
    "ntp-server": ("primaite.simulator.system.services.ntp.ntp_server", "NTPServer", False),
    "web-server": ("primaite.simulator.system.services.web_server.web_server", "WebServer", False),
    "ftp-server": ("primaite.simulator.system.services.ftp.ftp_server", "FTPServer", False),
    "database-service": ("primaite.simulator.system.services.database.database_service", "DatabaseService", False),
    "database-client": ("primaite.simulator.system.applications.database_client", "DatabaseClient", True),
    "data-manipulation-bot": ("primaite.simulator.system.applications.red_applications.data_manipulation_bot",
                              "DataManipulationBot", True),
    "dos-bot": ("primaite.simulator.system.applications.red_applications.dos_bot", "DoSBot", True),
    "ransomware-script": ("primaite.simulator.system.applications.red_applications.ransomware_script",
                          "RansomwareScript", True),
}
SW_HEALTH = ["UNUSED", "GOOD", "FIXING", "COMPROMISED", "OVERWHELMED"]
FS_HEALTH = ["NONE", "GOOD", "COMPROMISED", "CORRUPT", "RESTORING", "REPAIRING"]
SVC_REQS = ["scan", "fix", "compromise", "stop", "start", "pause", "resume", "restart", "disable", "enable"]
APP_REQS = ["scan", "fix", "compromise", "close"]
ITEM_REQS = ["scan", "checkhash", "repair", "restore", "corrupt"]
STRUCT_OPS = ("appinstallreq", "appuninstallreq", "swinstallapi", "swuninstallapi", "fscreatefolder", "fscreatefile", "fscopyfile",
              "dbrestore")


def o(x) -> str:
    return "-" if x is None else str(x)


def b(x) -> str:
    return "1" if x else "0"


NODE_KINDS = ["computer", "server", "printer", "router", "switch", "firewall"]


def node_class(kind: str):
    """the Node subclass registered for a config `type` (same `Node` code underneath; different system software)"""
    import primaite.simulator.network.hardware.nodes.host.computer  # noqa: F401
    import primaite.simulator.network.hardware.nodes.host.server  # noqa: F401
    import primaite.simulator.network.hardware.nodes.network.firewall  # noqa: F401
    import primaite.simulator.network.hardware.nodes.network.router  # noqa: F401
    import primaite.simulator.network.hardware.nodes.network.switch  # noqa: F401
    from primaite.simulator.network.hardware.base import Node
    return Node._registry[kind]


# ------------------------------------------------------------------------------------------ implementation side
class Impl:
    """The real objects of one case."""

    def __init__(self, case: dict):
        import importlib
        from primaite.simulator.sim_container import Simulation
        from primaite.simulator.network.hardware.nodes.host.computer import Computer
        from primaite.simulator.system.software import SoftwareHealthState
        from primaite.simulator.file_system.file_system_item_abc import FileSystemItemHealthStatus

        self.SwH, self.FsH = SoftwareHealthState, FileSystemItemHealthStatus
        self.host = HOST
        self.t = 0
        if "scenario" in case:
            self._init_scenario(case)
            return
        nd = case["node"]
        self.sim = Simulation()
        kind = nd.get("kind", "computer")
        cfg = dict(type=kind, hostname=HOST, start_up_duration=nd["start"], shut_down_duration=nd["shut"],
                   node_scan_duration=nd["scan"])
        if kind in ("computer", "server", "printer"):
            cfg.update(ip_address="192.168.1.2", subnet_mask="255.255.255.0")
        if nd.get("initial", "ON") != "ON":
            cfg["operating_state"] = nd["initial"]
        self.node = node_class(kind).from_config(cfg)
        self.sim.network.add_node(self.node)
        if case.get("db"):
            # a backup server next to the node, so that DatabaseService.restore_backup can run for real
            from primaite.simulator.system.services.ftp.ftp_server import FTPServer
            bk = Computer.from_config(dict(type="computer", hostname="bk", ip_address="192.168.1.3", subnet_mask="255.255.255.0",
                                           start_up_duration=0))
            self.sim.network.add_node(bk)
            bk.power_on()
            self.sim.network.connect(self.node.network_interface[1], bk.network_interface[1])
            bk.software_manager.install(FTPServer)
        for s in case["sw"]:
            mod, cls, _ = SW_CLASSES[s["cls"]]
            klass = getattr(importlib.import_module(mod), cls)
            conf = klass.ConfigSchema(fixing_duration=s["fix"], starting_health_state=SoftwareHealthState[s["health"]])
            self.node.software_manager.install(klass, software_config=conf)
            sw = self.node.software_manager.software[s["cls"]]
            if s.get("aux") is not None:
                if hasattr(sw, "restart_duration"):
                    sw.restart_duration = s["aux"]
                else:
                    sw.install_duration = s["aux"]
        for name, d in case.get("sysfix", {}).items():
            if name in self.node.software_manager.software:
                self.node.software_manager.software[name].config.fixing_duration = d
        if case.get("db"):
            from ipaddress import IPv4Address
            svc = self.node.software_manager.software["database-service"]
            svc.configure_backup(IPv4Address("192.168.1.3"))
            dbf = svc.db_file
            if dbf is not None and case["db"].get("backup_health"):
                dbf.health_status = FileSystemItemHealthStatus[case["db"]["backup_health"]]
            self.db_backup_ok = bool(svc.backup_database())
            if dbf is not None:
                dbf.health_status = FileSystemItemHealthStatus[case["db"].get("health", "GOOD")]
            self._watch_restore(svc)
        fs = self.node.file_system
        # drop the folders that installing software created unless the case lists them (keeps the case self-describing):
        # they are kept; the case generator names its own folders differently. Record every folder / file object by name.
        for fo in case["folders"]:
            folder = fs.get_folder(fo["name"]) or fs.create_folder(fo["name"])
            folder.scan_duration = fo["scan"]
            folder.restore_duration = fo["restore"]
            for fi in fo["files"]:
                f = fs.create_file(folder_name=fo["name"], file_name=fi["name"])
                f.health_status = FileSystemItemHealthStatus[fi["health"]]
        self._index()
        self.t = 0

    def _watch_restore(self, svc):
        """in-process wrapper around this service's `restore_backup` (instance attribute, shadows the method): records what the
        network did, which the model takes as an input - was a leftover download cleared, did a copy arrive and how healthy is
        it. Tree-independent: derived from object identities before / after the call."""
        self.restores: List[Tuple[bool, Optional[str], bool]] = []
        orig = svc.restore_backup
        fs = self.node.file_system

        def restore_backup():
            left = fs.get_file("downloads", "database.db")
            ok = bool(orig())
            now = fs.get_file("downloads", "database.db")
            pre = left is not None and left.deleted
            arrived = now is not None and (now is not left or ok)
            self.restores.append((pre, now.health_status.name if arrived else None, ok))
            return ok

        svc.__dict__["restore_backup"] = restore_backup

    def _index(self):
        """model order of the items: creation order; objects are tracked by identity (names may repeat once items are created
        and deleted dynamically)"""
        fs = self.node.file_system
        self.sws = list(self.node.services.values()) + list(self.node.applications.values())
        self.folders = list(fs.folders.values()) + list(fs.deleted_folders.values())
        self.files = {fo.uuid: list(fo.files.values()) + list(fo.deleted_files.values()) for fo in self.folders}
        self.resolved: List[List[List[str]]] = []
        # one real FolderObservation (file_system_requires_scan) per folder name, created when the name is first seen; what each
        # reported at the last timestep and what it has cached
        self.observers: Dict[str, object] = {}
        self.last_obs: Dict[str, Tuple[str, str, str]] = {}
        self.obs_complaints: List[dict] = []

    def _observe(self):
        """what PrimaiteGame.update_agents does after apply_timestep, for the folders of this node: every FolderObservation reads
        the state dictionary (the real `describe_state()` of the file system, placed where the observation looks for it)"""
        from primaite.game.agent.observations.file_system_observations import FolderObservation
        state = {"network": {"nodes": {self.host: {"file_system": self.node.file_system.describe_state()}}}}
        for name in sorted({fo.name for fo in self.folders}):
            ob = self.observers.get(name)
            if ob is None:
                ob = self.observers[name] = FolderObservation(
                    where=["network", "nodes", self.host, "file_system", "folders", name], files=[], num_files=0,
                    include_num_access=False, file_system_requires_scan=True)
            rep = ob.observe(state)["health_status"]
            # ... and one observation WITHOUT file_system_requires_scan (reports the actual health)
            ob2 = self.observers.get("!" + name)
            if ob2 is None:
                ob2 = self.observers["!" + name] = FolderObservation(
                    where=["network", "nodes", self.host, "file_system", "folders", name], files=[], num_files=0,
                    include_num_access=False, file_system_requires_scan=False)
            rep2 = ob2.observe(state)["health_status"]
            self.last_obs[name] = (self.FsH(int(rep)).name, self.FsH(int(ob.cached_obs["health_status"])).name,
                                   self.FsH(int(rep2)).name)
            # implementation-only oracle (the statement of theorem C14_obs_faithful, on the real objects): what the agent is shown
            # for a folder is the folder's visible health of this moment (0 when there is no live folder of that name)
            live = self.node.file_system.get_folder(name)
            want = live.visible_health_status.name if live is not None and not live.deleted else "NONE"
            if self.last_obs[name][0] != want:
                self.obs_complaints.append({"item": f"folder-observation:{name}", "reported": self.last_obs[name][0],
                                            "visible": want, "cached": self.last_obs[name][1]})
            want2 = live.health_status.name if live is not None and not live.deleted else "NONE"
            if self.last_obs[name][2] != want2:
                self.obs_complaints.append({"item": f"folder-observation-without-scan:{name}", "reported": self.last_obs[name][2],
                                            "visible": want2, "cached": "-"})

    def obs_view(self) -> str:
        return ",".join(f"{k}={v[0]}/{v[1]}/{v[2]}" for k, v in sorted(self.last_obs.items()))

    def _refresh(self):
        """after an operation: drop uninstalled software, append newly created software / folders / files"""
        n, fs = self.node, self.node.file_system
        live = {**n.services, **n.applications}
        self.sws = [s for s in self.sws if s.uuid in live]
        known = {s.uuid for s in self.sws}
        self.sws += [s for u, s in live.items() if u not in known]
        known = {f.uuid for f in self.folders}
        self.folders += [f for u, f in {**fs.folders, **fs.deleted_folders}.items() if u not in known]
        for fo in self.folders:
            lst = self.files.setdefault(fo.uuid, [])
            kn = {f.uuid for f in lst}
            lst += [f for u, f in {**fo.files, **fo.deleted_files}.items() if u not in kn]

    def _init_scenario(self, case: dict):
        """A node of a shipped scenario, built by PrimaiteGame.from_config; the agents never act (only requests and ticks of
        this rig), the other nodes of the scenario are ticked along."""
        game = load_scenario(case["scenario"])
        self.sim = game.simulation
        self.host = case["host"]
        self.node = self.sim.network.get_node_by_hostname(self.host)
        for name, d in case.get("sysfix", {}).items():
            if name in self.node.software_manager.software:
                self.node.software_manager.software[name].config.fixing_duration = d
        svc = self.node.software_manager.software.get("database-service")
        if svc is not None:
            # a scenario's database server has a real backup server: a completing fix restores the backup inside the timestep
            self._watch_restore(svc)
        self._index()

    # -- canonical state
    def sw_fields(self, sw) -> Tuple:
        from primaite.simulator.system.applications.application import Application
        is_app = isinstance(sw, Application)
        aux_d = sw.install_duration if is_app else sw.restart_duration
        aux_c = sw.install_countdown if is_app else sw.restart_countdown
        return (sw.name, is_app, sw.operating_state.name, sw.health_state_actual.name, sw.health_state_visible.name,
                sw.config.fixing_duration, sw._fixing_countdown, aux_d, aux_c)

    def setup_lines(self) -> List[str]:
        n = self.node
        c = n.config
        lines = ["reset", f"node {n.operating_state.name} {c.start_up_duration} {c.start_up_countdown} {c.shut_down_duration} "
                          f"{c.shut_down_countdown} {b(c.is_resetting)} {c.node_scan_duration} {n.node_scan_countdown} {n.red_scan_countdown}"]
        for sw in self.sws:
            name, is_app, op, a, v, fd, fc, ad, ac = self.sw_fields(sw)
            lines.append(f"addsw {name} {'app' if is_app else 'svc'} {op} {a} {v} {fd} {o(fc)} {ad} {o(ac)}")
        fs = n.file_system
        lines.append(f"fsdefaults {o(fs._default_folder_scan_duration)} {o(fs._default_folder_restore_duration)}")
        forder = {u: i + 1 for i, u in enumerate(fs.deleted_folders)}  # place in `deleted_folders` (deletion order)
        for fo in self.folders:
            lines.append(f"addfolder {fo.name} {b(fo.deleted)} {fo.health_status.name} {fo.visible_health_status.name} "
                         f"{fo.scan_duration} {fo.scan_countdown} {fo.restore_duration} {fo.restore_countdown} "
                         f"{len(fo.deleted_files)} {forder.get(fo.uuid, 0)}")
            # a deleted file's place in `deleted_files` (dict = deletion order): `restore_file` takes the first of a name
            order = {u: i + 1 for i, u in enumerate(fo.deleted_files)}
            for f in self.files[fo.uuid]:
                lines.append(f"addfile {fo.name} {f.name} {f.health_status.name} {f.visible_health_status.name} {b(f.deleted)} "
                             f"{order.get(f.uuid, 0)}")
        return lines

    def dump(self, core: bool = False) -> str:
        """`core`: health values and countdowns only (without the observation refresh flag and the observers, which
        `pre_timestep` / the observation after a timestep legitimately touch while the node is OFF)"""
        n = self.node
        c = n.config
        fs = n.file_system
        sw = " ".join(f"{s.name}:{s.operating_state.name}:{s.health_state_actual.name}:{s.health_state_visible.name}:"
                      f"{o(s._fixing_countdown)}:{o(self.sw_fields(s)[8])}" for s in self.sws)
        fos = []
        for fo in self.folders:
            live = fo.uuid in fs.folders
            mark = "" if live == (not fo.deleted) else "!folder-membership"
            files = []
            for f in self.files[fo.uuid]:
                flive = f.uuid in fo.files
                fmark = "" if flive == (not f.deleted) else "!file-membership"
                files.append(f"{f.name}:{f.health_status.name}:{f.visible_health_status.name}:{b(f.deleted)}{fmark}")
            fos.append(f"{fo.name}:{b(fo.deleted)}{mark}:{fo.health_status.name}:{fo.visible_health_status.name}:"
                       f"{fo.scan_countdown}:{fo.restore_countdown}" + ("" if core else f":{b(fo._scanned_this_step)}") + "[" + ",".join(files) + "]")
        return (f"P={n.operating_state.name},{c.start_up_countdown},{c.shut_down_countdown},{b(c.is_resetting)},"
                f"{n.node_scan_countdown},{n.red_scan_countdown} S=" + sw + " F=" + " ".join(fos) + " V=" + self.view()
                + ("" if core else " O=" + self.obs_view()))

    def view(self) -> str:
        """what the agent sees BY NAME: the visible values in `describe_state()` of the file system (live folders by name, live
        files by name) and of the installed software (dicts keyed by name, as in `Node.describe_state`)"""
        n = self.node
        st = n.file_system.describe_state()
        vis = {**{s.name: s for s in n.services.values()}, **{a.name: a for a in n.applications.values()}}
        sw = ",".join(f"{k}={vis[k].health_state_visible.name}" for k in sorted(vis))
        fos = []
        tracked = {fo.uuid for fo in self.folders}
        for F in sorted(st["folders"]):
            fo = n.file_system.get_folder(F)
            if fo is None or fo.uuid not in tracked:
                continue  # a folder written by another node's network traffic during a tick (scenario cases): outside the model
            known = {x.uuid for x in self.files.get(fo.uuid, [])}
            fst = st["folders"][F]
            files = ",".join(f"{f}={self.FsH(fst['files'][f]['visible_status']).name}" for f in sorted(fst["files"])
                             if getattr(fo.get_file(f), "uuid", None) in known)
            fos.append(f"{F}={self.FsH(fst['visible_status']).name}[{files}]")
        return sw + ";" + " ".join(fos)

    # -- one operation
    def req(self, *path) -> str:
        return self.sim.apply_request(["network", "node", self.host, *path]).status

    def _sw(self, name):
        return next((s for s in self.sws if s.name == name), None)

    def _file(self, F, f):
        for fo in self.folders:
            if fo.name == F:
                for x in self.files.get(fo.uuid, []):
                    if x.name == f:
                        return x
        return None

    def apply(self, op: List[str]) -> str:
        """one operation; records the model line(s) that describe it in `self.resolved`"""
        self._lines = [list(op)]
        r = self._apply(op)
        if op[0] in STRUCT_OPS:
            # items that appear during other operations come from network traffic of a scenario's other nodes (an FTP backup
            # arriving during a tick): outside this model, ignored as before
            self._refresh()
        self.resolved.append(self._lines)
        return r

    def _apply(self, op: List[str]) -> str:
        k = op[0]
        if k == "pre":  # the first part of a game step: PrimaiteGame.pre_timestep (the agents' requests come after it)
            self.sim.pre_timestep(self.t)
            return "ok"
        if k in ("tick", "apply"):  # tick = pre_timestep; apply_timestep; observe     apply = apply_timestep; observe
            n0 = len(getattr(self, "restores", ()))
            if k == "tick":
                self.sim.pre_timestep(self.t)
            self.sim.apply_timestep(self.t)
            self.t += 1
            done = getattr(self, "restores", [])[n0:]
            if done:
                # the database service's fix completed in this timestep and `restore_backup()` ran inside it
                pre, dl, _ = done[-1]
                self._lines = [[k + "db", b(pre), dl or "-"]]
                self._refresh()
            self._observe()
            return "ok"
        if k in ("shutdown", "startup", "nodereset"):
            return self.req("reset" if k == "nodereset" else k)
        if k == "osscan":
            return self.req("os", "scan")
        if k == "redscan":  # the top-level node request `scan` = reveal-to-red scan (same duration, same block of the timestep)
            return self.req("scan")
        if k == "sw":
            return self.req("application" if op[1] == "app" else "service", op[2], op[3])
        if k == "swset":
            s = self._sw(op[1])
            if s is not None:
                s.set_health_state(self.SwH[op[2]])
            return "ok"
        if k == "appinstall":
            s = self._sw(op[1])
            if s is not None:
                s.install()
            return "ok"
        if k == "apprun":
            s = self._sw(op[1])
            if s is not None and hasattr(s, "run"):
                s.run()
            return "ok"
        if k == "folder":
            return self.req("file_system", "folder", op[1], op[2])
        if k == "folderdelete":
            return self.req("file_system", "folder", op[1], "delete", op[2])
        if k == "file":
            return self.req("file_system", "folder", op[1], "file", op[2], op[3])
        if k == "file2":  # the file-system level route to a file's requests; same model operation as `file`
            self._lines = [["file", op[1], op[2], op[3]]]
            return self.req("file_system", "file", op[1], op[2], op[3])
        if k == "folderset":
            # stand-in for the external writer of a folder's health (database ENCRYPT query marks its folder CORRUPT)
            for fo in self.folders:
                if fo.name == op[1]:
                    fo.health_status = self.FsH[op[2]]
            return "ok"
        if k == "fsdelfile":
            return self.req("file_system", "delete", "file", op[1], op[2])
        if k == "fsdelfolder":
            return self.req("file_system", "delete", "folder", op[1])
        if k == "fsrestfile":
            return self.req("file_system", "restore", "file", op[1], op[2])
        if k == "fsrestfolder":
            return self.req("file_system", "restore", "folder", op[1])
        if k == "fileset":
            # stand-in for the external writers; like the model's `fileSet` it writes every file object of that name
            for fo in self.folders:
                if fo.name == op[1]:
                    for f in self.files.get(fo.uuid, []):
                        if f.name == op[2]:
                            f.health_status = self.FsH[op[3]]
            return "ok"
        # ---- operations that create / remove items
        if k == "appinstallreq":
            from primaite.simulator.system.applications.application import Application
            name = op[1]
            klass = Application._registry.get(name)
            fd = klass.ConfigSchema().fixing_duration if klass is not None else 0
            ad = klass.model_fields["install_duration"].default if klass is not None else 0
            self._lines = [["appinstallreq", name, str(fd), str(ad), b(klass is not None)]]
            return self.req("software_manager", "application", "install", name)
        if k == "appuninstallreq":
            return self.req("software_manager", "application", "uninstall", op[1])
        if k == "swinstallapi":  # swinstallapi <cls key> <fixing_duration> <starting health>
            import importlib
            mod, cls, is_app = SW_CLASSES[op[1]]
            klass = getattr(importlib.import_module(mod), cls)
            conf = klass.ConfigSchema(fixing_duration=int(op[2]), starting_health_state=self.SwH[op[3]])
            ad = klass.model_fields["install_duration" if is_app else "restart_duration"].default
            self._lines = [["swinstallapi", op[1], "app" if is_app else "svc", op[2], str(ad), op[3]]]
            self.node.software_manager.install(klass, software_config=conf)
            return "ok"
        if k == "swuninstallapi":
            self.node.software_manager.uninstall(op[1])
            return "ok"
        if k == "fscreatefolder":
            return self.req("file_system", "create", "folder", op[1])
        if k == "fscreatefile":
            return self.req("file_system", "create", "file", op[1], op[2], op[3] == "1")
        if k == "fscopyfile":
            self.node.file_system.copy_file(src_folder_name=op[1], src_file_name=op[2], dst_folder_name=op[3])
            return "ok"
        if k == "dbrestore":  # Python API DatabaseService.restore_backup() (needs the case's backup server)
            svc = self.node.software_manager.software.get("database-service")
            n0 = len(self.restores)
            if svc is not None:
                svc.restore_backup()
            done = self.restores[n0:]
            if done:
                pre, dl, ok = done[-1]
                # `DOp.dbRestore` is the file-system side; a successful restore also sets the service GOOD (external write)
                self._lines = [["dbrestore", b(pre), dl or "-"]] + ([["swset", "database-service", "GOOD"]] if ok else [])
            else:
                self._lines = [["noop"]]
            return "ok"
        raise ValueError(f"unknown op {op}")

    def snapshot(self) -> dict:
        """health pairs for the implementation-side oracle, keyed by object identity"""
        return {
            "sw": {s.uuid: (s.name, s.health_state_actual.name, s.health_state_visible.name) for s in self.sws},
            "file": {f.uuid: ((fo.name, f.name), f.health_status.name, f.visible_health_status.name)
                     for fo in self.folders for f in self.files[fo.uuid]},
            "folder": {fo.uuid: (fo.name, fo.health_status.name, fo.visible_health_status.name) for fo in self.folders},
        }


def run_impl(case: dict):
    """Returns (setup lines for the driver, op lines, implementation answers `resp | dump` per op, oracle complaints)."""
    with contextlib.redirect_stdout(io.StringIO()):
        impl = Impl(case)
    setup = impl.setup_lines()
    answers, complaints = [], []
    prev = impl.snapshot()
    for i, op in enumerate(case["ops"]):
        try:
            with contextlib.redirect_stdout(io.StringIO()):
                r = impl.apply(op)
        except Exception as e:  # an exception out of a request / a tick is an answer of its own
            r = f"raised:{type(e).__name__}"
        answers.append(f"{r} | {impl.dump()}")
        cur = impl.snapshot()
        complaints += oracle_step(i, op, prev, cur)
        for c0 in impl.obs_complaints:
            complaints.append({"i": i, "op": op, "item": c0["item"], "visible": f"reported {c0['reported']} (cached {c0['cached']})",
                               "actual": f"visible_health_status {c0['visible']}"})
        impl.obs_complaints = []
        prev = cur
    return setup, answers, complaints, impl.resolved


def oracle_step(i: int, op: List[str], prev: dict, cur: dict) -> List[dict]:
    """Implementation-side oracle, independent of the Lean model: a visible value may change only in a step that can
    complete a scan covering the item (its own scan request, a scan-capable tick), and must then equal the item's actual
    value just before or just after the step. (Which ticks complete a scan is the model's business; this oracle only
    rules out every other operation.)"""
    out = []
    k = op[0]
    for uid, (name, a, v) in cur["sw"].items():
        if uid not in prev["sw"]:
            # a software object created in this step: nothing has scanned it yet
            if v != "UNUSED":
                out.append({"i": i, "op": op, "item": "sw:" + name, "visible": ["<new>", v], "actual": ["<new>", a]})
            continue
        _, pa, pv = prev["sw"][uid]
        if v != pv:
            legit = (k in ("tick", "apply")) or (k == "sw" and op[2] == name and op[3] == "scan")
            if not legit or v not in (a, pa):
                out.append({"i": i, "op": op, "item": "sw:" + name, "visible": [pv, v], "actual": [pa, a]})
    for uid, (key, a, v) in cur["file"].items():
        if uid not in prev["file"]:
            # a file created in this step is unscanned (NONE) - or a copy, which takes over the visible status of its source / of
            # the file it replaces (database restore): some file of that name must have shown that value before the step
            if v != "NONE" and k in ("fscopyfile", "dbrestore"):
                if not any(pk[1] == key[1] and pv2 == v for (pk, _, pv2) in prev["file"].values()):
                    out.append({"i": i, "op": op, "item": "file:" + "/".join(key), "visible": ["<new>", v], "actual": ["<new>", a]})
            elif v != "NONE" and k in ("tick", "apply"):
                # a database restore INSIDE the timestep: the replacement shows what the replaced file showed - which the
                # node scan of this very timestep may have updated just before (old file's true health at that moment) - or its
                # own true health if the folder's timed scan completed after the replacement
                same = [(pa2, pv2) for (pk, pa2, pv2) in prev["file"].values() if pk[1] == key[1]]
                if not (any(v in (pa2, pv2) for pa2, pv2 in same) or v == a):
                    out.append({"i": i, "op": op, "item": "file:" + "/".join(key), "visible": ["<new>", v], "actual": ["<new>", a]})
            elif v != "NONE":
                out.append({"i": i, "op": op, "item": "file:" + "/".join(key), "visible": ["<new>", v], "actual": ["<new>", a]})
            continue
        _, pa, pv = prev["file"][uid]
        if v != pv:
            legit = (k in ("tick", "apply")) or (k in ("file", "file2") and (op[1], op[2]) == key and op[3] == "scan")
            if not legit or v not in (a, pa):
                out.append({"i": i, "op": op, "item": "file:" + "/".join(key), "visible": [pv, v], "actual": [pa, a]})
    for uid, (name, a, v) in cur["folder"].items():
        if uid not in prev["folder"]:
            if v != "NONE":
                out.append({"i": i, "op": op, "item": "folder:" + name, "visible": ["<new>", v], "actual": ["<new>", a]})
            continue
        _, pa, pv = prev["folder"][uid]
        if v != pv and k not in ("tick", "apply"):
            out.append({"i": i, "op": op, "item": "folder:" + name, "visible": [pv, v], "actual": [pa, a]})
    return out


def model_lines(setup: List[str], case: dict, resolved=None) -> List[str]:
    """driver input; `resolved` (from the implementation run) gives, per operation, the model line(s) that describe it - one
    line except for `dbrestore`; durations of freshly installed classes are filled in there"""
    if resolved is None:
        return setup + [" ".join(op) for op in case["ops"]]
    return setup + [" ".join(l) for group in resolved for l in group]


def group_sizes(case: dict, resolved) -> List[int]:
    return [len(g) for g in resolved] if resolved is not None else [1] * len(case["ops"])


# ------------------------------------------------------------------------------------------ generation
DURS = [0, 1, 1, 2, 2, 3]
SYS_SVCS = ["arp", "icmp", "dns-client", "ntp-client", "ftp-client", "terminal", "user-manager", "user-session-manager"]
SYS_APPS = ["web-browser"]  # nmap builds its request manager from scratch (F-12, property C05): no generic requests


def gen_case(rng: Rng, max_ops: int = 40) -> dict:
    node = {"start": rng.choice([0, 0, 1, 2]), "shut": rng.choice([0, 1, 1, 2]), "scan": rng.choice(DURS + [-1]),
            "initial": "ON" if rng.chance(5, 6) else "OFF",
            # same Node code, different system software: hosts, and the network nodes (router / switch / firewall)
            "kind": rng.choice(["computer", "computer", "computer", "server", "printer", "router", "switch", "firewall"])}
    keys = rng.shuffle(list(SW_CLASSES))[: rng.range(1, 4)]
    sw = []
    for k in keys:
        sw.append({"cls": k, "fix": rng.choice(DURS + [-1]),
                   "health": rng.choice(["GOOD", "GOOD", "UNUSED", "COMPROMISED", "OVERWHELMED", "FIXING"]),
                   "aux": rng.choice([None, 0, 1, 2])})
    sysfix = {n: rng.choice(DURS) for n in SYS_SVCS + SYS_APPS if rng.chance(1, 3)}
    folders = []
    for j in range(rng.range(1, 3)):
        files = [{"name": f"f{j}{i}.txt", "health": rng.choice(["GOOD", "GOOD", "GOOD", "CORRUPT", "COMPROMISED"])}
                 for i in range(rng.range(0, 3))]
        folders.append({"name": rng.choice(["root", f"d{j}"]) if j == 0 else f"d{j}", "scan": rng.choice(DURS + [-1]),
                        "restore": rng.choice(DURS + [-1]), "files": files})
    case = {"node": node, "sw": sw, "sysfix": sysfix, "folders": folders, "ops": []}
    case["ops"] = gen_ops(rng, case, rng.range(4, max_ops))
    return case


def gen_ops(rng: Rng, case: dict, n: int) -> List[List[str]]:
    svcs = [s["cls"] for s in case["sw"] if not SW_CLASSES[s["cls"]][2]]
    apps = [s["cls"] for s in case["sw"] if SW_CLASSES[s["cls"]][2]]
    folders = [f["name"] for f in case["folders"]]
    files = {f["name"]: [x["name"] for x in f["files"]] for f in case["folders"]}
    return gen_ops_for(rng, svcs, apps, folders, files, case["node"]["shut"], n)


def gen_ops_for(rng: Rng, svcs: List[str], apps: List[str], folders: List[str], files: Dict[str, List[str]], shut: int,
                n: int) -> List[List[str]]:
    mode = rng.below(4)  # 0: mixed, 1: software-heavy, 2: file-system-heavy, 3: power-heavy
    ops: List[List[str]] = []

    def pick_svc():
        r = rng.below(10)
        if r < 7 and svcs:
            return rng.choice(svcs)
        if r < 9:
            return rng.choice(SYS_SVCS)
        return rng.choice(["nosuch", "web-browser"])

    def pick_app():
        r = rng.below(10)
        if r < 6 and apps:
            return rng.choice(apps)
        if r < 9:
            return rng.choice(SYS_APPS)
        return rng.choice(["nosuch", "arp"])

    def pick_folder():
        if rng.chance(1, 12):
            return rng.choice(["nosuch", "database", "primaite"])
        return rng.choice(folders)

    def pick_file(F):
        fs = files.get(F, [])
        if not fs or rng.chance(1, 12):
            return "nosuch.txt"
        return rng.choice(fs)

    def sw_op():
        if rng.chance(2, 3) or not True:
            name = pick_svc()
            r = rng.choice(["scan", "fix", "fix", "compromise", "compromise"] + SVC_REQS + (["close"] if rng.chance(1, 10) else []))
            return ["sw", "svc", name, r]
        name = pick_app()
        r = rng.choice(["scan", "fix", "compromise", "compromise"] + APP_REQS + (["stop"] if rng.chance(1, 10) else []))
        return ["sw", "app", name, r]

    def api_op():
        r = rng.below(7)
        if r == 6:
            return ["folderset", pick_folder(), rng.choice(["CORRUPT", "CORRUPT", "GOOD", "COMPROMISED"])]
        if r < 2:
            return ["swset", rng.choice(svcs + apps + SYS_SVCS[:2] + SYS_APPS), rng.choice(["GOOD", "COMPROMISED", "OVERWHELMED"])]
        if r < 3:
            return ["appinstall", pick_app()]
        if r < 5:
            return ["apprun", pick_app()]
        F = pick_folder()
        return ["fileset", F, pick_file(F), rng.choice(["GOOD", "CORRUPT", "COMPROMISED"])]

    def fs_op():
        F = pick_folder()
        r = rng.below(20)
        if r < 6:
            return ["folder", F, rng.choice(ITEM_REQS + ["scan", "scan", "restore", "corrupt"])]
        if r < 11:
            # both request routes to a file: file_system/folder/F/file/f/… and file_system/file/F/f/…
            return ["file" if rng.chance(3, 4) else "file2", F, pick_file(F), rng.choice(ITEM_REQS + ["scan", "corrupt"])]
        if r < 12:
            return ["folderdelete", F, pick_file(F)]
        if r < 14:
            return ["fsdelfile", F, pick_file(F)]
        if r < 16:
            return ["fsdelfolder", F]
        if r < 18:
            return ["fsrestfile", F, pick_file(F)]
        return ["fsrestfolder", F]

    def power_op():
        r = rng.below(10)
        if r < 4:
            return ["shutdown"]
        if r < 8:
            return ["startup"]
        # `reset` with shut_down_duration 0: the node goes OFF and is powered on again in the same call (after C12's fix of F-20)
        return ["nodereset"]

    weights = {0: (30, 22, 22, 8, 8, 10), 1: (30, 40, 4, 6, 10, 10), 2: (30, 4, 45, 6, 7, 8), 3: (35, 15, 12, 25, 8, 5)}[mode]
    tot = sum(weights)
    for _ in range(n):
        r = rng.below(tot)
        acc = 0
        for w, fn in zip(weights, (lambda: ["tick"], sw_op, fs_op, power_op,
                                   lambda: ["osscan"] if rng.chance(2, 3) else ["redscan"], api_op)):
            acc += w
            if r < acc:
                ops.append(fn())
                break
    return ops


# ------------------------------------------------------------------------------------------ bounded-exhaustive family
def exhaustive_cases(depth: int, durs=(0, 1, 2, 3), small: bool = False) -> List[dict]:
    """Every sequence of length `depth` over a small alphabet on a node with one extra service, one folder with one file;
    all timers share one duration d; three ticks appended so that what was started can finish."""
    alphabet = [["tick"], ["sw", "svc", "dns-server", "compromise"], ["sw", "svc", "dns-server", "fix"], ["osscan"],
                ["folder", "d0", "scan"], ["folder", "d0", "restore"], ["file", "d0", "a.txt", "corrupt"], ["shutdown"],
                ["startup"]]
    if small:
        alphabet = [["tick"], ["sw", "svc", "dns-server", "compromise"], ["sw", "svc", "dns-server", "fix"], ["osscan"],
                    ["folder", "d0", "scan"], ["shutdown"]] + ([["redscan"]] if depth <= 3 else [])
    cases = []

    def rec(prefix):
        if len(prefix) == depth:
            for d in durs:
                cases.append({"node": {"start": 1, "shut": 1, "scan": d, "initial": "ON"},
                              "sw": [{"cls": "dns-server", "fix": d, "health": "GOOD", "aux": None}], "sysfix": {},
                              "folders": [{"name": "d0", "scan": d, "restore": d, "files": [{"name": "a.txt", "health": "GOOD"}]}],
                              "ops": list(prefix) + [["tick"]] * 3})
            return
        for a in alphabet:
            rec(prefix + [a])
    rec([])
    return cases


# ------------------------------------------------------------------------------------------ timing oracle (implementation only)
def timing_oracle(durs=(0, 1, 2, 3, 5)) -> List[dict]:
    """Straight-line timing scenarios evaluated on the implementation alone (no Lean): the statement's own clauses.
    fix: GOOD after exactly max(1,d) ticks of an ON node; folder scan / restore: complete after exactly max(1,d) ticks;
    node scan: fans out after exactly max(1,d) ticks; a power cycle in the middle freezes the timers."""
    bad = []
    for d in durs:
        for freeze_at in (None, 0, 1):
            for scenario in ("software", "folders"):
                case = {"node": {"start": 0, "shut": 0, "scan": d, "initial": "ON"},
                        "sw": [{"cls": "dns-server", "fix": d, "health": "GOOD", "aux": None}], "sysfix": {},
                        "folders": [{"name": "d0", "scan": d, "restore": d, "files": [{"name": "a.txt", "health": "GOOD"}]},
                                    {"name": "d1", "scan": d, "restore": d, "files": [{"name": "b.txt", "health": "GOOD"}]}],
                        "ops": []}
                with contextlib.redirect_stdout(io.StringIO()):
                    im = Impl(case)
                sw = im._sw("dns-server")
                d0 = next(f for f in im.folders if f.name == "d0")
                d1 = next(f for f in im.folders if f.name == "d1")
                fa = im._file("d0", "a.txt")
                im.apply(["sw", "svc", "dns-server", "compromise"])
                im.apply(["file", "d0", "a.txt", "corrupt"])
                im.apply(["file", "d1", "b.txt", "corrupt"])
                if scenario == "software":
                    im.apply(["sw", "svc", "dns-server", "fix"])
                    im.apply(["osscan"])
                    probes = {"fix": lambda: sw.health_state_actual.name == "GOOD",
                              "node-scan": lambda: sw.health_state_visible.name != "UNUSED" and fa.visible_health_status.name == "CORRUPT"}
                else:
                    im.apply(["folder", "d0", "scan"])
                    im.apply(["folder", "d1", "restore"])
                    probes = {"folder-scan": lambda: fa.visible_health_status.name == "CORRUPT" and d0.visible_health_status.name == "CORRUPT",
                              "folder-restore": lambda: d1.health_status.name == "GOOD"}
                need = max(1, d)
                done = {k: None for k in probes}
                for k, p in probes.items():
                    if p():
                        done[k] = 0
                ticks = 0
                for step in range(need + 4):
                    if freeze_at is not None and step == freeze_at:
                        # power loss: OFF for two timesteps, nothing may advance
                        im.apply(["shutdown"])
                        before = im.dump(core=True)
                        im.apply(["tick"])
                        im.apply(["tick"])
                        after = im.dump(core=True)
                        if before != after:
                            bad.append({"what": "timers moved while the node was OFF", "d": d, "clause": "freeze",
                                        "before": before, "after": after})
                        im.apply(["startup"])
                    im.apply(["tick"])
                    ticks += 1
                    for k, p in probes.items():
                        if done[k] is None and p():
                            done[k] = ticks
                for k, v in done.items():
                    if v != need:
                        bad.append({"what": f"{k} completed after {v} ticks of a powered-on node, expected {need}", "d": d,
                                    "freeze_at": freeze_at, "clause": k})
    return bad


# ------------------------------------------------------------------------------------------ database restore (implementation only)
def db_restore_oracle() -> List[dict]:
    """The one writer of a *visible* value outside scan: DatabaseService.restore_backup replaces database.db by the backup copy
    and carries the old file's visible status over. Statement clause: visible health changes only by scanning. Scenario:
    database server + FTP backup server; back up; corrupt the file [scan it or not]; [delete it]; fix the service; tick until the
    fix completes and the restore runs. Expect: service GOOD after exactly max(1,d) ticks, file actual GOOD, visible unchanged."""
    from ipaddress import IPv4Address
    from primaite.simulator.network.container import Network
    from primaite.simulator.network.hardware.nodes.host.computer import Computer
    from primaite.simulator.system.services.database.database_service import DatabaseService
    from primaite.simulator.system.services.ftp.ftp_server import FTPServer
    bad = []
    for d in (0, 1, 3):
        for scanned in (False, True):
            for deleted in (False, True):
                with contextlib.redirect_stdout(io.StringIO()):
                    net = Network()
                    a = Computer.from_config(dict(type="computer", hostname="db", ip_address="192.168.0.10", subnet_mask="255.255.255.0", start_up_duration=0))
                    bsrv = Computer.from_config(dict(type="computer", hostname="bk", ip_address="192.168.0.11", subnet_mask="255.255.255.0", start_up_duration=0))
                    a.power_on()
                    bsrv.power_on()
                    net.connect(a.network_interface[1], bsrv.network_interface[1])
                    bsrv.software_manager.install(FTPServer)
                    a.software_manager.install(DatabaseService)
                    svc = a.software_manager.software["database-service"]
                    svc.config.fixing_duration = d
                    svc.configure_backup(IPv4Address("192.168.0.11"))
                    if not svc.backup_database():
                        bad.append({"what": "db-restore scenario: backup failed (scenario broken)", "d": d})
                        continue
                    svc.db_file.corrupt()
                    if scanned:
                        svc.db_file.scan()
                    vis_before = svc.db_file.visible_health_status.name
                    if deleted:
                        svc.file_system.delete_file(folder_name="database", file_name="database.db")
                    if not svc.fix():
                        bad.append({"what": "db-restore scenario: fix refused", "d": d})
                        continue
                    good_at = None
                    for t in range(max(1, d) + 2):
                        net.pre_timestep(t + 2)
                        net.apply_timestep(t + 2)
                        if good_at is None and svc.health_state_actual.name == "GOOD":
                            good_at = t + 1
                            f = svc.db_file
                            if f is None:
                                bad.append({"what": "database file missing after the fix completed", "d": d, "scanned": scanned, "deleted": deleted})
                            else:
                                if f.health_status.name != "GOOD":
                                    bad.append({"what": f"restored database file is {f.health_status.name}, expected GOOD", "d": d,
                                                "scanned": scanned, "deleted": deleted})
                                if f.visible_health_status.name != vis_before:
                                    bad.append({"what": f"visible health of database.db changed {vis_before} -> "
                                                        f"{f.visible_health_status.name} without a scan (database restore)", "d": d,
                                                "scanned": scanned, "deleted": deleted})
                    if good_at != max(1, d):
                        bad.append({"what": f"database service GOOD after {good_at} ticks, expected {max(1, d)}", "d": d,
                                    "scanned": scanned, "deleted": deleted})
    return bad


# ------------------------------------------------------------------------------------------ shipped scenarios
SCENARIOS = ["data_manipulation.yaml", "uc7_config.yaml", "basic_lan_network_example.yaml", "client_server_p2p_network_example.yaml",
             "multi_lan_internet_network_example.yaml"]
_INVENTORY: Dict[str, dict] = {}


def load_scenario(fname: str):
    import yaml
    from harness.lib.core import SRC
    from primaite.game.game import PrimaiteGame
    cfg = yaml.safe_load((SRC / "config" / "_package_data" / fname).read_text())
    with contextlib.redirect_stdout(io.StringIO()):
        return PrimaiteGame.from_config(cfg)


def scenario_inventory(fname: str) -> dict:
    """host -> what can be addressed on it; hosts whose software names are not unique (F-22: a second instance of a class
    shadows the first) are listed under "skipped" — the by-name model does not describe them."""
    if fname in _INVENTORY:
        return _INVENTORY[fname]
    from primaite.simulator.network.hardware.nodes.host.host_node import HostNode
    game = load_scenario(fname)
    inv = {"hosts": {}, "skipped": []}
    for node in game.simulation.network.nodes.values():
        if not isinstance(node, HostNode):
            continue
        names = [s.name for s in node.services.values()] + [a.name for a in node.applications.values()]
        if len(set(names)) != len(names):
            inv["skipped"].append(node.config.hostname)
            continue
        inv["hosts"][node.config.hostname] = {
            "svcs": [s.name for s in node.services.values() if s.name not in SYS_SVCS],
            "apps": [a.name for a in node.applications.values() if a.name not in ("web-browser", "nmap")],
            "folders": [f.name for f in node.file_system.folders.values()],
            "files": {f.name: [x.name for x in f.files.values()] for f in node.file_system.folders.values()},
            "shut": node.config.shut_down_duration,
        }
    _INVENTORY[fname] = inv
    return inv


def gen_scenario_case(rng: Rng, max_ops: int = 40) -> Optional[dict]:
    fname = rng.choice(SCENARIOS)
    inv = scenario_inventory(fname)
    if not inv["hosts"]:
        return None
    host = rng.choice(sorted(inv["hosts"]))
    h = inv["hosts"][host]
    sysfix = {n: rng.choice(DURS) for n in SYS_SVCS + SYS_APPS + h["svcs"] + h["apps"] if rng.chance(1, 3)}
    ops = gen_ops_for(rng, h["svcs"], h["apps"], h["folders"], h["files"], h["shut"], rng.range(6, max_ops))
    return {"scenario": fname, "host": host, "sysfix": sysfix, "ops": ops}


# ------------------------------------------------------------------------------------------ dynamic item sets
INSTALLABLE_APPS = ["database-client", "data-manipulation-bot", "dos-bot", "ransomware-script", "web-browser", "c2-beacon",
                    "c2-server", "nmap"]
# classes whose construction / install() has no side effect on the file system (DatabaseService creates database/database.db,
# WebServer creates primaite/index.html)
API_CLASSES = ["dns-server", "ntp-server", "ftp-server", "database-client", "data-manipulation-bot", "dos-bot",
               "ransomware-script"]


def gen_dyn_case(rng: Rng, max_ops: int = 40) -> dict:
    """A case of the random family whose operation sequence also installs / uninstalls software and creates folders and
    files (also with the names of deleted ones, and in deleted folders), copies files, and keeps using the base operations
    on whatever exists at that point."""
    case = gen_case(rng, max_ops=4)
    svcs = [s["cls"] for s in case["sw"] if not SW_CLASSES[s["cls"]][2]]
    apps = [s["cls"] for s in case["sw"] if SW_CLASSES[s["cls"]][2]]
    folders = [f["name"] for f in case["folders"]]
    files = {f["name"]: [x["name"] for x in f["files"]] for f in case["folders"]}
    ops: List[List[str]] = []
    n = rng.range(6, max_ops)
    while len(ops) < n:
        r = rng.below(100)
        if r < 45:
            ops += gen_ops_for(rng, svcs, apps, folders, files, case["node"]["shut"], rng.range(1, 4))
        elif r < 55:
            name = rng.choice(INSTALLABLE_APPS + ["nosuch-app", "dns-server"])
            ops.append(["appinstallreq", name])
            if name in SW_CLASSES or name in ("web-browser",):
                if name not in apps and name in SW_CLASSES:
                    apps.append(name)
        elif r < 62:
            ops.append(["appuninstallreq", rng.choice((apps or ["nosuch"]) + ["web-browser", "nosuch", "dns-client"])])
        elif r < 68:
            have = set(svcs + apps)
            cand = [c for c in API_CLASSES if c not in have]
            if cand:
                c = rng.choice(cand)
                ops.append(["swinstallapi", c, str(rng.choice(DURS)), rng.choice(["GOOD", "GOOD", "UNUSED", "COMPROMISED", "FIXING"])])
                (apps if SW_CLASSES[c][2] else svcs).append(c)
        elif r < 72:
            pool = svcs + apps
            if pool:
                c = rng.choice(pool)
                ops.append(["swuninstallapi", c])
                if c in svcs:
                    svcs.remove(c)
                else:
                    apps.remove(c)
        elif r < 79:
            F = rng.choice(folders + ["new0", "new1", "root"])
            ops.append(["fscreatefolder", F])
            if F not in folders:
                folders.append(F)
                files.setdefault(F, [])
        elif r < 92:
            F = rng.choice(folders + ["new0", "new2"])
            f = rng.choice(files.get(F, []) + ["n0.txt", "n1.txt"])
            ops.append(["fscreatefile", F, f, "1" if rng.chance(1, 5) else "0"])
            if F not in folders:
                folders.append(F)
            if f not in files.setdefault(F, []):
                files[F].append(f)
        else:
            F = rng.choice(folders)
            fs = files.get(F, [])
            if fs:
                D = rng.choice(folders + ["new1"])
                f = rng.choice(fs)
                if D != F:
                    ops.append(["fscopyfile", F, f, D])
                    if D not in folders:
                        folders.append(D)
                    if f not in files.setdefault(D, []):
                        files[D].append(f)
    case["ops"] = ops[:max_ops + 6]
    case["family"] = "dyn"
    return case


def gen_db_case(rng: Rng, max_ops: int = 30) -> dict:
    """database server with a reachable backup server: `dbrestore` = the real DatabaseService.restore_backup() (download,
    delete the live file, copy the download in, carry the visible status over), interleaved with file / folder operations on
    the database folder, scans and ticks. `fix` on the database service is not generated here: the restore it triggers runs
    in the middle of a tick (covered by the implementation-only database oracle)."""
    d = rng.choice(DURS)
    case = {"node": {"start": 0, "shut": rng.choice([0, 1]), "scan": rng.choice(DURS), "initial": "ON"},
            "sw": [{"cls": "database-service", "fix": d, "health": "GOOD", "aux": None}], "sysfix": {},
            "folders": [{"name": "d0", "scan": rng.choice(DURS), "restore": rng.choice(DURS),
                         "files": [{"name": "a.txt", "health": "GOOD"}]}],
            "db": {"backup_health": rng.choice(["GOOD", "GOOD", "CORRUPT"]), "health": rng.choice(["GOOD", "CORRUPT", "COMPROMISED"])},
            "ops": [], "family": "db"}
    ops: List[List[str]] = []
    menu = [["tick"], ["tick"], ["dbrestore"], ["dbrestore"], ["file", "database", "database.db", "scan"],
            ["file", "database", "database.db", "corrupt"], ["folder", "database", "scan"], ["osscan"],
            ["fsdelfile", "database", "database.db"], ["folder", "database", "corrupt"], ["file", "database", "database.db", "repair"],
            ["fileset", "database", "database.db", "CORRUPT"], ["sw", "svc", "database-service", "compromise"],
            ["sw", "svc", "database-service", "scan"], ["fsrestfile", "database", "database.db"], ["folder", "database", "restore"],
            ["fsdelfile", "downloads", "database.db"], ["fsdelfolder", "downloads"], ["shutdown"], ["startup"]]
    # the fix of the database service: its completion runs the restore INSIDE a timestep (`DOp.tickDb`)
    menu += [["sw", "svc", "database-service", "fix"], ["sw", "svc", "database-service", "fix"], ["tick"], ["tick"],
             ["sw", "svc", "database-service", "stop"], ["sw", "svc", "database-service", "start"],
             ["sw", "svc", "ftp-client", "stop"], ["sw", "svc", "ftp-client", "start"],
             ["fsdelfolder", "database"], ["fsrestfolder", "database"], ["folderset", "database", "CORRUPT"],
             ["file2", "database", "database.db", "scan"], ["file2", "database", "database.db", "corrupt"],
             ["fscreatefile", "downloads", "database.db", "0"], ["folder", "database", "scan"]]
    for _ in range(rng.range(5, max_ops)):
        ops.append(list(rng.choice(menu)))
    case["ops"] = ops
    return case


def db_fix_cases(durs=(0, 1, 2, 3)) -> List[dict]:
    """Enumerated timelines around the fix of a database service whose completion restores the backup inside a timestep:
    fixing duration x {file scanned before?} x {file deleted / folder deleted / nothing} x {node scan or folder scan in flight so
    that it completes in the very timestep of the restore, one earlier, one later} x {backup healthy or corrupt}."""
    cases = []
    for d in durs:
        need = max(1, d)
        for scanned in (False, True):
            for gone in ("none", "file", "folder"):
                for inflight in ("none", "node", "folder"):
                    for off in ((0,) if inflight == "none" else (-1, 0, 1)):
                        for bh in ("GOOD", "CORRUPT"):
                            sd = max(1, need + off)
                            ops = [["file", "database", "database.db", "corrupt"]]
                            if scanned:
                                ops.append(["file2", "database", "database.db", "scan"])
                            ops.append(["sw", "svc", "database-service", "fix"])
                            if inflight == "node":
                                ops.append(["osscan"])
                            elif inflight == "folder":
                                ops.append(["folder", "database", "scan"])
                            if gone == "file":
                                ops.append(["fsdelfile", "database", "database.db"])
                            elif gone == "folder":
                                ops.append(["fsdelfolder", "database"])
                            ops += [["tick"]] * (need + 2) + [["sw", "svc", "database-service", "fix"]] + [["tick"]] * (need + 1)
                            cases.append({"node": {"start": 0, "shut": 0, "scan": sd, "initial": "ON"},
                                          "sw": [{"cls": "database-service", "fix": d, "health": "GOOD", "aux": None}], "sysfix": {},
                                          "folders": [{"name": "database", "scan": sd, "restore": 2, "files": []}],
                                          "db": {"backup_health": bh, "health": "GOOD"}, "ops": ops, "family": "db-fix"})
    return cases


def interrupted_fix_cases(durs=(2, 3, 4)) -> List[dict]:
    """Timelines around one fix: fix, k ticks, an interruption (compromise / external OVERWHELMED / power cycle / uninstall
    and re-install / nothing), a second fix or none, then enough ticks. Enumerated, not sampled."""
    cases = []
    inter = [[], [["sw", "svc", "dns-server", "compromise"]], [["swset", "dns-server", "OVERWHELMED"], ["swset", "dns-server", "COMPROMISED"]],
             [["shutdown"], ["tick"], ["startup"], ["tick"]], [["sw", "svc", "dns-server", "stop"], ["tick"], ["sw", "svc", "dns-server", "start"]],
             [["swuninstallapi", "dns-server"], ["tick"], ["swinstallapi", "dns-server", "2", "COMPROMISED"]]]
    for d in durs:
        for k in range(0, d + 1):
            for it in inter:
                for again in (False, True):
                    ops = [["sw", "svc", "dns-server", "compromise"], ["sw", "svc", "dns-server", "fix"]] + [["tick"]] * k + \
                          [list(x) for x in it] + ([["sw", "svc", "dns-server", "fix"]] if again else []) + [["tick"]] * (d + 2)
                    cases.append({"node": {"start": 0, "shut": 0, "scan": 1, "initial": "ON"},
                                  "sw": [{"cls": "dns-server", "fix": d, "health": "GOOD", "aux": None},
                                         {"cls": "database-client", "fix": d, "health": "GOOD", "aux": None}], "sysfix": {},
                                  "folders": [{"name": "d0", "scan": d, "restore": d, "files": [{"name": "a.txt", "health": "GOOD"}]}],
                                  "ops": ops, "family": "interrupted-fix"})
    return cases


def overlap_scan_cases(durs=(0, 1, 2, 3, 6)) -> List[dict]:
    """A timed folder scan and a whole-node scan in flight together, for every pair of durations and every offset between the
    two requests; a file whose actual and visible status differ; a file created and one deleted while the scans run."""
    cases = []
    for dn in durs:
        for df in durs:
            for first in ("node", "folder"):
                for gap in (0, 1, 2):
                    for extra in ([], [["fscreatefile", "d0", "late.txt", "0"]], [["fsdelfile", "d0", "a.txt"]],
                                  [["fsdelfile", "d0", "a.txt"], ["fscreatefile", "d0", "a.txt", "0"]]):
                        a, bq = (["osscan"], ["folder", "d0", "scan"]) if first == "node" else (["folder", "d0", "scan"], ["osscan"])
                        ops = [["file", "d0", "a.txt", "corrupt"], a] + [["tick"]] * gap + [bq] + [list(x) for x in extra] + \
                              [["tick"]] * (max(dn, df, 1) + 2)
                        cases.append({"node": {"start": 0, "shut": 0, "scan": dn, "initial": "ON"},
                                      "sw": [{"cls": "dns-server", "fix": 1, "health": "COMPROMISED", "aux": None}], "sysfix": {},
                                      "folders": [{"name": "d0", "scan": df, "restore": 1,
                                                   "files": [{"name": "a.txt", "health": "GOOD"}, {"name": "b.txt", "health": "CORRUPT"}]}],
                                      "ops": ops, "family": "overlap-scan"})
    return cases


# ------------------------------------------------------------------------------------------ lifecycle / power x timed processes
def lifecycle_timer_cases(durs=(1, 2, 3)) -> List[dict]:
    """Every timed process of the statement (fix, application install, folder scan, folder restore, whole-node scan; and the
    service restart the model carries along) x every lifecycle / power disturbance that can hit it x every offset at which the
    disturbance can arrive x node power durations {0, 1}. Enumerated, not sampled. What the CODE answers (and the model
    follows, theorem C14_timer_table): a fix counts in every operating state of its service / application (STOPPED, PAUSED,
    DISABLED, RESTARTING, CLOSED) and freezes only while the node is not ON; an installation counts only while INSTALLING and
    the node is ON; folder timers count while the node is ON and the folder is not deleted; the node scan while the node is ON."""
    cases = []
    svc, app = "dns-server", "database-client"
    S = lambda r: ["sw", "svc", svc, r]  # noqa: E731
    A = lambda r: ["sw", "app", app, r]  # noqa: E731
    power = [[["shutdown"], ["tick"], ["startup"]], [["shutdown"], ["tick"], ["tick"], ["startup"], ["tick"]], [["nodereset"]],
             [["nodereset"], ["tick"]]]
    procs = {
        "fix-service": ([S("compromise"), S("fix")],
                        [[S("stop")], [S("pause")], [S("disable")], [S("restart")], [S("stop"), ["tick"], S("start")],
                         [S("pause"), ["tick"], S("resume")], [S("disable"), ["tick"], S("enable"), S("start")],
                         [S("restart"), ["tick"], S("stop")], [S("fix")]] + power),
        "fix-application": ([A("compromise"), A("fix")],
                            [[A("close")], [A("close"), ["appinstall", app]], [A("close"), ["tick"], ["apprun", app]],
                             [A("close"), ["apprun", app], A("fix")]] + power),
        "install": ([A("close"), ["appinstall", app]],
                    [[A("compromise")], [A("close")], [["apprun", app]], [["appinstall", app]], [A("fix")], [A("scan")]] + power),
        "folder-scan": ([["file", "d0", "a.txt", "corrupt"], ["folder", "d0", "scan"]],
                        [[["fsdelfolder", "d0"]], [["fsdelfolder", "d0"], ["tick"], ["fsrestfolder", "d0"]], [["folder", "d0", "scan"]],
                         [["folder", "d0", "corrupt"]], [["fsdelfile", "d0", "a.txt"]], [["folder", "d0", "restore"]]] + power),
        "folder-restore": ([["folder", "d0", "corrupt"], ["folder", "d0", "restore"]],
                           [[["fsdelfolder", "d0"]], [["fsdelfolder", "d0"], ["tick"], ["fsrestfolder", "d0"]],
                            [["folder", "d0", "restore"]], [["fsrestfolder", "d0"]], [["fsdelfile", "d0", "a.txt"]],
                            [["folder", "d0", "scan"]]] + power),
        "node-scan": ([S("compromise"), ["file", "d0", "a.txt", "corrupt"], ["osscan"]],
                      [[["osscan"]], [S("stop")], [["fsdelfolder", "d0"]], [A("close")]] + power),
        "restart": ([S("restart")], [[S("stop")], [S("disable")], [S("disable"), ["tick"], S("enable")], [S("fix")]] + power),
    }
    for name, (start, dists) in procs.items():
        for d in durs:
            for pw in (0, 1):
                for dist in dists:
                    for k in range(0, d + 1):
                        ops = [list(x) for x in start] + [["tick"]] * k + [list(x) for x in dist] + [["tick"]] * (d + 3) + \
                              [["osscan"]] + [["tick"]] * (d + 1)
                        cases.append({"node": {"start": pw, "shut": pw, "scan": d, "initial": "ON"},
                                      "sw": [{"cls": svc, "fix": d, "health": "GOOD", "aux": d},
                                             {"cls": app, "fix": d, "health": "GOOD", "aux": d}], "sysfix": {},
                                      "folders": [{"name": "d0", "scan": d, "restore": d,
                                                   "files": [{"name": "a.txt", "health": "GOOD"}, {"name": "b.txt", "health": "GOOD"}]}],
                                      "ops": ops, "family": "lifecycle-timer:" + name})
    return cases


# ------------------------------------------------------------------------------------------ two timed processes completing together
def simultaneous_cases(durs_a=(1, 2, 3), durs_b=(1, 2)) -> List[dict]:
    """For every ORDERED PAIR of timed processes of one node - fix (service), installation (application), folder scan, folder
    restore (same folder), whole-node scan, reveal-to-red scan, service restart - durations and the gap between the two requests
    are chosen so that B completes one timestep before, IN THE SAME timestep as, and one after A. The whole-node scan and the
    reveal-to-red scan share `node_scan_duration`, so for that pair the durations are equal and only the gap varies. Enumerated."""
    svc, svc2, app = "dns-server", "ntp-server", "database-client"
    procs = {
        # name: (start ops, completion timestep for duration d, where the duration lives)
        "fix": ([["sw", "svc", svc, "fix"]], lambda d: max(1, d), "fix"),
        "install": ([["sw", "app", app, "close"], ["appinstall", app]], lambda d: max(1, d), "aux-app"),
        "folder-scan": ([["folder", "d0", "scan"]], lambda d: max(1, d), "fscan"),
        "folder-restore": ([["folder", "d0", "restore"]], lambda d: max(1, d), "frest"),
        "node-scan": ([["osscan"]], lambda d: max(1, d), "node"),
        "red-scan": ([["redscan"]], lambda d: d, "node"),
        "restart": ([["sw", "svc", svc2, "restart"]], lambda d: d + 1, "aux-svc"),
    }
    cases = []
    for a, (sa, ca, wa) in procs.items():
        for b_, (sb, cb, wb) in procs.items():
            if a == b_:
                continue
            for da in durs_a:
                for db in durs_b:
                    if wa == wb and da != db:
                        continue
                    for delta in (-1, 0, 1):
                        gap = ca(da) + delta - cb(db)
                        if gap < 0:
                            continue
                        dur = {"fix": 2, "aux-app": 2, "fscan": 2, "frest": 2, "node": 2, "aux-svc": 2}
                        dur[wa] = da
                        dur[wb] = db
                        ops = [["sw", "svc", svc, "compromise"], ["file", "d0", "a.txt", "corrupt"]] + [list(x) for x in sa] + \
                              [["tick"]] * gap + [list(x) for x in sb] + [["tick"]] * (max(ca(da), gap + cb(db)) - gap + 2)
                        cases.append({"node": {"start": 0, "shut": 0, "scan": dur["node"], "initial": "ON"},
                                      "sw": [{"cls": svc, "fix": dur["fix"], "health": "GOOD", "aux": 2},
                                             {"cls": svc2, "fix": 2, "health": "GOOD", "aux": dur["aux-svc"]},
                                             {"cls": app, "fix": 2, "health": "GOOD", "aux": dur["aux-app"]}], "sysfix": {},
                                      "folders": [{"name": "d0", "scan": dur["fscan"], "restore": dur["frest"],
                                                   "files": [{"name": "a.txt", "health": "GOOD"}, {"name": "b.txt", "health": "COMPROMISED"}]}],
                                      "ops": ops, "family": f"simultaneous:{a}+{b_}", "delta": delta})
    return cases


# ------------------------------------------------------------------------------------------ same-named deleted items, restore by name
def twin_restore_cases() -> List[dict]:
    """Two (three) deleted files of one name and no live one, in every deletion order that operations can produce; then a restore by
    name (file-system request, the completing folder restore) - the code reaches the first in DELETION order, and the completing
    folder restore repairs it when a further deleted twin makes a second call. Same for folders of one name. Enumerated."""
    D, A = "d0", "a.txt"
    dele, crea, rest = ["fsdelfile", D, A], ["fscreatefile", D, A, "0"], ["fsrestfile", D, A]
    two = [dele, crea, ["fileset", D, A, "CORRUPT"], dele]                      # deleted: first (initial health), second (CORRUPT)
    flipped = two + [rest, dele]                                              # deletion order now: second, first
    three = two + [crea, dele]
    tails = [[rest], [rest, rest], [rest, dele, rest], [["folder", D, "restore"], ["tick"], ["tick"], ["tick"]],
             [["folder", D, "restore"], ["tick"], rest, ["tick"], ["tick"]], [crea, rest, ["folder", D, "restore"], ["tick"], ["tick"]]]
    fdel, fcre, frest = ["fsdelfolder", "d1"], ["fscreatefolder", "d1"], ["fsrestfolder", "d1"]
    ftwo = [fdel, fcre, ["fscreatefile", "d1", "c.txt", "0"], fdel]
    cases = []
    for health in ("GOOD", "CORRUPT"):
        for head in (two, flipped, three):
            for tail in tails:
                ops = [list(x) for x in head + tail] + [["osscan"], ["tick"], ["tick"]]
                cases.append({"node": {"start": 0, "shut": 0, "scan": 1, "initial": "ON"}, "sw": [], "sysfix": {},
                              "folders": [{"name": D, "scan": 2, "restore": 2, "files": [{"name": A, "health": health}]},
                                          {"name": "d1", "scan": 2, "restore": 2, "files": [{"name": "b.txt", "health": health}]}],
                              "ops": ops, "family": "twin-restore"})
    for tail in ([frest], [frest, frest], [frest, fdel, frest], [frest, fdel, frest, ["tick"], ["tick"], ["tick"]],
                 [fcre, frest, fdel, frest, frest]):
        ops = [list(x) for x in ftwo + tail] + [["osscan"], ["tick"], ["tick"]]
        cases.append({"node": {"start": 0, "shut": 0, "scan": 1, "initial": "ON"}, "sw": [], "sysfix": {},
                      "folders": [{"name": D, "scan": 2, "restore": 2, "files": [{"name": A, "health": "GOOD"}]},
                                  {"name": "d1", "scan": 2, "restore": 2, "files": [{"name": "b.txt", "health": "CORRUPT"}]}],
                      "ops": ops, "family": "twin-restore"})
    return cases


# ------------------------------------------------------------------------------------------ the order of a game step
def game_order_cases(rng: Rng, depth: int = 2, nrandom: int = 200) -> List[dict]:
    """PrimaiteGame.step is `pre_timestep; <requests>; apply_timestep; observe` - the requests fall BETWEEN the reset of the folders'
    refresh flag and the timestep that may set it. Enumerated: every sequence of `depth` game steps over a menu of request lists
    (scan requests, deletion / restore of the folder, corruption, repair, power), x folder scan duration x node scan duration,
    followed by idle steps until every countdown has run out; plus seeded random longer games that also mix in plain `tick`s.
    Compared after every line: the flag of every folder, what every FolderObservation reported and has cached."""
    D = "d0"
    menu = [[], [["folder", D, "scan"]], [["osscan"]], [["fsdelfolder", D]], [["fsrestfolder", D]], [["file", D, "a.txt", "corrupt"]],
            [["folder", D, "repair"]], [["fsdelfolder", D], ["fsrestfolder", D]], [["folder", D, "scan"], ["fsdelfolder", D]],
            [["shutdown"]], [["startup"]], [["folder", D, "restore"]], [["fsdelfile", D, "b.txt"]]]

    def case(dn, df, steps, family):
        ops = []
        for reqs in steps:
            if reqs == "tick":
                ops.append(["tick"])
            else:
                ops += [["pre"]] + [list(x) for x in reqs] + [["apply"]]
        return {"node": {"start": 0, "shut": 0, "scan": dn, "initial": "ON"},
                "sw": [{"cls": "dns-server", "fix": 1, "health": "GOOD", "aux": None}], "sysfix": {},
                "folders": [{"name": D, "scan": df, "restore": 2,
                             "files": [{"name": "a.txt", "health": "GOOD"}, {"name": "b.txt", "health": "CORRUPT"}]},
                            {"name": "d1", "scan": 1, "restore": 1, "files": [{"name": "c.txt", "health": "CORRUPT"}]}],
                "ops": ops, "family": family}

    cases = []
    import itertools
    for dn in (1, 2):
        for df in (1, 2):
            for seq in itertools.product(range(len(menu)), repeat=depth):
                steps = [[["folder", D, "scan"], ["osscan"]]] + [menu[k] for k in seq] + [[], [["fsrestfolder", D]], [], []]
                cases.append(case(dn, df, steps, "game-order"))
    for _ in range(nrandom):
        steps = [rng.choice(menu + ["tick", "tick"]) for _ in range(rng.range(4, 9))]
        cases.append(case(rng.choice([0, 1, 2, 3]), rng.choice([0, 1, 2, 3]), steps, "game-order-random"))
    return cases
