"""C20 rig families for FALSY-BUT-LEGAL values and for attributes with more than one configuration source.

(1) `two_source_grid()` - for every translated resolution site (harness/extract/config_resolve.py: SITES) the full grid
    own value x competing default, each point as a scenario file. It is the domain of the `C20_gen_resolve_*` theorems on a small
    value set, enumerated on the REAL loader; `counter_models()` evaluates the regenerated translation and the specification on
    the same grid and returns the points where they differ (the counter-model -> replay protocol).
(2) `schema_falsy_cases()` - for every option the real schemas know (every registered software type's ConfigSchema, every
    modelled node type's ConfigSchema keys the model reads, users, files, ACL rule position / empty port, route metric, link
    bandwidth, game options, agent settings) each falsy value of the option's type that the schema itself accepts, WITH and WITHOUT
    the competing sources (a `defaults:` section in which every key differs from the library's value; a node-level dns_server).

Every case is an ordinary scenario: it goes through `check_scenario` (inventory of the real build vs the Lean `build`, `declared`
and `spec`)."""
from __future__ import annotations

import copy
import typing
from typing import Any, Dict, List, Optional, Tuple

from harness.extract import config_resolve as XR
from harness.gen import scenario as G

COMPETING_DEFAULTS = {"node_start_up_duration": 7, "node_shut_down_duration": 8, "node_scan_duration": 9, "folder_scan_duration": 5,
                      "folder_restore_duration": 6, "service_fix_duration": 11, "service_restart_duration": 12}
OWN_GRID = [XR.ABSENT, 0, "0", 0.0, False, 4, "4"]
DFLT_GRID = [XR.ABSENT, 7, "7", 0]


def _base() -> Dict:
    return {"io_settings": dict(G.QUIET_IO), "game": {"ports": ["HTTP", "DNS", "FTP"], "protocols": ["TCP", "UDP", "ICMP"]}, "agents": [],
            "simulation": {"network": {"nodes": [], "links": []}}}


def _host(name: str = "h1", kind: str = "server", last: int = 10) -> Dict:
    return {"hostname": name, "type": kind, "ip_address": f"10.9.0.{last}", "subnet_mask": "255.255.255.0", "default_gateway": "10.9.0.1"}


def _switch() -> Dict:
    return {"hostname": "sw1", "type": "switch", "num_ports": 4}


def _tag(v) -> str:
    return "absent" if v is XR.ABSENT else f"{type(v).__name__}:{v!r}"


# ------------------------------------------------------------------------------------------------ (1) the two-source grid
def place(site: str, own, dflt) -> Dict:
    """The scenario file in which the entry's own key has value `own` and the competing default `dflt` (ABSENT = key not written)."""
    cfg = _base()
    nodes = cfg["simulation"]["network"]["nodes"]
    h = _host()
    nodes += [_switch(), h]
    cfg["simulation"]["network"]["links"].append({"endpoint_a_hostname": "sw1", "endpoint_a_port": 1, "endpoint_b_hostname": "h1",
                                                  "endpoint_b_port": 1})
    dkey = {"svcFixingDuration": "service_fix_duration", "nodeStartUp": "node_start_up_duration", "nodeShutDown": "node_shut_down_duration",
            "nodeScan": "node_scan_duration", "svcRestart": "service_restart_duration"}.get(site)
    if dflt is not XR.ABSENT and dkey:
        cfg["defaults"] = {dkey: dflt}
    if site in ("svcFixingDuration", "svcRestart"):
        e: Dict[str, Any] = {"type": "dns-server"}
        if own is not XR.ABSENT and site == "svcFixingDuration":
            e["options"] = {"fixing_duration": own}
        h["services"] = [e, {"type": "ftp-server", "options": {"server_password": "pw"}}]   # a second service that declares none
    elif site in ("nodeStartUp", "nodeShutDown", "nodeScan"):
        key = {"nodeStartUp": "start_up_duration", "nodeShutDown": "shut_down_duration", "nodeScan": "node_scan_duration"}[site]
        if own is not XR.ABSENT:
            h[key] = own
    elif site == "linkBandwidth":
        if own is not XR.ABSENT:
            cfg["simulation"]["network"]["links"][0]["bandwidth"] = own
    return cfg


def two_source_grid() -> List[Tuple[str, Dict, Dict]]:
    out = []
    for s in XR.SITES:
        name = s["name"]
        owns = OWN_GRID if s["own_key"] else [XR.ABSENT]
        dflts = DFLT_GRID if s["dflt_key"] else [XR.ABSENT]
        for o in owns:
            for d in dflts:
                if name == "linkBandwidth" and isinstance(o, (str, bool)):
                    continue      # Link.bandwidth is a float field: a text is not a bandwidth (refused by the schema)
                out.append((f"two-source:{name}:own={_tag(o)}:dflt={_tag(d)}", place(name, o, d), {"site": name, "own": _tag(o), "dflt": _tag(d)}))
    return out


C_INT = XR._to_int
C_RAW = lambda v: v
SPEC = {  # site -> (coercion of own, coercion of the default, init or None = the parameter)
    "svcFixingDuration": (C_INT, C_INT, None), "nodeStartUp": (C_INT, C_INT, 3), "nodeShutDown": (C_INT, C_INT, 3),
    "nodeScan": (None, C_INT, None), "svcRestart": (None, C_INT, None), "linkBandwidth": (C_RAW, C_RAW, 100),
}


def counter_models(slices: Optional[Dict] = None) -> List[Tuple[str, Any, Any, Any, Any]]:
    """Grid points (site, own, dflt, translated value, specified value) where the REGENERATED translation of the loader statements
    and `effective` differ. Empty on a loader that resolves every site correctly."""
    slices = slices if slices is not None else XR.slices()
    bad = []
    for name, sl in slices.items():
        c_own, c_dflt, lib = SPEC[name]
        site = sl["site"]
        for o in (OWN_GRID + [""] if site["own_key"] else [XR.ABSENT]):
            for d in (DFLT_GRID if site["dflt_key"] else [XR.ABSENT]):
                init = "<init>"
                got = XR.evaluate(sl["expr"], own=o, dflt=d, init=init)
                want = XR.spec(o if site["own_key"] else XR.ABSENT, d, init if lib is None else lib,
                               (lambda v: init) if c_own is None else c_own, c_dflt)
                if not (got is want or (type(got) is type(want) and got == want)):
                    bad.append((name, o, d, got, want))
    return bad


# ------------------------------------------------------------------------------------------------ (1b) keyword arguments of the other loaders
ACL_HOLDERS = [("router", "acl"), ("wireless-router", "acl")] + [("firewall", a) for a in (
    "internal_inbound_acl", "internal_outbound_acl", "dmz_inbound_acl", "dmz_outbound_acl", "external_inbound_acl", "external_outbound_acl")]
KW_OWN_GRID = [XR.ABSENT, None, "", "10.9.0.10"]
KW_ALT_GRID = [XR.ABSENT, None, "10.9.0.77"]


def _app(name):
    return lambda v: ("app", name, v)


def kw_spec(function: str, callee: str, keyword: str):
    """`kwSpec` of Props/C20Resolve.lean: (own key, alternative key, value as a function of (own, alt)) or None."""
    opt = lambda c, d: (lambda o, a: c(d if o is XR.ABSENT else o))
    req = lambda c: (lambda o, a: XR.RAISES if o is XR.ABSENT else c(o))
    tl = lambda c: (lambda o, a: c(o) if (o is not XR.ABSENT and bool(o)) else None)
    addr = lambda o, a: o if o is not XR.ABSENT else (a if a is not XR.ABSENT else None)
    ident = lambda v: v
    if callee == "add_rule":
        t = {"src_ip_address": ("src_ip", "src_ip_address", addr), "dst_ip_address": ("dst_ip", "dst_ip_address", addr),
             "src_wildcard_mask": ("src_wildcard_mask", "", opt(ident, None)), "dst_wildcard_mask": ("dst_wildcard_mask", "", opt(ident, None)),
             "src_port": ("src_port", "", tl(_app("PORT_LOOKUP[]"))), "dst_port": ("dst_port", "", tl(_app("PORT_LOOKUP[]"))),
             "protocol": ("protocol", "", tl(_app("PROTOCOL_LOOKUP[]"))), "action": ("action", "", req(_app("ACLAction[]")))}
        return t.get(keyword)
    if callee == "add_route":
        t = {"address": opt(_app("IPv4Address"), None), "next_hop_ip_address": opt(_app("IPv4Address"), None),
             "subnet_mask": opt(_app("IPv4Address"), "255.255.255.0"), "metric": opt(_app("float"), 0)}
        return (keyword, "", t[keyword]) if keyword in t else None
    if callee in ("configure_port", "NIC"):
        if keyword == "ip_address" or callee == "NIC" and keyword == "subnet_mask":
            return (keyword, "", req(ident))
        if keyword == "subnet_mask":
            return (keyword, "", opt(_app("IPv4Address"), "255.255.255.0"))
    if function == "Firewall.from_config" and callee in ("configure_internal_port", "configure_external_port", "configure_dmz_port"):
        if keyword == "ip_address":
            return (keyword, "", opt(_app("IPV4Address"), None))
        if keyword == "subnet_mask":
            return (keyword, "", opt(_app("IPV4Address"), "255.255.255.0"))
    return None


def _same(a, b) -> bool:
    return a is b or (type(a) is type(b) and a == b)


def kw_counter_models(rows: Optional[List[Dict]] = None) -> List[Tuple[Dict, Any, Any, Any, Any]]:
    """(row, own, alt, translated value, specified value) where a REGENERATED keyword expression of `Router` / `Firewall` /
    `WirelessRouter.from_config` and `kwSpec` differ on the value grid (a row without a specification differs everywhere)."""
    rows = rows if rows is not None else XR.kwarg_sites()
    bad = []
    for r in rows:
        sp = kw_spec(r["function"], r["callee"], r["keyword"])
        for o in KW_OWN_GRID + [0, "TCP", "HTTP"]:
            for a in (KW_ALT_GRID if (r["alt_key"] or (sp and sp[1])) else [XR.ABSENT]):
                got = XR.evaluate(r["expr"], own=o, dflt=a)
                if sp is None or (r["own_key"], r["alt_key"]) != (sp[0], sp[1]):
                    bad.append((r, o, a, got, "<no specification for this keyword / these keys>"))
                    break
                want = sp[2](o, a)
                if not _same(got, want):
                    bad.append((r, o, a, got, want))
    return bad


def place_acl(kind: str, aclname: str, side: str, own, alt, own_key: Optional[str] = None, alt_key: Optional[str] = None) -> Dict:
    """A scenario whose `kind` node has ONE rule in ACL `aclname` whose `side` (src / dst) address is written `own` under the
    shipped spelling and `alt` under the documented one (ABSENT = key not written)."""
    cfg = _base()
    rule: Dict[str, Any] = {"action": "DENY", "protocol": "TCP"}
    ok, ak = own_key or f"{side}_ip", alt_key or f"{side}_ip_address"
    if alt is not XR.ABSENT:          # the documented spelling first in the mapping: order of keys must not matter
        rule[ak] = alt
    if own is not XR.ABSENT:
        rule[ok] = own
    rule[f"{side}_wildcard_mask"] = "0.0.0.255"
    if kind == "router":
        n = {"hostname": "r1", "type": "router", "num_ports": 3, "ports": {1: {"ip_address": "10.9.0.1", "subnet_mask": "255.255.255.0"}},
             "acl": {5: rule}}
    elif kind == "wireless-router":
        n = {"hostname": "w1", "type": "wireless-router", "router_interface": {"ip_address": "10.9.0.1", "subnet_mask": "255.255.255.0"},
             "wireless_access_point": {"ip_address": "10.77.0.1", "subnet_mask": "255.255.255.0", "frequency": "WIFI_2_4"}, "acl": {5: rule}}
    else:
        n = {"hostname": "f1", "type": "firewall",
             "ports": {"external_port": {"ip_address": "10.0.9.1", "subnet_mask": "255.255.255.252"},
                       "internal_port": {"ip_address": "10.9.0.1", "subnet_mask": "255.255.255.0"},
                       "dmz_port": {"ip_address": "10.9.1.1", "subnet_mask": "255.255.255.0"}},
             "acl": {a: ({5: rule} if a == aclname else {23: {"action": "PERMIT", "protocol": "ICMP"}})
                     for a in ("internal_inbound_acl", "internal_outbound_acl", "dmz_inbound_acl", "dmz_outbound_acl")}}
        if aclname.startswith("external"):
            n["acl"][aclname] = {5: rule}
    cfg["simulation"]["network"]["nodes"] += [n, _host()]
    return cfg


def acl_spelling_grid() -> List[Tuple[str, Dict, Dict]]:
    """Both spellings of an ACL address x {absent, None, '', an address} on every ACL of every router-like node type."""
    out = []
    for kind, aclname in ACL_HOLDERS:
        for side in ("src", "dst"):
            for o in KW_OWN_GRID:
                if o == "":
                    continue      # '' is refused loudly by add_rule ("Address cannot be empty"): not a well-formed file
                for a in KW_ALT_GRID:
                    out.append((f"acl-spelling:{kind}:{aclname}:{side}:own={_tag(o)}:alt={_tag(a)}", place_acl(kind, aclname, side, o, a),
                                {"site": f"acl-spelling:{kind}", "own": _tag(o), "dflt": _tag(a)}))
    return out


def place_kw(row: Dict, own, alt) -> Optional[Dict]:
    """The scenario for a counter-model of a keyword row (ACL rule keywords of the three router-like loaders)."""
    kind = {"Router.from_config": "router", "Firewall.from_config": "firewall", "WirelessRouter.from_config": "wireless-router"}.get(row["function"])
    if kind is None or row["callee"] != "add_rule":
        return None
    side = "dst" if row["keyword"].startswith("dst") else "src"
    # only values a well-formed file can carry there are written into a scenario ('' as an ADDRESS, 0, a text that is no port name are
    # refused loudly by add_rule / the lookup tables under every version of the loader: those grid points stay with the theorem)
    is_addr = lambda v: v is XR.ABSENT or v is None or (isinstance(v, str) and v.count(".") == 3)
    if row["keyword"] in ("src_ip_address", "dst_ip_address"):
        if not (is_addr(own) and is_addr(alt)):
            return None
        return [place_acl(kind, a, side, own, alt, row["own_key"], row["alt_key"] or None) for k, a in ACL_HOLDERS if k == kind]
    if row["keyword"] not in ("src_port", "dst_port", "protocol") or not (own is XR.ABSENT or own in (None, "", "HTTP", "TCP")) \
            or (own == "HTTP") != (row["keyword"] != "protocol") and own in ("HTTP", "TCP"):
        return None
    out = []
    for k, a in ACL_HOLDERS:
        if k == kind:
            c = place_acl(kind, a, side, "10.9.0.10", XR.ABSENT)
            for n in c["simulation"]["network"]["nodes"]:
                acl = n.get("acl") or {}
                for rule in ([acl.get(5)] if kind != "firewall" else [(acl.get(a) or {}).get(5)]):
                    if rule is not None:
                        rule.pop("protocol", None)
                        if own is not XR.ABSENT:
                            rule[row["own_key"]] = own
            out.append(c)
    return out


# ------------------------------------------------------------------------------------------------ (1c) state of configured software right after loading
def load_state_cases() -> List[Tuple[str, Dict, Dict]]:
    """A configured red application on a two-host LAN (with its target service): right after loading, every piece of software is in
    its initial state (kill-chain stage = the class's initial member) and that state does not depend on the random generators."""
    out = []
    variants = [
        ("dos-bot:repeat-false", "dos-bot", {"target_ip_address": "10.9.0.11", "target_port": "POSTGRES_SERVER", "port_scan_p_of_success": 0.5,
                                             "repeat": False, "max_sessions": 5}),
        ("dos-bot:repeat-true", "dos-bot", {"target_ip_address": "10.9.0.11", "target_port": "POSTGRES_SERVER", "port_scan_p_of_success": 0.5,
                                            "repeat": True, "max_sessions": 5}),
        ("dos-bot:target-only", "dos-bot", {"target_ip_address": "10.9.0.11", "target_port": "POSTGRES_SERVER"}),
        ("dos-bot:unconfigured", "dos-bot", None),
        ("data-manipulation-bot", "data-manipulation-bot", {"server_ip": "10.9.0.11", "payload": "DELETE", "port_scan_p_of_success": 0.5,
                                                            "data_manipulation_p_of_success": 0.5}),
        ("ransomware-script", "ransomware-script", {"server_ip": "10.9.0.11"}),
    ]
    for tag, typ, opts in variants:
        for state in (None, "OFF"):
            cfg = _base()
            cfg["game"]["ports"] = ["POSTGRES_SERVER", "HTTP"]
            h1, h2 = _host("h1", "computer", 10), _host("h2", "server", 11)
            e: Dict[str, Any] = {"type": typ}
            if opts is not None:
                e["options"] = dict(opts)
            h1["applications"] = [e] + ([{"type": "database-client", "options": {"db_server_ip": "10.9.0.11"}}] if typ != "dos-bot" else [])
            if state:
                h1["operating_state"] = state
            h2["services"] = [{"type": "database-service"}]
            cfg["simulation"]["network"]["nodes"] += [_switch(), h1, h2]
            cfg["simulation"]["network"]["links"] += [
                {"endpoint_a_hostname": "sw1", "endpoint_a_port": 1, "endpoint_b_hostname": "h1", "endpoint_b_port": 1},
                {"endpoint_a_hostname": "sw1", "endpoint_a_port": 2, "endpoint_b_hostname": "h2", "endpoint_b_port": 1}]
            out.append((f"load-state:{tag}:{state or 'ON'}", cfg, {"site": "load-state:" + typ, "own": tag, "dflt": state or "ON"}))
    return out


# ------------------------------------------------------------------------------------------------ (2) schema-driven falsy values
def _falsy_of(annotation) -> List[Any]:
    """Falsy values of a field's declared type (Optional[...] unwrapped)."""
    origin = typing.get_origin(annotation)
    if origin is typing.Union:
        out: List[Any] = []
        for a in typing.get_args(annotation):
            if a is not type(None):
                out += _falsy_of(a)
        return out
    if annotation is bool:
        return [False]
    if annotation is int:
        return [0, "0"]
    if annotation is float:
        return [0.0, 0]
    if annotation is str:
        return [""]
    if origin in (list, set, tuple) or annotation in (list, set, tuple):
        return [[]]
    if origin is dict or annotation is dict:
        return [{}]
    return []


def _accepted(schema, key: str, v: Any, extra: Optional[Dict] = None) -> bool:
    try:
        schema(**{**(extra or {}), key: v})
        return True
    except Exception:
        return False


def _dedup(vals: List[Any]) -> List[Any]:
    out: List[Any] = []
    for v in vals:
        if not any(type(v) is type(w) and v == w for w in out):
            out.append(v)
    return out


def schema_falsy_cases() -> List[Tuple[str, Dict, Dict]]:
    import primaite.game.game as gg
    from primaite.simulator.network.hardware.base import Node
    from primaite.simulator.system.applications.application import Application
    from primaite.simulator.system.services.service import Service
    from harness.rigs import config as R
    out: List[Tuple[str, Dict, Dict]] = []

    def both(name: str, make, meta: Dict):
        """the case WITHOUT and WITH the competing sources"""
        for comp in (False, True):
            cfg = make()
            if comp:
                cfg["defaults"] = dict(COMPETING_DEFAULTS)
                for n in cfg["simulation"]["network"]["nodes"]:
                    if n["type"] in ("computer", "server", "printer"):
                        n.setdefault("dns_server", "10.9.0.99")
            out.append((f"falsy:{name}:{'with' if comp else 'without'}-competing-source", cfg, dict(meta, competing=comp)))

    # software: every registered type, every field of its schema
    registered = {**{k: "services" for k in gg.SERVICE_TYPES_MAPPING}, **{k: "services" for k in Service._registry},
                  **{k: "applications" for k in Application._registry}}
    for t in sorted(set(registered) & set(G.SOFTWARE_VOCABULARY)):
        sect = G.SOFTWARE_VOCABULARY[t][0]
        schema = R._software_schema(t)
        for k, f in schema.model_fields.items():
            if k == "type":
                continue
            for v in _dedup(_falsy_of(f.annotation)):
                if not _accepted(schema, k, v):
                    continue

                def make(t=t, sect=sect, k=k, v=v):
                    cfg = _base()
                    h = _host(kind="server" if sect == "services" else "computer")
                    h[sect] = [{"type": t, "options": {k: copy.deepcopy(v)}}]
                    cfg["simulation"]["network"]["nodes"] += [h]
                    return cfg
                both(f"sw:{t}:{k}={_tag(v)}", make, {"thing": "software", "type": t, "option": k, "value": _tag(v)})
    # nodes: the keys of the node schemas that the model reads
    NODE_KEYS = ("start_up_duration", "shut_down_duration", "node_scan_duration", "operating_state", "num_ports",
                 "revealed_to_red", "start_up_countdown", "shut_down_countdown", "is_resetting")
    for t in ("computer", "server", "printer", "switch", "router", "firewall"):
        schema = Node._registry[t].ConfigSchema
        for k in NODE_KEYS:
            f = schema.model_fields.get(k)
            if f is None:
                continue
            vals = ["", False] if k == "operating_state" else _falsy_of(f.annotation)
            for v in _dedup(vals):
                if k == "num_ports" and t != "switch":
                    continue
                def make(t=t, k=k, v=v):
                    cfg = _base()
                    n: Dict[str, Any] = _host(kind=t) if t in ("computer", "server", "printer") else {"hostname": "n1", "type": t}
                    if t == "firewall":
                        n["ports"] = {"external_port": {"ip_address": "10.0.7.1", "subnet_mask": "255.255.255.252"},
                                      "internal_port": {"ip_address": "10.9.0.254", "subnet_mask": "255.255.255.0"}}
                    if t == "router":
                        n["num_ports"] = 2
                        n["ports"] = {1: {"ip_address": "10.9.0.1", "subnet_mask": "255.255.255.0"}}
                    n[k] = v
                    cfg["simulation"]["network"]["nodes"] += [n]
                    return cfg
                probe = make()["simulation"]["network"]["nodes"][0]
                if not _accepted(schema, k, v, {kk: vv for kk, vv in probe.items() if kk in schema.model_fields and kk != k}):
                    continue
                both(f"node:{t}:{k}={_tag(v)}", make, {"thing": "node", "type": t, "option": k, "value": _tag(v)})

    # users, files, folders, ACL rule, route, link, game
    def host_with(extra: Dict):
        def make():
            cfg = _base()
            h = _host()
            h.update(copy.deepcopy(extra))
            cfg["simulation"]["network"]["nodes"] += [h]
            return cfg
        return make
    both("user:password=''", host_with({"users": [{"username": "u1", "password": "", "is_admin": False}]}), {"thing": "user", "option": "password/is_admin"})
    both("user:is_admin=False", host_with({"users": [{"username": "u2", "password": "pw", "is_admin": False}, {"username": "u3", "password": "pw", "is_admin": True}]}),
         {"thing": "user", "option": "is_admin"})
    both("file:size=0", host_with({"folders": [{"folder_name": "d", "files": [{"file_name": "a.txt", "size": 0, "type": "TXT"}, {"file_name": "b.txt", "size": 40, "type": "TXT"}]}]}),
         {"thing": "file", "option": "size"})
    both("folder:files=[]", host_with({"folders": [{"folder_name": "empty", "files": []}, {"folder_name": "e2"}]}), {"thing": "folder", "option": "files"})
    both("software:options={}", host_with({"services": [{"type": "dns-server", "options": {}}, {"type": "ftp-server"}]}), {"thing": "software", "option": "options"})
    both("software:listen_on_ports=[]", host_with({"services": [{"type": "dns-server", "options": {"listen_on_ports": []}}]}), {"thing": "software", "option": "listen_on_ports"})
    both("software:starting_health_state=0", host_with({"services": [{"type": "dns-server", "options": {"starting_health_state": 0}}]}),
         {"thing": "software", "option": "starting_health_state"})

    def router_with(extra: Dict):
        def make():
            cfg = _base()
            r = {"hostname": "r1", "type": "router", "num_ports": 2, "ports": {1: {"ip_address": "10.9.0.1", "subnet_mask": "255.255.255.0"}}}
            r.update(copy.deepcopy(extra))
            cfg["simulation"]["network"]["nodes"] += [r]
            return cfg
        return make
    both("acl:position=0", router_with({"acl": {0: {"action": "DENY", "src_ip_address": "10.9.0.7", "src_wildcard_mask": "0.0.0.0"},
                                                 1: {"action": "PERMIT", "src_port": "", "dst_port": "", "protocol": ""}}}),
         {"thing": "acl-rule", "option": "position/ports"})
    both("acl:wildcard=0.0.0.0", router_with({"acl": {3: {"action": "PERMIT", "src_ip_address": "10.9.0.7", "src_wildcard_mask": "0.0.0.0",
                                                       "dst_ip_address": "10.9.0.8", "dst_wildcard_mask": "0.0.0.0"}}}), {"thing": "acl-rule", "option": "wildcard"})
    both("route:metric=0", router_with({"routes": [{"address": "10.8.0.0", "subnet_mask": "255.255.255.0", "next_hop_ip_address": "10.9.0.2", "metric": 0},
                                                   {"address": "10.7.0.0", "subnet_mask": "255.255.255.0", "next_hop_ip_address": "10.9.0.2", "metric": 2}]}),
         {"thing": "route", "option": "metric"})
    both("acl:empty-sections", router_with({"acl": {}, "routes": []}), {"thing": "router", "option": "acl/routes"})

    def game_with(extra: Dict):
        def make():
            cfg = host_with({})()
            cfg["game"].update(extra)
            return cfg
        return make
    both("game:seed=0", game_with({"seed": 0}), {"thing": "game", "option": "seed"})
    both("game:max_episode_length=0", game_with({"max_episode_length": 0}), {"thing": "game", "option": "max_episode_length"})
    both("game:ports=[]", game_with({"ports": [], "protocols": []}), {"thing": "game", "option": "ports"})
    return out


def node_state_cases() -> List[Tuple[str, Dict, Dict]]:
    """Every modelled node type declared in a transitional state with its countdown, revealed to red, resetting: keys the node schema
    declares and that `build = declared` now carries (NodeFlags)."""
    out = []
    variants = [("revealed", {"revealed_to_red": True}), ("booting-2", {"operating_state": "BOOTING", "start_up_countdown": 2, "start_up_duration": 5}),
                ("shutting-down-2", {"operating_state": "SHUTTING_DOWN", "shut_down_countdown": 2}),
                ("off-resetting", {"operating_state": "OFF", "is_resetting": True}), ("on-countdown-1", {"start_up_countdown": 1, "revealed_to_red": "true"}),
                ("booting-quoted", {"operating_state": "BOOTING", "start_up_countdown": "3"})]
    for t in ("computer", "server", "printer", "switch", "router", "firewall", "wireless-router"):
        for vn, extra in variants:
            cfg = _base()
            n: Dict[str, Any] = _host(kind=t) if t in ("computer", "server", "printer") else {"hostname": "n1", "type": t}
            if t == "firewall":
                n["ports"] = {"external_port": {"ip_address": "10.0.7.1", "subnet_mask": "255.255.255.252"},
                              "internal_port": {"ip_address": "10.9.0.254", "subnet_mask": "255.255.255.0"}}
            if t == "router":
                n.update({"num_ports": 2, "ports": {1: {"ip_address": "10.9.0.1", "subnet_mask": "255.255.255.0"}}})
            if t == "wireless-router":
                n.update({"router_interface": {"ip_address": "10.9.0.1", "subnet_mask": "255.255.255.0"},
                          "wireless_access_point": {"ip_address": "10.9.1.1", "subnet_mask": "255.255.255.0", "frequency": "WIFI_2_4"}})
            if t in ("computer", "server"):
                n["services"] = [{"type": "dns-server"}]
            n.update(copy.deepcopy(extra))
            cfg["simulation"]["network"]["nodes"].append(n)
            out.append((f"falsy:node-state:{t}:{vn}", cfg, {"thing": "node-state", "type": t, "option": vn}))
    return out


def agent_settings_cases(rng) -> List[Tuple[str, Dict, Dict]]:
    """Every field of every generated agent's `agent_settings` schema with each falsy value of its type the schema accepts."""
    from harness.rigs import config as R
    out = []
    base = G.gen_software_matrix(rng, size=1, agents=True)
    base2 = G.gen_scenario(rng, size=1, family="lan", node_sets=False)
    seen = set()
    for src in (base, base2):
        for i, a in enumerate(src.get("agents") or []):
            schema = R._settings_schema(a["type"])
            if schema is None or not hasattr(schema, "model_fields") or a["type"] in seen:
                continue
            seen.add(a["type"])
            for k, f in schema.model_fields.items():
                for v in _dedup(_falsy_of(f.annotation)):
                    if not _accepted(schema, k, v, {kk: vv for kk, vv in (a.get("agent_settings") or {}).items() if kk != k}):
                        continue
                    cfg = copy.deepcopy(src)
                    cfg["agents"][i].setdefault("agent_settings", {})
                    cfg["agents"][i]["agent_settings"] = dict(cfg["agents"][i]["agent_settings"] or {}, **{k: copy.deepcopy(v)})
                    out.append((f"falsy:agent:{a['type']}:{k}={_tag(v)}", cfg, {"thing": "agent-setting", "type": a["type"], "option": k, "value": _tag(v)}))
    return out
