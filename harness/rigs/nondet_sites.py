"""Component-level correspondence for the set consumers modelled in Model/Noninterf.lean: the REAL code (in this
process) against the Lean driver `drv_c03`, on generated inputs.

  sorted   NMAP.ping_scan on a real node with `icmp.ping` replaced by a recorder: the order in which targets are pinged
  ports    PrimaiteGame.from_config on a one-node scenario whose service carries a generated `listen_on_ports` list
  topo     science.topological_sort on generated graphs whose neighbour collections are LISTS in a chosen order
  canon    the rig's own canonicaliser (xproc.Canon) against the model's `canonRun`
"""
from __future__ import annotations

import copy
import uuid as _uuid
from ipaddress import IPv4Address, IPv4Network
from typing import Any, Dict, List, Tuple

from harness.lib import scen
from harness.lib.core import Rng

ONE_NODE = {
    "metadata": {"version": 3.0},
    "io_settings": dict(scen.QUIET_IO),
    "game": {"max_episode_length": 8, "ports": ["HTTP"], "protocols": ["TCP", "UDP", "ICMP"]},
    "agents": [],
    "simulation": {"network": {"nodes": [
        {"hostname": "pc_a", "type": "computer", "ip_address": "192.168.7.2", "subnet_mask": "255.255.255.0",
         "default_gateway": "192.168.7.1", "services": [{"type": "dns-server", "options": {}}]},
        {"hostname": "pc_b", "type": "computer", "ip_address": "192.168.7.3", "subnet_mask": "255.255.255.0",
         "default_gateway": "192.168.7.1"},
        {"hostname": "sw", "type": "switch", "num_ports": 4}],
        "links": [{"endpoint_a_hostname": "sw", "endpoint_a_port": 1, "endpoint_b_hostname": "pc_a", "endpoint_b_port": 1},
                  {"endpoint_a_hostname": "sw", "endpoint_a_port": 2, "endpoint_b_hostname": "pc_b", "endpoint_b_port": 1}]}},
}


# ---------------------------------------------------------------------------------------------- sorted (nmap)
def gen_targets(rng: Rng) -> List[str]:
    out = []
    for _ in range(rng.range(1, 4)):
        if rng.chance(1, 3):
            out.append(f"10.{rng.below(3)}.{rng.below(4)}.{rng.below(256) & ~3}/{rng.choice([28, 29, 30])}")
        else:
            out.append(f"10.{rng.below(3)}.{rng.below(4)}.{rng.range(1, 254)}")
    if rng.chance(1, 4):
        out.append("192.168.7.2")  # the scanning node itself: skipped by the scan
    return out


def nmap_visit_order(game, targets: List[str], kind: str) -> Tuple[List[int], List[int]]:
    """(addresses handed to the model in the set's own order, addresses in the order the real scan visits them)."""
    from primaite.simulator.system.applications.nmap import NMAP
    node = game.simulation.network.get_node_by_hostname("pc_a")
    nmap = node.software_manager.software["nmap"]
    ts = [IPv4Network(t, strict=False) if "/" in t else IPv4Address(t) for t in targets]
    captured: List[Any] = []
    real_explode = NMAP._explode_ip_address_network_array

    def explode(x):  # the set the scan really iterates (after pydantic's coercion of the argument), in this process's order
        r = real_explode(x)
        captured.append(list(r))
        return r
    nmap.__dict__["_explode_ip_address_network_array"] = explode
    visited: List[int] = []
    if kind == "ping":
        icmp = node.software_manager.icmp
        orig = icmp.ping
        icmp.ping = lambda ip, *a, **k: (visited.append(int(ip)), int(ip) % 3 == 0)[1]
        try:
            nmap.ping_scan(target_ip_address=ts, show=False)
        finally:
            icmp.ping = orig
    else:
        orig = nmap._check_port_open_on_ip_address
        nmap._check_port_open_on_ip_address = lambda ip_address, port, protocol, **k: (visited.append(int(ip_address)), False)[1]
        try:
            nmap.port_scan(target_ip_address=ts, target_port=80, target_protocol="tcp", show=False)
        finally:
            nmap._check_port_open_on_ip_address = orig
    nmap.__dict__.pop("_explode_ip_address_network_array", None)
    exploded = captured[0] if captured else []
    return [int(ip) for ip in exploded if not node.ip_is_network_interface(ip_address=ip)], visited


# ---------------------------------------------------------------------------------------------- ports
def gen_port_entries(rng: Rng, lookup: Dict[str, int]) -> List[Any]:
    names = [n for n, v in lookup.items() if v >= 0]
    out = []
    for _ in range(rng.range(0, 7)):
        r = rng.below(10)
        if r < 4:
            out.append(rng.choice(names))
        elif r < 5:
            out.append(0)
        elif r < 8:
            out.append(lookup[rng.choice(names)])  # an int that collides with a name's value
        else:
            out.append(rng.range(1, 65535))
    if out and rng.chance(1, 3):
        out.append(out[0])  # duplicate
    return out


def listen_ports_impl(entries: List[Any]) -> List[int]:
    cfg = copy.deepcopy(ONE_NODE)
    cfg["simulation"]["network"]["nodes"][0]["services"][0]["options"] = {"listen_on_ports": list(entries)}
    game = scen.make_game(cfg)
    sw = game.simulation.network.get_node_by_hostname("pc_a").software_manager.software["dns-server"]
    return sorted(sw.listen_on_ports)


def gen_listen_probe(rng: Rng, lookup: Dict[str, int]) -> List[Any]:
    """For the CROSS-PROCESS probe of `_set_software_listen_on_ports`: mostly port NAMES (strings: the order in which their set hands
    them out depends on PYTHONHASHSEED), 3-8 distinct, sometimes the name of port 0 (`NONE`: falsy, dropped by the code), sometimes an
    int. (Entries that are neither a port name nor a port number never reach the loop: the software's ConfigSchema rejects them first.)"""
    names = [n for n, v in lookup.items() if v > 0]
    out: List[Any] = rng.shuffle(names)[:rng.range(3, 8)]
    zero = [n for n, v in lookup.items() if v == 0]
    if zero and rng.chance(1, 3):
        out.insert(rng.below(len(out) + 1), zero[0])
    if rng.chance(1, 3):
        out.insert(rng.below(len(out) + 1), rng.range(1, 65535))
    return out


def listen_ports_probe(entries: List[Any]) -> Dict[str, Any]:
    """what `from_config` leaves in `listen_on_ports` (value, container type, number of entries), or the exception it raised"""
    cfg = copy.deepcopy(ONE_NODE)
    cfg["simulation"]["network"]["nodes"][0]["services"][0]["options"] = {"listen_on_ports": list(entries)}
    try:
        game = scen.make_game(cfg)
    except Exception as e:  # compared across processes like any other answer
        return {"raised": type(e).__name__}
    sw = game.simulation.network.get_node_by_hostname("pc_a").software_manager.software["dns-server"]
    return {"ports": sorted(sw.listen_on_ports), "type": type(sw.listen_on_ports).__name__, "n": len(sw.listen_on_ports)}


def ports_line(entries: List[Any], lookup: Dict[str, int]) -> str:
    """The model iterates `set(entries)`: duplicates collapse first (an int and a name are different elements)."""
    seen, ws = [], []
    for e in entries:
        if e in seen:
            continue
        seen.append(e)
        ws.append(f"i{e}" if isinstance(e, int) else f"s{lookup[e]}")
    return "ports " + " ".join(ws)


# ---------------------------------------------------------------------------------------------- topo
def gen_graph(rng: Rng) -> List[Tuple[int, List[int]]]:
    n = rng.range(1, 7)
    keys = rng.shuffle(list(range(n)))
    cyclic = rng.chance(1, 5)
    g = []
    for k in keys:
        cands = [m for m in range(n + 1) if m != k and (cyclic or m > k)]  # edges to larger numbers only: acyclic; n = a non-key node
        nb = [m for m in cands if rng.chance(1, 3)]
        g.append((k, rng.shuffle(nb)))
    return g


def topo_impl(g: List[Tuple[int, List[int]]]) -> List[int]:
    from primaite.game.science import topological_sort
    return list(topological_sort({k: list(v) for k, v in g}))


def topo_line(g) -> str:
    return "topo " + " ".join(f"{k}:{','.join(map(str, v))}" for k, v in g)


# ---------------------------------------------------------------------------------------------- canon
def gen_canon(rng: Rng) -> List[List[Tuple[str, int]]]:
    outs = []
    for _ in range(rng.range(1, 4)):
        outs.append([("u", rng.below(5)) if rng.chance(1, 2) else ("v", rng.below(9)) for _ in range(rng.range(0, 6))])
    return outs


def canon_impl(outs, ids: List[str]) -> str:
    from harness.rigs.xproc import Canon
    c = Canon()
    res = []
    for o in outs:
        text = " ".join(ids[n] if k == "u" else f"v{n}" for k, n in o)
        res.append(c.text(text).replace("<id", "u").replace(">", ""))
    return " | ".join(res)


def canon_line(outs) -> str:
    return "canon " + " | ".join(" ".join(f"{k}{n}" for k, n in o) for o in outs)


def fresh_ids(rng: Rng, n: int = 5) -> List[str]:
    out = []
    for i in range(n):
        if i % 2:
            out.append(":".join(f"{rng.below(256):02x}" for _ in range(6)))
        else:
            out.append(str(_uuid.UUID(int=(rng.next() << 64) | rng.next(), version=4)))
    return out


# ---------------------------------------------------------------------------------------------- seeding path (set_random_seed / reset)
SEED_ARGS = [None, -1, -2, -7, 0, 1, 2, 7, 65535, 2 ** 31, 2 ** 32 - 1, 2 ** 32, 2 ** 40 + 3]


def _gen_states():
    import random
    import numpy as np
    return repr(random.getstate()), np.random.get_state()[1].tobytes()


def _classify_seeding(before, returned, x) -> str:
    """What happened to the global generators between `before` and now, in the model's vocabulary."""
    import random
    import numpy as np
    after = _gen_states()
    if after == before:
        return "keep"
    if returned is None:
        return "changed-but-returned-None"
    n = int(returned)
    py = random.Random()
    py.seed(n)
    ok_py = repr(py.getstate()) == after[0]
    ok_np = np.random.RandomState(n).get_state()[1].tobytes() == after[1]
    if not (ok_py and ok_np):
        return f"state-is-not-that-of-seed-{n}:py={ok_py},np={ok_np}"
    return f"seed {n}" if (x is not None and x == n) else "entropy"


def seedact_set_impl(x, gen: bool) -> str:
    """`set_random_seed(x, gen)` on generators put in a known state first."""
    import random
    import numpy as np
    from primaite.session.environment import set_random_seed
    random.seed(987654)
    np.random.seed(987654)
    before = _gen_states()
    try:
        r = set_random_seed(x, gen)
    except ValueError:
        return "raise" if _gen_states() == before else "raise-after-change"
    except Exception as e:  # anything else is reported as it is
        return "raised:" + type(e).__name__
    return _classify_seeding(before, r, x)


OWN_STATE_KEY = "_generator_state"    # the key of the F-11 repair's decorator (Gen/OwnGeneratorState.stateKey; c03.py obliges the equality)


def _hand_known_state(env) -> None:
    """the state the rig has just put the process-wide generators in becomes the state the environment's next operation STARTS FROM: since
    the F-11 repair an operation first puts the environment's own saved state back (on a tree without the repair: nothing to do)"""
    import random
    import numpy as np
    d = getattr(env, "__dict__", None)
    if isinstance(d, dict) and OWN_STATE_KEY in d:
        d[OWN_STATE_KEY] = (random.getstate(), np.random.get_state())


def seedact_reset_impl(env, x, gen: bool) -> str:
    """`env.reset(seed=x)` with `generate_seed_value = gen`: does it call set_random_seed, and what does the call do? The
    generators are put in a known state first and read again right after the seeding call (before from_config draws)."""
    import random
    import numpy as np
    import primaite.session.environment as envmod
    real = envmod.set_random_seed
    seen = []

    def recorder(seed, generate_seed_value):
        before = _gen_states()
        try:
            r = real(seed, generate_seed_value)
        except ValueError:
            seen.append("raise" if _gen_states() == before else "raise-after-change")
            raise
        seen.append(_classify_seeding(before, r, seed))
        return r
    env.generate_seed_value = gen
    random.seed(424242)
    np.random.seed(424242)
    _hand_known_state(env)
    envmod.set_random_seed = recorder
    try:
        env.reset(seed=x)
    except ValueError:
        return seen[-1] if seen else "raised-without-seeding-call"
    except Exception as e:
        return "raised:" + type(e).__name__
    finally:
        envmod.set_random_seed = real
    if not seen:
        return "keep"
    return seen[-1] if len(seen) == 1 else "seeding-called-%d-times" % len(seen)
