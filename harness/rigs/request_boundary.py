"""R-boundary: every numeric / enumerated / name option of every action type at its BOUNDARY values, with the real handlers.

'Every request is answered with one of the four documented statuses' is searched by R-req with mostly mid-range option values.  This
family enumerates, deterministically, for every registered action type and every option of it, the values at and around the edges of
what the target accepts, the other options naming existing components of a host / router / firewall that is ON:

    position                      -1, 0, 1, max-3, max-2, max-1, max, max+1        (max = the addressed list's `max_acl_rules`)
    nic_num / port_num            -1, 0, 1, count, count+1                          (count = NICs of the addressed node)
    *_port, masquerade_port       0, 1, 65535, 65536
    other int options             -1, 0, 1, 2**31
    *_name, username, *_ip        "" and a 300-character name                       (a missing component: `unreachable` / `failure`)

When the action's ConfigSchema refuses the value, the RAW request (the request formed from the baseline with that element replaced) is
sent instead: a raw caller is not protected by the schema.  An exception out of `apply_request`, or an undocumented status, is a
concrete violation; the replay is the request with the history of live requests before it on a fresh build of the scenario."""
from __future__ import annotations

import typing
from typing import Any, Dict, List, Tuple

from harness.rigs import request as rig

DOCUMENTED = {"pending", "success", "failure", "unreachable"}
PORT_FIELDS = ("src_port", "dst_port", "target_port", "masquerade_port")


def _is_int_field(fi) -> bool:
    ann = fi.annotation
    args = typing.get_args(ann)
    return ann is int or (int in args and bool not in args and str not in args)


def _max_rules(sim, opts: Dict[str, Any]) -> int:
    name = opts.get("target_router") or opts.get("target_firewall_nodename")
    node = next((n for n in sim.network.nodes.values() if n.config.hostname == name), None)
    acl = getattr(node, "acl", None)
    return int(getattr(acl, "max_acl_rules", 25) or 25)


def values_for(field: str, fi, sim, vocab, opts: Dict[str, Any]) -> List[Any]:
    if field == "position":
        m = _max_rules(sim, opts)
        return [-1, 0, 1, m - 3, m - 2, m - 1, m, m + 1]
    if field in ("nic_num", "port_num"):
        node = opts.get("node_name") or opts.get("target_nodename")
        count = len((vocab["nodes"].get(node) or {}).get("nics", []))
        return [-1, 0, 1, count, count + 1]
    if field in PORT_FIELDS:
        return [0, 1, 65535, 65536]
    if _is_int_field(fi):
        return [-1, 0, 1, 2 ** 31]
    if field.endswith("_name") or field in ("username", "node_name", "target_nodename", "target_router", "target_firewall_nodename"):
        return ["", "n" * 300]
    return []


def family(rng, sim, vocab, reg) -> List[Tuple[str, str, Any, str, List[Any]]]:
    out = []
    for ident in sorted(reg):
        cls = reg[ident]
        fields = {k: v for k, v in cls.ConfigSchema.model_fields.items() if k != "type"}
        if not fields:
            continue
        base = None
        for _ in range(4):   # a baseline whose parameters name existing components
            _, opts, exists = rig.gen_action(rng, sim, vocab, {ident: cls}, ghost_p=(0, 1))
            if "position" in opts:
                opts["position"] = 1
            try:
                base_req = cls.form_request(cls.ConfigSchema(type=ident, **opts))
            except Exception:
                continue
            base = (opts, base_req)
            if exists:
                break
        if base is None:
            continue
        opts, base_req = base
        for f, fi in fields.items():
            for v in values_for(f, fi, sim, vocab, opts):
                o2 = dict(opts, **{f: v})
                try:
                    req, how = cls.form_request(cls.ConfigSchema(type=ident, **o2)), "action"
                except Exception:
                    if f not in opts or not any(type(x) is type(opts[f]) and x == opts[f] for x in base_req):
                        continue
                    req, how = [v if (type(x) is type(opts[f]) and x == opts[f]) else x for x in base_req], "raw"
                out.append((ident, f, v, how, req))
    return out


def run(ctx, scenarios: Dict[str, Any], reg) -> None:
    from harness.lib import scen
    rng = ctx.rng.fork("boundary")
    sent = 0
    for name, path in list(scenarios.items())[: ctx.scale(3, 12)]:
        try:
            sim = scen.make_game(scen.load_cfg(path)).simulation
        except Exception as e:
            ctx.notes.append(f"R-boundary: {name} not buildable: {type(e).__name__}")
            continue
        vocab = rig._vocab(sim)
        history: List[List[Any]] = []
        for ident, f, v, how, req in family(rng, sim, vocab, reg):
            try:
                resp = sim.apply_request(list(req))
                st = getattr(resp, "status", None)
                exc = None
            except Exception as e:
                import traceback
                tb = traceback.extract_tb(e.__traceback__)
                exc = (type(e).__name__, str(e)[:160], " <- ".join(f"{t.filename.split('primaite/')[-1]}:{t.name}:{t.lineno}" for t in tb[-3:][::-1]))
                st = "raised"
            sent += 1
            ctx.count(f"boundary:{how}:{st}")
            ctx.case({"boundary": name, "ident": ident, "f": f, "v": str(v)[:20], "how": how}, st != "success")
            rp = {"scenario": name, "req": req, "history": list(history), "family": "boundary", "action": ident, "field": f, "value": str(v)[:40]}
            if exc is not None:
                ctx.violation({"kind": "request-raises", "exc": exc[0], "action": ident, "phase": "handler", "family": "boundary", "field": f},
                              f"{name}: {ident} with {f}={str(v)[:40]!r} ({how}) -> request {str(req)[:200]} raised {exc[0]}: {exc[1]} at {exc[2]} "
                              f"instead of answering", rp)
            elif st not in DOCUMENTED:
                ctx.violation({"kind": "undocumented-status", "action": ident, "status": str(st), "family": "boundary"},
                              f"{name}: {ident} with {f}={str(v)[:40]!r}: request {str(req)[:200]} answered status {st!r}", rp)
            history.append(list(req))
    ctx.cov["boundary_requests_sent_live"] = sent
