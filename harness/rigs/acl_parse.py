"""C07 rig, family `parse`: a port / protocol WRITTEN as a name, a number, a sentinel, None or junk, sent through each surface
(validator function, Python API, request API, agent action, scenario-file loaders) — what does the stored rule carry?
The model side is `portVia` / `protoNameVia` of Model/AclParse.lean over the regenerated tables (driver line `pv`).
The family is small enough to ENUMERATE: every name of both tables (+ case variants), boundary numbers, sentinels, junk."""
from __future__ import annotations

from typing import List, Tuple

SURFACES = ["fn", "api", "request", "action", "loader", "loader-fw", "loader-wl"]
FIELDS = ["src_port", "dst_port", "protocol"]


def _enc(v) -> Tuple[str, str]:
    if v is None:
        return "n", "-"
    if isinstance(v, bool):
        raise ValueError("bool is outside the model")
    if isinstance(v, int):
        return "i", str(v)
    if isinstance(v, str):
        if v == "":
            return "e", "-"
        assert " " not in v
        return "s", v
    return "o", "-"


def _dec(kind: str, val: str):
    return {"n": lambda: None, "i": lambda: int(val), "s": lambda: val, "e": lambda: "", "o": lambda: 1.5}[kind]()


def values(table_names: List[str], field: str) -> list:
    """the enumerated value domain of one field (names come from the extractor's tables, not from the code under test)"""
    vals: list = [None, "ALL", "NONE", "", "all", "None", "ANY", 1.5]
    for n in table_names:
        vals += [n, n.lower(), n.capitalize()]
    if field == "protocol":
        vals += ["tcp", "udp", "icmp", "none", "TCP ", "ip", 6, 0, 1]
    else:
        vals += [-1, 0, 1, 9, 22, 80, 219, 5432, 65534, 65535, 65536, 100000, -65535, "80", "0", "65536", "-1", "HTTP_", "TELNET"]
    out, seen = [], set()
    for v in vals:
        if isinstance(v, str) and " " in v:
            continue
        k = (type(v).__name__, v)
        if k not in seen:
            seen.add(k)
            out.append(v)
    return out


def gen_cases(port_names: List[str], proto_names: List[str]) -> List[dict]:
    cases = []
    for surf in SURFACES:
        for field in FIELDS:
            names = proto_names if field == "protocol" else port_names
            ops = []
            for v in values(names, field):
                k, s = _enc(v)
                ops.append({"kind": k, "val": s})
            if surf in ("loader-fw", "loader-wl"):
                ops = ops[::3]  # the eight loader loops are proved uniform (C07_gen_loader_blocks); the other two classes are sampled
            cases.append({"family": "parse", "surface": surf, "field": field, "ops": ops})
    return cases


def _show(x) -> str:
    return "-" if x is None else str(x)


def _one(surface: str, field: str, v) -> str:
    from primaite.simulator.network.hardware.nodes.network.router import AccessControlList, ACLAction, Router
    from primaite.simulator.system.core.sys_log import SysLog
    try:
        if surface == "fn":
            if field == "protocol":
                from primaite.utils.validation.ip_protocol import protocol_validator
                return _show(protocol_validator(v))
            from primaite.utils.validation.port import port_validator
            return _show(port_validator(v))
        if surface.startswith("loader"):
            entry = {"action": "PERMIT", field: v}
            if surface == "loader":
                dev = Router.from_config({"type": "router", "hostname": "r_parse", "num_ports": 2, "acl": {0: entry}})
                acl = dev.acl
            elif surface == "loader-fw":
                from primaite.simulator.network.hardware.nodes.network.firewall import Firewall
                six = {a: {} for a in ("internal_inbound_acl", "internal_outbound_acl", "dmz_inbound_acl", "dmz_outbound_acl",
                                       "external_inbound_acl", "external_outbound_acl")}
                six["dmz_inbound_acl"] = {0: entry}
                dev = Firewall.from_config({"type": "firewall", "hostname": "f_parse", "acl": six})
                acl = dev.dmz_inbound_acl
            else:
                from primaite.simulator.network.hardware.nodes.network.wireless_router import WirelessRouter
                from primaite.simulator.network.container import Network
                dev = WirelessRouter.from_config({"type": "wireless-router", "hostname": "w_parse", "acl": {0: entry},
                                                  "router_interface": {"ip_address": "10.0.1.1", "subnet_mask": "255.255.255.0"},
                                                  "wireless_access_point": {"ip_address": "10.0.2.1", "subnet_mask": "255.255.255.0",
                                                                            "frequency": "WIFI_2_4"}}, airspace=Network().airspace)
                acl = dev.acl
        else:
            acl = AccessControlList(sys_log=SysLog("verif"), implicit_action=ACLAction.DENY, name="verif")
            if surface == "api":
                acl.add_rule(action=ACLAction.PERMIT, position=0, **{field: v})
            else:
                f = {"protocol": "ALL", "src_port": "ALL", "dst_port": "ALL"}
                f[field] = v
                if surface == "request":
                    req = ["add_rule", "PERMIT", f["protocol"], "ALL", "NONE", f["src_port"], "ALL", "NONE", f["dst_port"], 0]
                else:
                    import primaite.game.game  # noqa: F401
                    from primaite.game.agent.actions.abstract import AbstractAction
                    cls = AbstractAction._registry["router-acl-add-rule"]
                    cfg = cls.ConfigSchema(type="router-acl-add-rule", target_router="X", position=0, permission="PERMIT", src_ip="ALL",
                                           src_wildcard="NONE", dst_ip="ALL", dst_wildcard="NONE", protocol_name=f["protocol"],
                                           src_port=f["src_port"], dst_port=f["dst_port"])
                    full = cls.form_request(cfg)
                    if full[:4] != ["network", "node", "X", "acl"]:
                        return f"odd-route {full[:4]}"
                    req = full[4:]
                resp = acl.apply_request(req, {})
                if resp.status != "success":
                    return "raised"
        rule = acl.acl[0]
        if rule is None:
            return "no-rule"
        # the OTHER two value fields must have stayed unspecified
        for other in FIELDS:
            if other != field and getattr(rule, other) is not None:
                return f"spill:{other}={getattr(rule, other)}"
        return _show(getattr(rule, field))
    except (ValueError, KeyError, TypeError):
        return "raised"


def run_impl(case: dict) -> Tuple[List[str], List[str]]:
    impl, lines = ["ok"], ["reset"]
    surf = case["surface"]
    msurf = "loader" if surf.startswith("loader") else surf
    for op in case["ops"]:
        v = _dec(op["kind"], op["val"])
        impl.append(_one(surf, case["field"], v))
        lines.append(f"pv {msurf} {'proto' if case['field'] == 'protocol' else 'port'} {op['kind']} {op['val']}")
    return impl, lines
