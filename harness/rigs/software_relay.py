"""C13 rig family R-relay: two REAL hosts on a link with the FTP client / server and the C2 server / beacon (and every other
installed class whose translated `receive` has no untranslated statement) in every lifecycle state and node power state, driven by
real transfers (`send_file`, `request_file`), the real C2 exchange (`establish`, `send_command`), payloads handed straight to
`receive`, lifecycle calls, power events and ticks.  At EVERY real `receive` / `send` call on an adopted object the rig records the
environment of the call (`_can_perform_action()`, which payload types hold, the value of every payload test of the translated
chain, what each callee returned) and what really happened (return value; the methods the body called on `self`, in order).
  * tie: the driver runs the TRANSLATED chain (Gen/SoftwareRelay, `Relay.runChain`) on that environment; return value and calls
    must agree (this validates the translation and the interpreter the theorems of Props/C13Relay.lean are about);
  * oracle (implementation alone): a call made while `_can_perform_action()` is False returns a falsy value, changes nothing of
    the object but `_active`, and nothing leaves the node; the port of software that is not RUNNING is not in `get_open_ports()`."""
from __future__ import annotations

import re
import sys
from typing import Any, Dict, List, Optional, Tuple

from harness.lib.core import Rng
from harness.rigs import software as base

IPS = {"A": "192.168.1.2", "B": "192.168.1.3"}
TARGETS = ("FTPClient", "FTPServer", "C2Beacon", "C2Server")
_PROGS: Dict[Tuple[str, str], dict] = {}


def programs(cls_name: str, meth: str) -> Optional[dict]:
    """names used by the translated chain of `cls_name.meth` (from the same extractor that writes Gen/SoftwareRelay.lean)"""
    key = (cls_name, meth)
    if key not in _PROGS:
        from harness.extract import software_relay as x
        from harness.extract.software import Classes
        cs = programs.cs = getattr(programs, "cs", None) or Classes()
        if cls_name not in cs.defs:
            _PROGS[key] = None
            return None
        ch = x.chain(cs, cls_name, meth, strict=False)
        text = " ".join(p for _, prog in ch for p in prog)
        calls = []
        for m in re.finditer(r'\.(eff|retEff) "((?:[^"\\]|\\.)*)"|\.(doIf|retEffIf) "(?:[^"\\]|\\.)*" "((?:[^"\\]|\\.)*)"', text):
            nm = m.group(2) if m.group(2) is not None else m.group(4)
            if not nm.startswith(("stmt:", "set:", "expr:")) and nm not in calls:
                calls.append(nm)
        _PROGS[key] = {"opaque": '"stmt:' in text, "calls": calls, "owners": [o for o, _ in ch]}
    return _PROGS[key]


class Call:
    __slots__ = ("obj", "kind", "cls", "can", "payload", "effects", "results", "ret", "before", "sent0", "state", "node_state", "compare", "pre")


class World:
    def __init__(self):
        base.load()
        from primaite.simulator.network.container import Network
        self.net = Network()
        self.nodes: Dict[str, Any] = {}
        self.stack: List[Any] = []          # frames: Call objects (receive / send) and ("eff", obj) markers
        self.records: List[Call] = []
        self.oracle: List[Tuple[str, str, str]] = []
        self.frames_out = {"A": 0, "B": 0}
        for side, kind in (("A", "computer"), ("B", "server")):
            n = base.make_node(kind, {"power": "ON", "up": 0, "down": 0, "kind": kind, "ip": IPS[side], "hostname": "relay_" + side})
            self.nodes[side] = n
            self.net.add_node(n)
        self.net.connect(self.nodes["A"].network_interface[1], self.nodes["B"].network_interface[1])
        for side, n in self.nodes.items():
            nic = n.network_interface[1]
            orig = nic.send_frame

            def counting(*a, _o=orig, _s=side, **k):
                self.frames_out[_s] += 1
                return _o(*a, **k)
            object.__setattr__(nic, "send_frame", counting)
        svc, app = base.registries()
        self.nodes["B"].software_manager.install(svc["ftp-server"])
        self.nodes["A"].software_manager.install(app["c2-server"])
        self.nodes["B"].software_manager.install(app["c2-beacon"])
        self.nodes["A"].file_system.create_file(folder_name="out", file_name="a.txt")
        self.nodes["B"].file_system.create_file(folder_name="pub", file_name="b.txt")
        for side, n in self.nodes.items():
            for o in list(n.software_manager.software.values()):
                self.adopt(side, o)

    # ---- instrumentation
    def adopt(self, side: str, obj):
        cls = type(obj).__name__
        for meth in ("receive", "send"):
            info = programs(cls, meth)
            if info is None:
                continue
            # a chain with an untranslated statement is not COMPARED with the model, but the oracle still watches the class
            self._wrap(side, obj, cls, meth, info, compare=not info["opaque"] and (meth, cls) in NAMES)

    def _wrap(self, side: str, obj, cls: str, meth: str, info: dict, compare: bool = True):
        world = self
        real = getattr(type(obj), meth)
        for nm in info["calls"]:
            if not hasattr(obj, nm) or getattr(getattr(obj, nm), "_relay_wrapped", False):
                continue
            inner = getattr(obj, nm)

            def eff(*a, _inner=inner, _nm=nm, _o=obj, **k):
                top = world.stack[-1] if world.stack else None
                direct = isinstance(top, Call) and top.obj is _o
                if direct:
                    top.effects.append(_nm)
                world.stack.append(("eff", _o))
                try:
                    r = _inner(*a, **k)
                finally:
                    world.stack.pop()
                if direct:
                    top.results[_nm] = bool(r)
                return r
            eff._relay_wrapped = True
            object.__setattr__(obj, nm, eff)

        def wrapped(*a, _o=obj, **k):
            c = Call()
            c.obj, c.kind, c.cls = _o, meth, cls
            c.payload = k.get("payload", a[0] if a else None)
            c.can = bool(_o._can_perform_action())
            c.effects, c.results = [], {}
            c.before = base._snapshot(_o)
            c.sent0 = world.frames_out[side]
            c.state = _o.operating_state.name
            c.node_state = world.nodes[side].operating_state.name
            c.compare = compare
            c.pre = (getattr(getattr(c.payload, "ftp_command", None), "name", None), getattr(getattr(c.payload, "status_code", None), "name", None),
                     getattr(c.payload, "status_code", None) is not None) if type(c.payload).__name__ == "FTPPacket" else None
            env = world._env(c, k) if compare else None
            world.stack.append(c)
            c.ret = None
            raised = True
            try:
                c.ret = real(_o, *a, **k)
                raised = False
            finally:
                world.stack.pop()
                if raised:
                    # e.g. `add_connection` with a session id the session manager does not know (a payload handed straight to
                    # `receive`): the exception propagates as in the real code; the call is not compared with the model, but the
                    # oracles below still judge what was called up to that point
                    world._judge(c, side, cls, meth, k.get("payload", a[0] if a else None), _o, raised=True)
            if compare:
                world.records.append(c)
            c.payload = env      # keep only the evaluated environment
            world._judge(c, side, cls, meth, k.get("payload", a[0] if a else None), _o)
            return c.ret
        object.__setattr__(obj, meth, wrapped)

    def _judge(self, c: Call, side: str, cls: str, meth: str, payload, obj, raised: bool = False):
        if c.can and cls == "FTPClient" and meth == "receive" and c.pre is not None:
            # the client's connection bookkeeping, stated on the implementation alone (command and status as they were BEFORE the call)
            cmd, st, has_status = c.pre
            want_add = st == "OK" and cmd == "PORT"
            want_term = st == "OK" and cmd == "QUIT"
            seen_term = "terminate_connection" in c.effects
            if has_status and (("add_connection" in c.effects) != want_add or (seen_term != want_term and not (raised and want_term))):
                self.oracle.append(("ftp-client-connection-bookkeeping", f"answer {cmd}/{st}: called {c.effects}", cls))
        if c.can != (c.state == "RUNNING" and c.node_state == "ON"):
            # the model's `handles`: may act = node ON and the object RUNNING (C13_gen_* tie the guard's text; this is the live value)
            self.oracle.append(("can-perform-action-differs-from-running-on-an-on-node",
                                f"{cls}.{meth} on {side}: _can_perform_action()={c.can} while {c.state}/node {c.node_state}", cls))
        if not c.can:
            bad = []
            if c.ret:
                bad.append(f"returned {c.ret!r}")
            if base._snapshot(obj) != c.before:
                bad.append("state of the object changed")
            if self.frames_out[side] != c.sent0:
                bad.append(f"{self.frames_out[side] - c.sent0} frame(s) left the node")
            if c.effects:
                bad.append("called " + ",".join(c.effects))
            if bad:
                self.oracle.append(("payload-handled-while-not-running",
                                     f"{cls}.{meth} on {side} while {c.state}/node {c.node_state}: " + "; ".join(bad), cls))

    def _env(self, c: Call, kwargs: dict) -> dict:
        """the values of the type tests and payload tests of the translated chain, evaluated on the real payload BEFORE the call"""
        names = NAMES[(c.kind, c.cls)]
        mods = [sys.modules[k.__module__] for k in type(c.obj).__mro__ if k.__module__ in sys.modules]

        def lookup(nm):
            for m in mods:
                if hasattr(m, nm):
                    return getattr(m, nm)
            return None
        types = [t for t in names["types"] if lookup(t) is not None and isinstance(c.payload, lookup(t))]
        conds = []
        glb = {}
        for m in reversed(mods):
            glb.update(vars(m))
        for t in names["conds"]:
            try:
                conds.append(bool(eval(t, glb, {"payload": c.payload, "self": c.obj, "session_id": kwargs.get("session_id")})))  # noqa: S307
            except Exception:  # noqa
                conds.append(False)
        return {"types": types, "conds": conds}

    # ---- what the ports say
    def port_oracle(self, where: str):
        for side, n in self.nodes.items():
            ports = set(int(p) for p in n.software_manager.get_open_ports())
            running_ports = set()
            for o in n.software_manager.port_protocol_mapping.values():
                if o.operating_state.name == "RUNNING":
                    running_ports.add(int(o.port))
                    running_ports.update(int(p) for p in (getattr(o, "listen_on_ports", None) or []))
            if ports != running_ports:
                self.oracle.append(("open-port-without-running-owner", f"{where} on {side}: open {sorted(ports)} vs ports of RUNNING slot owners "
                                    f"{sorted(running_ports)}", "ports"))


NAMES: Dict[Tuple[str, str], dict] = {}


def load_names(run_driver, exe: str):
    """ask the driver which tests / callees / types each translated chain uses, and in which order the bit strings list them"""
    base.load()
    svc, app = base.registries()
    classes = sorted({c.__name__ for c in list(svc.values()) + list(app.values())})
    qs = [(k, c) for c in classes for k in ("recv", "send")]
    out = run_driver(exe, [f"relay names {k} {c}" for k, c in qs])
    for (k, c), line in zip(qs, out):
        if line.count("||") != 2:   # class not in the table, or a driver built before the table could be generated
            continue
        a, b, t = line.split("||")
        NAMES[("receive" if k == "recv" else "send", c)] = {"conds": [x for x in a.split(";;") if x], "res": [x for x in b.split(";;") if x],
                                                            "types": [x for x in t.split(";;") if x]}


SVC_CALLS = ("stop", "start", "pause", "resume", "disable", "enable", "restart")
APP_CALLS = ("close", "run")


def gen_relay_case(rng: Rng, max_ops: int = 24) -> dict:
    ops = []
    n = rng.range(8, max_ops)
    for _ in range(n):
        r = rng.below(100) / 100.0
        if r < 0.22:
            name = rng.choice(["ftp-client", "ftp-server", "ftp-server", "c2-server", "c2-beacon"])
            side = "B" if name in ("ftp-server", "c2-beacon") else ("A" if name == "c2-server" else rng.choice(["A", "B"]))
            calls = list(APP_CALLS) if name.startswith("c2") else list(SVC_CALLS) + ["stop", "pause", "start"]
            ops.append({"op": "life", "side": side, "name": name, "call": rng.choice(calls)})
        elif r < 0.30:
            ops.append({"op": "power", "side": rng.choice(["A", "B"]), "on": rng.chance(55, 100)})
        elif r < 0.42:
            ops.append({"op": "ftp_send", "side": rng.choice(["A", "A", "B"])})
        elif r < 0.50:
            ops.append({"op": "ftp_req", "side": rng.choice(["A", "A", "B"])})
        elif r < 0.58:
            ops.append({"op": "c2_establish"})
        elif r < 0.68:
            ops.append({"op": "c2_cmd", "cmd": rng.choice(["RANSOMWARE_CONFIGURE", "RANSOMWARE_LAUNCH", "TERMINAL"])})
        elif r < 0.90:
            to = rng.choice(["ftp-client", "ftp-server", "ftp-server", "c2-server", "c2-beacon"])
            ops.append({"op": "hand", "side": "B" if to in ("ftp-server", "c2-beacon") else ("A" if to == "c2-server" else rng.choice(["A", "B"])), "to": to,
                        "payload": rng.choice(["ftp:PORT:-", "ftp:PORT:OK", "ftp:QUIT:OK", "ftp:QUIT:-", "ftp:STOR:-", "ftp:RETR:-", "ftp:RETR:NOT_FOUND",
                                               "ftp:LIST:-", "ftp:QUIT:OK", "ftp:STOR:OK", "c2:KEEP_ALIVE", "junk"] if to.startswith("ftp") else
                                              ["c2:KEEP_ALIVE", "c2:INPUT", "c2:OUTPUT", "junk", "ftp:PORT:-"])})
        else:
            ops.append({"op": "tick"})
    return {"ops": ops}


def _payload(spec: str):
    if spec == "junk":
        return {"junk": 1}
    if spec.startswith("ftp:"):
        from primaite.simulator.network.protocols.ftp import FTPCommand, FTPPacket, FTPStatusCode
        _, cmd, st = spec.split(":")
        args = 21 if cmd == "PORT" else ({"dest_folder_name": "in", "dest_file_name": "x.txt", "file_size": 10, "health_status": "GOOD"} if cmd == "STOR" else
                                        {"src_folder_name": "pub", "src_file_name": "b.txt", "dest_folder_name": "in", "dest_file_name": "b.txt"})
        return FTPPacket(ftp_command=FTPCommand[cmd], ftp_command_args=args, status_code=None if st == "-" else FTPStatusCode[st])
    from primaite.simulator.network.protocols.masquerade import C2Packet
    from primaite.simulator.system.applications.red_applications.c2.abstract_c2 import C2Payload
    from primaite.utils.validation.ip_protocol import PROTOCOL_LOOKUP
    from primaite.utils.validation.port import PORT_LOOKUP
    from primaite.simulator.system.applications.red_applications.c2.abstract_c2 import C2Command
    kind = spec.split(":")[1]
    return C2Packet(masquerade_protocol=PROTOCOL_LOOKUP["TCP"], masquerade_port=PORT_LOOKUP["HTTP"], keep_alive_frequency=5,
                    payload_type=C2Payload[kind], command=C2Command.RANSOMWARE_LAUNCH if kind == "INPUT" else None, payload={})


def run_relay_case(case: dict) -> dict:
    from ipaddress import IPv4Address
    w = World()
    raised = 0
    errors: List[str] = []
    t = 0
    for i, op in enumerate(case["ops"]):
        try:
            k = op["op"]
            if k == "life":
                o = w.nodes[op["side"]].software_manager.software.get(op["name"])
                if o is not None and hasattr(o, op["call"]):
                    getattr(o, op["call"])()
            elif k == "power":
                n = w.nodes[op["side"]]
                n.power_on() if op["on"] else n.power_off()
            elif k in ("ftp_send", "ftp_req"):
                side = op["side"]
                cl = w.nodes[side].software_manager.software.get("ftp-client")
                dst = IPv4Address(IPS["B" if side == "A" else "A"])
                if cl is not None:
                    if k == "ftp_send":
                        cl.send_file(dest_ip_address=dst, src_folder_name="out" if side == "A" else "pub", src_file_name="a.txt" if side == "A" else "b.txt",
                                     dest_folder_name="in", dest_file_name="got.txt")
                    else:
                        cl.request_file(dest_ip_address=dst, src_folder_name="pub", src_file_name="b.txt", dest_folder_name="in", dest_file_name="b.txt")
            elif k == "c2_establish":
                b = w.nodes["B"].software_manager.software.get("c2-beacon")
                if b is not None:
                    b.configure(c2_server_ip_address=IPv4Address(IPS["A"]), keep_alive_frequency=2)
                    b.establish()
            elif k == "c2_cmd":
                from primaite.simulator.system.applications.red_applications.c2.abstract_c2 import C2Command
                s = w.nodes["A"].software_manager.software.get("c2-server")
                if s is not None:
                    opts = {"server_ip_address": IPS["B"], "payload": "ENCRYPT"} if op["cmd"] == "RANSOMWARE_CONFIGURE" else \
                        ({"commands": [["service", "dns-client", "stop"]], "ip_address": None, "username": "admin", "password": "admin"} if op["cmd"] == "TERMINAL" else {})
                    s.send_command(given_command=C2Command[op["cmd"]], command_options=opts)
            elif k == "hand":
                o = w.nodes[op["side"]].software_manager.software.get(op["to"])
                if o is not None:
                    o.receive(payload=_payload(op["payload"]), session_id="handed")
            elif k == "tick":
                t += 1
                for n in w.nodes.values():
                    n.pre_timestep(t)
                for n in w.nodes.values():
                    n.apply_timestep(t)
        except Exception as e:  # noqa  -- an exception of the real code ends the operation; the calls recorded so far are still compared
            raised += 1
            errors.append(f"{op['op']}:{op.get('cmd') or op.get('payload') or ''}:{type(e).__name__}:{str(e)[:60]}")
            w.stack.clear()
        w.port_oracle(f"after op {i} ({op['op']})")
    lines, impl, meta = [], [], []
    for c in w.records:
        names = NAMES[(c.kind, c.cls)]
        env = c.payload
        ress = "".join("1" if (c.results.get(r, False) if not r.startswith("expr:") else bool(c.ret)) else "0" for r in names["res"]) or "-"
        conds = "".join("1" if b else "0" for b in env["conds"]) or "-"
        lines.append(f"relay {'recv' if c.kind == 'receive' else 'send'} {c.cls} {1 if c.can else 0} {','.join(env['types']) or '-'} {conds} {ress}")
        impl.append(f"ret={1 if c.ret else 0} effs={','.join(c.effects) or '-'}")
        meta.append((c.cls, c.kind, c.can, c.state, c.node_state))
    return {"lines": lines, "impl": impl, "meta": meta, "oracle": w.oracle, "raised": raised, "errors": errors}
