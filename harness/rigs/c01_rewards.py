"""R-env, reward configurations with extreme weights (C01: "a finite numeric reward").

`RewardFunction.update` is `Σ weight_i * component_i.calculate(...)` in floating point; the shipped components answer values in
[-1, 1] (ActionPenalty: the configured penalties; SharedReward: another agent's current reward).  Two families:

* BOUNDED: weights drawn from {0, -0.0, ±1, ±2.5, 5e-324 (smallest denormal), ±1e-300, ±1e100} — the sum of |weights| along any
  sharing chain of the scenario stays far below the largest double, so the step reward MUST be finite and the running total
  must equal the sum of the step rewards; a non-finite value here is a violation.
* OVERFLOW (out of the property's domain, recorded as evidence only): weights ±1e308, where IEEE arithmetic itself overflows
  (`1e308 + 1e308 = inf`, and a shared `inf` minus `inf` gives `nan`).  The run must still not RAISE; non-finite rewards are
  counted, not reported.
"""
from __future__ import annotations

import copy
import math
from typing import Any, Dict, List, Tuple

from harness.lib.core import Rng
from harness.rigs import envrig

BOUNDED = [0.0, -0.0, 1.0, -1.0, 2.5, -2.5, 5e-324, 1e-300, -1e-300, 1e100, -1e100]
OVERFLOW = [1e308, 1e308, -1e308, 1.0, 0.0]


def reweighted(cfg: Dict, rng: Rng, palette: List[float]) -> Tuple[Dict, List[Tuple[str, str, float]]]:
    cfg = copy.deepcopy(cfg)
    used = []
    for a in cfg.get("agents", []):
        comps = ((a.get("reward_function") or {}).get("reward_components")) or []
        for c in comps:
            w = rng.choice(palette)
            c["weight"] = w
            used.append((a.get("ref", "?"), c.get("type", "?"), w))
        if a.get("type") == "proxy-agent" and comps and rng.chance(1, 2):
            # one more component of a kind every scenario supports, so that at least two terms are added
            comps.append({"type": "dummy", "weight": rng.choice(palette)})
            used.append((a.get("ref", "?"), "dummy", comps[-1]["weight"]))
            comps.append({"type": "action-penalty", "weight": rng.choice(palette),
                          "options": {"action_penalty": -1.0, "do_nothing_penalty": 1.0}})
            used.append((a.get("ref", "?"), "action-penalty", comps[-1]["weight"]))
    return cfg, used


def run(cfg: Dict, rng: Rng, mode: str, episodes: int, steps: int) -> Tuple[envrig.Play, Dict[str, Any]]:
    palette = BOUNDED if mode == "bounded" else OVERFLOW
    cfg2, used = reweighted(cfg, rng.fork("w"), palette)
    n = envrig.n_actions_of(cfg2)
    r = rng.fork("ops")
    ops: List[Any] = []
    for _ in range(episodes):
        ops.append(["reset", r.below(2 ** 31), None])
        ops += [r.below(n) for _ in range(steps)]
    p = envrig.run_ops(cfg2, ops, steps + 5)
    stats = {"mode": mode, "weights": [w for _, _, w in used], "non_finite": 0, "cfg": cfg2, "ops": ops}
    if mode != "bounded":
        keep = []
        for f in p.fails:
            if f["kind"] in ("reward-not-finite", "total-not-sum-of-step-rewards"):
                stats["non_finite"] += 1
            else:
                keep.append(f)
        p.fails = keep
    return p, stats
